"""Confirm candidate mutants independently: in a scratch worktree of /repo HEAD (outside /repo and
/verif): demo passes on clean tree; with the patch the full test suite passes and the demo fails."""
import json, os, shutil, subprocess, sys, tempfile
from concurrent.futures import ThreadPoolExecutor
from pathlib import Path

base = Path(sys.argv[1])
items = sorted(p.parent for p in base.glob("*/*/patch.diff"))
head = subprocess.run(["git", "-C", "/repo", "rev-parse", "HEAD"], capture_output=True, text=True).stdout.strip()

def sh(cmd, cwd, env=None, timeout=1200):
    r = subprocess.run(cmd, shell=True, cwd=cwd, capture_output=True, text=True, env=env, timeout=timeout)
    return r.returncode, (r.stdout + r.stderr)[-1500:]

def one(d):
    wt = tempfile.mkdtemp(prefix="pyabconf_")
    os.rmdir(wt)
    res = {"candidate": f"{d.parent.name}/{d.name}", "repo_head": head}
    try:
        sh(f"git -C /repo worktree add -q --detach {wt} HEAD", "/")
        env = dict(os.environ, PYTHONPATH=f"{wt}/src")
        demo = (d / "demo.py").resolve()
        rc, out = sh(f"/venv/bin/python {demo}", wt, env)
        res["demo_clean_rc"] = rc
        rc, out = sh(f"git apply {(d / 'patch.diff').resolve()}", wt)
        res["apply_rc"] = rc
        rc, out = sh("/venv/bin/python -m pytest -q -p no:cacheprovider -n 4 2>&1 | tail -3", wt, env)
        res["tests_tail"] = out.strip().splitlines()[-1] if out.strip() else ""
        res["tests_pass_59"] = "59 passed" in out
        rc, out = sh(f"/venv/bin/python {demo}", wt, env)
        res["demo_patched_rc"] = rc
        res["demo_patched_tail"] = out.strip()[-400:]
        res["confirmed"] = res["demo_clean_rc"] == 0 and res["apply_rc"] == 0 and res["tests_pass_59"] and res["demo_patched_rc"] != 0
    except Exception as e:
        res["error"] = repr(e)
        res["confirmed"] = False
    finally:
        sh(f"git -C /repo worktree remove --force {wt}", "/")
        shutil.rmtree(wt, ignore_errors=True)
    return d, res

out = {}
with ThreadPoolExecutor(4) as ex:
    for d, res in ex.map(one, items):
        print(res["candidate"], "CONFIRMED" if res["confirmed"] else "NOT CONFIRMED", res.get("tests_tail"), res.get("demo_clean_rc"), res.get("demo_patched_rc"), flush=True)
        out[res["candidate"]] = res
json.dump(out, open("/tmp/confirm.json", "w"), indent=1)
subprocess.run("git -C /repo worktree prune", shell=True)

"""Self-test of the static checks, both ways.

must-fire      seeded/<id>/patch.diff (independently written mutants; meta.json names the property)
               selftest/variants/<prop>/<name>/patch.diff (reverts of the fix: commits = the defects the
               checks originally found)
must-be-silent selftest/twins/<name>/patch.diff (behaviour-preserving rewrites): every check exits 0

Each variant is applied to a fresh copy of /repo's src (git archive HEAD) in a temp dir that is
removed afterwards; the checks run with --root on that copy.  Exit 0 = all expectations met;
exit 2 = the checker is broken (never a VIOLATION: this does not judge /repo).
"""
from __future__ import annotations

import json
import os
import shutil
import subprocess
import sys
import tempfile
from concurrent.futures import ThreadPoolExecutor
from pathlib import Path

VERIF = Path(__file__).resolve().parent
PROPS = "C01 C02 C03 C05 C06 C07 C08 C09 C10 C11 C12 C13 C14 C15 C16 C17 C18".split()


def collect(only):
    items = []
    for d in sorted((VERIF / "seeded").glob("*/")):
        if (d / "patch.diff").exists() and (d / "meta.json").exists():
            meta = json.loads((d / "meta.json").read_text())
            prop = meta["breaks_property"]
            expect = meta.get("selftest_expect") or ([prop] if prop in PROPS else sorted(meta.get("detected_by_checks", []))[:1])
            if meta.get("selftest_expect_rc"):
                pass
            items.append(("fire", d, expect, meta.get("detected_by_checks", [])))
    for d in sorted((VERIF / "selftest" / "variants").glob("*/*/")):
        if (d / "patch.diff").exists():
            items.append(("fire", d, [d.parent.name], []))
    for d in sorted((VERIF / "selftest" / "twins").glob("*/")):
        if (d / "patch.diff").exists():
            items.append(("silent", d, PROPS, []))
    if only:
        items = [i for i in items if any(o in str(i[1]) for o in only)]
    return items


def run_one(item):
    kind, d, props, _ = item
    tmp = Path(tempfile.mkdtemp(prefix="pyabself_"))
    try:
        subprocess.run(f"git -C /repo archive HEAD src | tar -x -C {tmp}", shell=True, check=True)
        subprocess.run(["git", "init", "-q"], cwd=tmp)
        r = subprocess.run(["git", "apply", str((d / "patch.diff").resolve())], cwd=tmp, capture_output=True, text=True)
        if r.returncode:
            return item, {"apply": r.stderr[:200]}
        res = {}
        env = dict(os.environ, PYAB_VERIF_EVIDENCE_DIR=str(tmp / "ev"))
        for p in props:
            o = subprocess.run([str(VERIF / "check"), p, "--root", str(tmp)], capture_output=True, text=True, env=env, cwd=VERIF)
            first = next((l for l in o.stdout.splitlines() if l.startswith(("FAIL", "ANALYSIS-ERROR"))), "")
            res[p] = (o.returncode, first[:260])
        return item, res
    finally:
        shutil.rmtree(tmp, ignore_errors=True)


def run_for_property(prop: str):
    """must-fire variants of `prop` + every twin, judged on `prop`'s check only."""
    items = []
    for kind, d, props, _ in collect([]):
        if kind == "fire" and prop in props:
            items.append((kind, d, [prop], []))
        elif kind == "silent":
            items.append((kind, d, [prop], []))
    log, failed, nf, ns = [], 0, 0, 0
    with ThreadPoolExecutor(max(2, (os.cpu_count() or 4) - 2)) as ex:
        for (kind, d, props, _), res in ex.map(run_one, items):
            name = str(d.relative_to(VERIF))
            if "apply" in res:
                failed += 1
                log.append(f"BROKEN {name}: patch does not apply")
                continue
            rc, first = res[prop]
            if kind == "fire":
                nf += 1
                want = 1
                if (d / "meta.json").exists():
                    want = json.loads((d / "meta.json").read_text()).get("selftest_expect_rc", 1)
                ok = rc == want
                log.append(f"[{'ok' if ok else 'MISS'}] must-fire {name}: rc={rc} {first[:150]}")
            else:
                ns += 1
                allow2 = json.loads((d / "meta.json").read_text()).get("allow_exit2", []) if (d / "meta.json").exists() else []
                ok = rc == 0 or (rc == 2 and prop in allow2)
                if not ok:
                    log.append(f"[NOISY] must-be-silent {name}: rc={rc} {first[:150]}")
            failed += 0 if ok else 1
    log.append(f"{nf} must-fire variants fired, {ns} behaviour-preserving twins silent" if not failed else f"{failed} expectation(s) not met")
    return {"must_fire": nf, "must_be_silent": ns, "failed": failed, "log": log}


def main():
    only = [a for a in sys.argv[1:] if not a.startswith("--")]
    items = collect(only)
    bad = 0
    nfire = nsilent = 0
    with ThreadPoolExecutor(max(2, (os.cpu_count() or 4) - 2)) as ex:
        for (kind, d, props, _), res in ex.map(run_one, items):
            name = str(d.relative_to(VERIF))
            if "apply" in res:
                print(f"SELFTEST-BROKEN {name}: patch does not apply to /repo HEAD: {res['apply']}")
                bad += 1
                continue
            if kind == "fire":
                nfire += 1
                want = 1
                mp = d / "meta.json"
                if mp.exists():
                    want = json.loads(mp.read_text()).get("selftest_expect_rc", 1)
                ok = all(rc == want for rc, _ in res.values())
                print(f"[{'ok' if ok else 'MISS'}] must-fire   {name}: " + "; ".join(f"{p} rc={rc}" for p, (rc, _) in res.items()))
                if not ok:
                    bad += 1
                    for p, (rc, first) in res.items():
                        print(f"        {p}: rc={rc} {first}")
                else:
                    for p, (rc, first) in res.items():
                        print(f"        {first[:200]}")
            else:
                nsilent += 1
                allow2 = set()
                if (d / "meta.json").exists():
                    allow2 = set(json.loads((d / "meta.json").read_text()).get("allow_exit2", []))
                noisy = {p: v for p, v in res.items() if v[0] != 0 and not (v[0] == 2 and p in allow2)}
                print(f"[{'ok' if not noisy else 'NOISY'}] must-be-silent {name}: " + ("all 17 checks exit 0" if not noisy else
                      "; ".join(f"{p} rc={rc} {first}" for p, (rc, first) in noisy.items())))
                if noisy:
                    bad += 1
    print(f"selftest: {nfire} must-fire variants, {nsilent} must-be-silent twins, {bad} expectation(s) not met")
    return 2 if bad else 0


if __name__ == "__main__":
    sys.exit(main())

"""Entry point of the static checks: ./check <ID> [--tier quick|thorough] [--root DIR]."""
from __future__ import annotations

import argparse
import importlib
import json
import os
import sys
from pathlib import Path

HERE = Path(__file__).resolve().parent
sys.path.insert(0, str(HERE))

from pyab_static.core import DEFAULT_ROOT, run_check  # noqa: E402


def main(argv=None) -> int:
    ap = argparse.ArgumentParser()
    ap.add_argument("prop")
    ap.add_argument("--tier", default=os.environ.get("VERIF_TIER") or "quick", choices=["quick", "thorough"])
    ap.add_argument("--root", default=str(DEFAULT_ROOT))
    ap.add_argument("--replay", default=None, help="re-derive the verdict recorded in a replay file")
    a = ap.parse_args(argv)
    prop = a.prop.upper()
    if a.replay:
        rp = json.loads(Path(a.replay).read_text())
        prop = rp["property"]
        print(f"replaying {rp['rule']} on {rp['construct']}: {rp['detail']}")
    try:
        mod = importlib.import_module(f"rules.{prop.lower()}")
    except ModuleNotFoundError:
        print(f"ANALYSIS-ERROR property={prop}: no check registered")
        return 2
    extra = {}
    if a.tier == "thorough" and Path(a.root).resolve() == Path(str(DEFAULT_ROOT)).resolve():
        # the thorough tier also validates the checker itself for this property (both ways)
        import selftest
        st = selftest.run_for_property(prop)
        extra["selftest"] = st
        for line in st["log"]:
            print("   selftest:", line)
        if st["failed"]:
            print(f"ANALYSIS-ERROR property={prop}: self-test of the checker failed ({st['failed']} expectation(s) not met): "
                  "the check cannot be trusted until this is repaired")
            return 2

    def wrapped(rep):
        rep.extra.update({k: {kk: vv for kk, vv in v.items() if kk != "log"} for k, v in extra.items()})
        return mod.check(rep)
    return run_check(prop, a.tier, Path(a.root), wrapped)


def _main_with_deep_stack() -> int:
    """The interpreter of the analysed code is recursive (one Python frame per nested construct of a 90-level shape, inside the
    frames of the entry point it is reached through): run in a thread with a large stack and a recursion limit to match."""
    import threading
    result = []
    sys.setrecursionlimit(60000)
    threading.stack_size(512 * 1024 * 1024)
    t = threading.Thread(target=lambda: result.append(main()))
    t.start()
    t.join()
    return result[0] if result else 2


if __name__ == "__main__":
    sys.exit(_main_with_deep_stack())

"""Entry point of the static checks: ./check <ID> [--tier quick|thorough] [--root DIR]."""
from __future__ import annotations

import argparse
import importlib
import json
import os
import sys
from pathlib import Path

HERE = Path(__file__).resolve().parent
sys.path.insert(0, str(HERE))

from pyab_static.core import DEFAULT_ROOT, run_check  # noqa: E402


def main(argv=None) -> int:
    ap = argparse.ArgumentParser()
    ap.add_argument("prop")
    ap.add_argument("--tier", default=os.environ.get("VERIF_TIER") or "quick", choices=["quick", "thorough"])
    ap.add_argument("--root", default=str(DEFAULT_ROOT))
    ap.add_argument("--replay", default=None, help="re-derive the verdict recorded in a replay file")
    ap.add_argument("--demo", action="store_true", help="with --replay: also run the witness against the real package (triage aid)")
    a = ap.parse_args(argv)
    prop = a.prop.upper()
    if a.replay:
        rp = json.loads(Path(a.replay).read_text())
        prop = rp["property"]
        print(f"replaying {rp['rule']} on {rp['construct']}: {rp['detail']}")
        if a.demo:
            from pyab_static.demo import run_demo
            run_demo(rp, a.root)
    try:
        mod = importlib.import_module(f"rules.{prop.lower()}")
    except ModuleNotFoundError:
        print(f"ANALYSIS-ERROR property={prop}: no check registered")
        return 2
    return run_check(prop, a.tier, Path(a.root), mod.check)


if __name__ == "__main__":
    sys.exit(main())

"""Run every check against every candidate/seeded mutant on scratch copies (never touches /repo).
usage: python3 tools_run_mutants.py <dir-with-Cxx/mk/patch.diff> [prop filter]"""
import json, os, shutil, subprocess, sys, tempfile
from concurrent.futures import ThreadPoolExecutor
from pathlib import Path

base = Path(sys.argv[1])
PROPS = "C01 C02 C03 C05 C06 C07 C08 C09 C10 C11 C12 C13 C14 C15 C16 C17 C18".split()
items = sorted(p.parent for p in base.glob("*/*/patch.diff"))
if len(sys.argv) > 2:
    items = [i for i in items if i.parent.name in sys.argv[2:]]

def one(d):
    tmp = Path(tempfile.mkdtemp(prefix="pyabmut_"))
    try:
        subprocess.run(f"git -C /repo archive HEAD src | tar -x -C {tmp}", shell=True, check=True)
        subprocess.run(["git", "init", "-q"], cwd=tmp)
        r = subprocess.run(["git", "apply", str((d / "patch.diff").resolve())], cwd=tmp, capture_output=True, text=True)
        if r.returncode:
            return d, {"apply": r.stderr[:200]}
        res = {}
        ev = tmp / "ev"
        for p in PROPS:
            env = dict(os.environ, PYAB_VERIF_EVIDENCE_DIR=str(ev))
            o = subprocess.run(["/verif/check", p, "--root", str(tmp)], capture_output=True, text=True, env=env, cwd="/verif")
            fails = [l for l in o.stdout.splitlines() if l.startswith("FAIL") or l.startswith("ANALYSIS-ERROR")]
            res[p] = (o.returncode, fails[:2])
        return d, res
    finally:
        shutil.rmtree(tmp, ignore_errors=True)

with ThreadPoolExecutor(8) as ex:
    for d, res in ex.map(one, items):
        own = d.parent.name
        print(f"=== {own}/{d.name}")
        if "apply" in res:
            print("   APPLY FAILED", res["apply"]); continue
        hit = {p: r for p, r in res.items() if r[0] != 0}
        print("   own:", res.get(own, ("n/a",))[0], " others firing:", {p: r[0] for p, r in hit.items() if p != own})
        for p, (rc, fails) in hit.items():
            for f in fails[:1]:
                print(f"     [{p} rc={rc}] {f[:230]}")

"""C03 - weights partition the hash space exactly, in declared order (partial: structure only)."""
from . import evalrules as ER
from . import piperules as PR
from .common import TRUSTED, Ctx


def check(rep):
    ctx = Ctx(rep)
    ER.rule_grid(ctx)
    from . import choicerules as CR
    if not CR.report(ctx, "C03", facets=("interior", "tie", "rounding", "exact")):
        ER.rule_choice_search(ctx)
    PR.rule_compiles(ctx, rid="C03.SHAPE-COMPILES", strict=False)
    # population and weights position-aligned, in declared order, passed as weights=
    n = PR.rule_translation(ctx, rid="C03.ALIGNED-LISTS", focus="groups")
    rep.floor("shapes whose group lists were compared", n, 150)
    PR.rule_coercions(ctx, rid="C03.WEIGHT-VALUES", fields={"group_weight"})
    PR.rule_renderers(ctx, rid="C03.NUMBER-RENDER", kinds=("int", "float"))
    rep.assume("NOT decided: floating-point rounding of u*total against the float prefix sums (numerical behaviour over runtime values)")
    return ("Decides the shape conditions without which the partition is wrong at a boundary: right bisection on prefix sums of the "
            "weights in declared order, limited to [0, n-1]; u = k-bit integer / 2^k (so u<1, on the grid); population and weights "
            "emitted position-aligned from the same group list (template IR equality incl. duplicates, via forks on literal equality), "
            "as `weights=`; no validator or coercion rewrites a weight's value. Does NOT decide floating-point placement.", TRUSTED)

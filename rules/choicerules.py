"""Semantics of the public choice function decided by abstract interpretation over a finite ordering domain.

`deterministic_choice` touches its weights only through prefix sums and comparisons.  Its result is therefore a function
of (a) the population size n, (b) which weights are zero, (c) where u*total lies among the prefix sums (strictly between
two of them, exactly on one, or - the rounding case - on the total itself).  For n = 1..4 every such ordering class is
enumerated and the function's source is interpreted abstractly (pyab_static.absint, no execution of the package): weights
are unknowns w_i, u is the unknown returned in place of the hash position, comparisons are answered from the ordering
class.  The expected answer is the declared group whose half-open slice [C_{i-1}, C_i) holds u*total, the last group in the
rounding case.  Any computation that leaves this domain (a comparison the class does not determine, arithmetic on the
result of the search, ...) makes the analysis undecided, and the syntactic idiom rules of evalrules.py apply instead."""
from __future__ import annotations

import ast
import itertools

from pyab_static import absint as A
from pyab_static.core import AnalysisError

from .common import Ctx
from .evalrules import BIN, _choice

NMAX = 4


class Undecided(Exception):
    pass


def _setup(n, zero, xlevel, sp, special=None):
    """Unknowns, prefix sums, their levels, and the oracle for one ordering class."""
    w = [sp.Symbol(f"w{i}", nonnegative=True) for i in range(n)]
    u = sp.Symbol("u", nonnegative=True)
    C = [sum(w[:i + 1], sp.Integer(0)) for i in range(n)]
    levels, lv = [], 0
    for i in range(n):
        lv += 0 if i in zero else 1
        levels.append(lv)
    T = C[-1]
    X = sp.expand(u * T)
    table = [(sp.expand(c), l) for c, l in zip(C, levels)]

    def level(e, scaled=False):
        """Level of an expression among the running totals; ('w', i) for a single weight.  With scaled=True the answer is a pair
        (level, scale): weights measured against their largest one (w / max(w), a positive unit in every class) keep their order."""
        e = sp.expand(e)
        scale = None
        mx = [a_ for a_ in e.atoms(sp.Max) if a_.args and all(x in w for x in a_.args) and len(a_.args) == len(w)]
        if e != 0 and len(mx) == 1 and not scaled is None:
            e2 = sp.expand(sp.simplify(e * mx[0]))
            if not e2.atoms(sp.Max):
                e, scale = e2, mx[0]
        r = _level(e)
        return (r, scale) if scaled else (r if scale is None else None)

    def _level(e):
        if e == 0:
            return 0
        if e == X:
            return xlevel
        for c, l in table:
            if e == c:
                return l
        for i, wi in enumerate(w):
            if e == wi:
                return ("w", i)
        if isinstance(e, sp.Max) and set(e.args) == set(w):
            return ("max",)
        return None

    nan_sym = w[-1] if special == "nan" and w else None      # in the NaN class the last weight is the NaN: whatever contains it is NaN

    def oracle(op, ea, eb):
        if nan_sym is not None and (nan_sym in sp.sympify(ea).free_symbols or nan_sym in sp.sympify(eb).free_symbols):
            return op == "NotEq"                         # every ordered comparison with NaN is false
        if special in ("nan",) and (sp.expand(ea) == sp.expand(T) or sp.expand(eb) == sp.expand(T)):
            return op == "NotEq"                         # every ordered comparison with NaN is false
        (la, sa), (lb, sb) = level(ea, True), level(eb, True)
        if la is None or lb is None:
            return None
        if sa != sb and la != 0 and lb != 0:
            return None                                  # one side measured in units of the largest weight, the other not
        if ("max",) in (la, lb):
            # the largest weight is positive in every class (some weight is non-zero)
            if la == ("max",) and lb == 0:
                d = 1
            elif lb == ("max",) and la == 0:
                d = -1
            else:
                return None
        elif isinstance(la, tuple) or isinstance(lb, tuple):
            # a single weight against zero
            if isinstance(la, tuple) and lb == 0:
                d = 0 if la[1] in zero else 1
            elif isinstance(lb, tuple) and la == 0:
                d = 0 if lb[1] in zero else -1
            else:
                return None
        else:
            d = (la > lb) - (la < lb)
        return {"Lt": d < 0, "LtE": d <= 0, "Gt": d > 0, "GtE": d >= 0, "Eq": d == 0, "NotEq": d != 0}[op]

    def fact(kind, e):
        if nan_sym is not None and nan_sym in sp.sympify(e).free_symbols:
            return {"isfinite": False, "isinf": False, "isnan": True}[kind]
        if sp.expand(e) in (sp.expand(T), X):
            if special == "nan":
                return {"isfinite": False, "isinf": False, "isnan": True}[kind]
            if special == "inf":
                return {"isfinite": False, "isinf": True, "isnan": False}[kind]
            return {"isfinite": True, "isinf": False, "isnan": False}[kind]
        if e.free_symbols <= set(w) | {u}:
            return {"isfinite": True, "isinf": False, "isnan": False}[kind]
        return None
    oracle.level = level
    return w, u, C, levels, oracle, fact


def _run1(ctx: Ctx, m, fn, n, mode, zero=frozenset(), xlevel=0.5, special=None, wlen=None, both=False, choices=(), seq="list",
          inexact=None):
    """Interpret deterministic_choice abstractly for one ordering class.  Returns ('value', v) | ('raise', class name),
    plus whether an argument list was changed."""
    import sympy as sp
    w, u, C, levels, oracle, fact = _setup(n, zero, xlevel, sp, special)
    it = A.Interp(ctx.src, choices)
    idsym = A.Sym("str", "ID")

    def proba(it_, args, kw, site):
        # the position must be the hash of the id the caller passed, nothing else
        if len(args) != 1 or args[0] is not idsym or kw:
            raise A.Unsupported(f"deterministic_proba is called with something other than the id parameter at {site}")
        return A.Num(u)
    it.call_hooks = {f"{BIN}:deterministic_proba": proba}
    it.num_oracle = oracle
    it.num_fact = fact
    it.num_nonnegative = lambda e: e.free_symbols <= set(w) | {u}
    if inexact is not None and mode == "weights" and special is None and n >= 2:
        # the caller's integer weights have exact integer running totals (that is what `cum_weights=` would be given): a proper
        # prefix sum that has become a Python float by the time the position is compared with it is rounded above 2**53
        proper = {sp.expand(c): i for i, c in enumerate(C[:-1]) if sp.expand(c) != sp.expand(C[-1])}

        def watch(op, a, b, site):
            for x, y in ((a, b), (b, a)):
                ex, ey = A._to_expr(x), A._to_expr(y)
                if isinstance(x, A.Num) and x.fl and ex is not None and ey is not None and u in ey.free_symbols:
                    ex = sp.expand(ex)
                    mx = [a_ for a_ in ex.atoms(sp.Max) if set(a_.args) == set(w)]
                    if len(mx) == 1:
                        ex = sp.expand(sp.simplify(ex * mx[0]))      # measured against the largest weight
                    if ex in proper:
                        inexact.append((proper[ex], site))
        it.num_compare_watch = watch
    # the items are opaque values of alternating kinds (int, float, str, ...): two of them may compare equal without being the
    # same item (0 and 0.0, 1 and True), and then it still matters WHICH one is returned
    kinds_ = ("int", "float", "str", "int")
    pop = A.AList([A.Sym(kinds_[i % 4], f"P{i}") for i in range(n)], "list")
    k = n if wlen is None else wlen
    ws = (w + [sp.Symbol(f"w{i}", nonnegative=True) for i in range(n, k)])[:k]
    cs = [sum(ws[:i + 1], sp.Integer(0)) for i in range(k)]
    wl = A.AList([A.Num(x) for x in ws], seq)       # callers pass lists or tuples
    cl = A.AList([A.Num(x) for x in cs], seq)
    snap = (list(pop.items), list(wl.items), list(cl.items))
    params = [a.arg for a in fn.args.args + fn.args.kwonlyargs]
    idp, popp = params[0], params[1]
    kwargs = {}
    if mode in ("weights", "both") or both:
        kwargs["weights"] = wl
    if mode in ("cum", "both") or both:
        kwargs["cum_weights"] = cl
    try:
        v = it.call(A.FuncVal(m, fn), [idsym, pop], kwargs)
        out = ("value", v)
    except A.RaiseSig as r:
        out = ("raise", r.exc_name)
    except A.NeedChoice:
        raise
    except A.Unsupported as e:
        raise Undecided(str(e))
    changed = snap != (list(pop.items), list(wl.items), list(cl.items))
    return out, pop, changed, (u, levels), list(it.assumptions)


def _run(ctx: Ctx, m, fn, n, mode, **kw):
    """All forks of one ordering class (the code may ask whether two items compare equal).  Returns the list of
    (outcome, population, changed, (u, levels), assumptions)."""
    outs, pending = [], [()]
    while pending:
        ch = pending.pop()
        try:
            outs.append(_run1(ctx, m, fn, n, mode, choices=ch, **kw))
        except A.NeedChoice:
            pending.append(ch + (True,))
            pending.append(ch + (False,))
        if len(outs) + len(pending) > 64:
            raise Undecided("too many undetermined decisions in deterministic_choice")
    return outs


def _same_item(got, want, assumptions):
    """The returned item is the expected one, or one that is indistinguishable from it under the fork's assumptions (same kind
    and assumed equal)."""
    if got is want:
        return True
    if isinstance(got, A.Sym) and isinstance(want, A.Sym) and got.kind == want.kind:
        return any(a_.endswith("=True") and f"equal({got.src},{want.src})" in a_ or f"equal({want.src},{got.src})" in a_ and a_.endswith("=True")
                   for a_ in assumptions)
    return False


def choice_semantics(ctx: Ctx):
    """{'classes': [...], 'undecided': reason or None} (cached)."""
    cache = ctx.__dict__.setdefault("_choice_sem", None)
    if cache is not None:
        return cache
    import sympy as sp
    m, fn = _choice(ctx)
    res = {"undecided": None, "located": [], "guards": [], "unweighted": None, "changed": [], "n_classes": 0, "inexact": []}
    try:
        for mode in ("weights", "cum"):
            for n in range(1, NMAX + 1):
                for zero in (frozenset(z) for r in range(n) for z in itertools.combinations(range(n), r)):
                    top = n - len(zero)
                    if top < 1:
                        continue
                    xs = [x / 2 for x in range(0 if 0 in zero else 1, 2 * top + 1)]
                    if 0 not in zero:
                        xs = [0] + xs          # u == 0
                    for xl in sorted(set(xs)):
                        for (kind, v), pop, changed, (u, levels), assumed in _run(ctx, m, fn, n, mode, zero=zero, xlevel=xl,
                                                                                                inexact=res["inexact"]):
                            want = next((i for i in range(n) if xl < levels[i]), n - 1)
                            cls = "rounding" if xl >= levels[-1] else ("tie" if float(xl).is_integer() else "interior")
                            got = None
                            if kind == "value":
                                got = next((i for i, p_ in enumerate(pop.items) if v is p_), None)
                            okk = kind == "value" and got is not None and _same_item(pop.items[got], pop.items[want], assumed)
                            eqs = [a_.split(" at ")[0] for a_ in assumed if a_.endswith("=True")]
                            res["located"].append({"mode": mode, "n": n, "zero": sorted(zero), "x": xl, "class": cls, "want": want,
                                                   "got": got if kind == "value" else f"raises {v}", "ok": okk, "assuming": eqs})
                            if changed:
                                res["changed"].append((mode, n))
                        res["n_classes"] += 1
        # unweighted
        for n in (1, 3):
            (kind, v), pop, changed, (u, levels), _as = _run(ctx, m, fn, n, "none")[0]
            ok = kind == "value" and ((isinstance(v, A.Indexed) and v.seq is pop and sp.simplify(v.index - sp.floor(u * n)) == 0)
                                     or (n == 1 and v is pop.items[0]))       # floor(u) = 0 for u in [0, 1)
            res["unweighted"] = (res["unweighted"] is not False and ok, repr(v) if kind == "value" else f"raises {v}") \
                if res["unweighted"] is None or res["unweighted"][0] else res["unweighted"]
            if changed:
                res["changed"].append(("none", n))
        # guards, for populations of 1, 2 and 3 (a single group is the fully rolled-out experiment)
        for n in (1, 2, 3):
            for label, kw, want in (
                    ("too many weights", dict(mode="weights", wlen=n + 1), "ValueError"),
                    ("too few weights", dict(mode="weights", wlen=n - 1), "ValueError"),
                    ("too many running totals", dict(mode="cum", wlen=n + 1), "ValueError"),
                    ("too few running totals", dict(mode="cum", wlen=n - 1), "ValueError"),
                    ("too many weights, given as a tuple", dict(mode="weights", wlen=n + 1, seq="tuple"), "ValueError"),
                    ("too many running totals, given as a tuple", dict(mode="cum", wlen=n + 1, seq="tuple"), "ValueError"),
                    ("too few running totals, given as a tuple", dict(mode="cum", wlen=n - 1, seq="tuple"), "ValueError"),
                    ("total of zero", dict(mode="weights", zero=frozenset(range(n)), xlevel=0), "ValueError"),
                    ("NaN total", dict(mode="weights", special="nan"), "ValueError"),
                    ("infinite total", dict(mode="weights", special="inf"), "ValueError"),
                    ("NaN total (running totals)", dict(mode="cum", special="nan"), "ValueError"),
                    ("both kinds of weights", dict(mode="both"), "TypeError")):
                label = f"{label}, {n} group{'s' if n > 1 else ''}"
                try:
                    (kind, v), *_ = _run(ctx, m, fn, n, **kw)[0]
                except Undecided as e:
                    res["guards"].append({"label": label, "want": want, "got": f"undecided: {e}", "ok": None})
                    continue
                res["guards"].append({"label": label, "want": want, "got": f"raises {v}" if kind == "raise" else "returns a value",
                                      "ok": kind == "raise" and v == want})
    except Undecided as e:
        res["undecided"] = str(e)
    ctx.__dict__["_choice_sem"] = res
    return res


def report(ctx: Ctx, prefix: str, facets=("interior", "tie", "rounding", "unweighted", "guards", "unchanged", "exact"), names=None):
    """Emit the obligations of the abstract evaluation for one property.  Returns False when the analysis is undecided (the
    caller then falls back to the idiom rules)."""
    sem = choice_semantics(ctx)
    if sem["undecided"]:
        ctx.rep.note(f"abstract evaluation of deterministic_choice undecided ({sem['undecided'][:120]}): idiom rules used instead")
        return False
    m, fn = _choice(ctx)
    con = f"{BIN}:deterministic_choice"
    site = m.site(fn)
    RID = {"interior": "LOCATE", "tie": "BISECT-RIGHT", "rounding": "BISECT-CLAMP", **(names or {})}
    WHY = {"interior": "a unit whose position lies strictly inside a group's slice is given another group",
           "tie": "a unit exactly on a boundary (u*total equal to a running total, e.g. u = 0 after a zero weight) is not given the next "
                  "group: the search is not a right bisection",
           "rounding": "when u*total rounds up to the total the answer is not the last group (the search is not limited to n-1)"}
    for cls in ("interior", "tie", "rounding"):
        if cls not in facets:
            continue
        rows = [r for r in sem["located"] if r["class"] == cls]
        bad = [r for r in rows if not r["ok"]]
        rid = f"{prefix}.{RID[cls]}"
        if bad:
            b = bad[0]
            ctx.rep.bad(rid, con + f"[{cls}]", f"{WHY[cls]}: with {b['n']} groups, zero weights at {b['zero']}, "
                        f"{'running totals' if b['mode'] == 'cum' else 'weights'} given and u*total at level {b['x']} of the running totals, "
                        f"the declared group {b['want']} is expected and the function gives {b['got']}"
                        + (f" when items of different types compare equal ({'; '.join(b.get('assuming', []))[:80]}, e.g. 0 and 0.0)" if b.get("assuming") else "") + " "
                        f"({len(bad)} of {len(rows)} ordering classes)", site=site, text=f"{cls} classes wrong",
                        witness={k: b[k] for k in ("mode", "n", "zero", "x", "want", "got")})
        else:
            ctx.rep.ok(rid, con + f"[{cls}]", f"all {len(rows)} ordering classes (n <= {NMAX}, every set of zero weights, weights or running "
                       "totals) give the group whose slice holds u*total", site=site)
    if "unweighted" in facets and sem["unweighted"] is not None:
        ok, got = sem["unweighted"]
        ctx.rep.check(ok, f"{prefix}.UNWEIGHTED", con + "[no weights]", "without weights the answer is population[floor(u*n)] (equal shares)"
                      if ok else f"without weights the answer is {got}, not population[floor(u*n)]", site=site, text="unweighted")
    if "guards" in facets:
        for g in sem["guards"]:
            if g["ok"] is None:
                ctx.rep.note(f"guard class `{g['label']}` undecided: {g['got'][:100]}")
                continue
            ctx.rep.check(g["ok"], f"{prefix}.GUARDS", con + f"[{g['label']}]", f"{g['label']}: raises {g['want']}" if g["ok"] else
                          f"{g['label']}: the documented {g['want']} is expected, the function {g['got']}", site=site, text=g["label"])
    if "unchanged" in facets:
        ctx.rep.check(not sem["changed"], f"{prefix}.ARGS-UNMODIFIED", con + "[abstract runs]",
                      "no abstract run changed population, weights or running totals" if not sem["changed"] else
                      f"the argument lists are changed during a call ({sem['changed'][0]})", site=site, text="arguments changed")
    if "exact" in facets:
        bad = sorted(set(sem["inexact"]))
        ctx.rep.check(not bad, f"{prefix}.TOTALS-EXACT", con + "[running totals of the weights]",
                      "given `weights`, the position is compared with their running totals as summed (no proper prefix sum is a value "
                      "converted to float first): integer weights keep exact integer totals, as if given as `cum_weights`" if not bad else
                      f"given `weights`, the running total of the first {bad[0][0] + 1} weight(s) is a float when the position is compared "
                      f"with it at {bad[0][1]} (float start value, float() or a division on the way): integer weights above 2**53 get "
                      "rounded boundaries, so `weights=` and the same numbers as `cum_weights=` choose differently for a unit between the "
                      "exact and the rounded boundary", site=site, text="running totals float")
    ctx.rep.extra["choice_ordering_classes"] = sem["n_classes"]
    return True

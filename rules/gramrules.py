"""Grammar-level rules (E4/E5): parser error discipline, agreement with the reference grammar,
precedence resolution in the LALR table."""
from __future__ import annotations

import ast

from pyab_static.core import VERIF, AnalysisError
from pyab_static.lr import CFG, earley_recognise
from pyab_static.srcmodel import dotted, norm

from .common import Ctx
from .lexrules import all_paths_raise

GR = "language/grammar.py"


def rule_parse_error_raises(ctx: Ctx, rid="C06.PARSE-ERROR-RAISES"):
    g = ctx.grammar
    con = f"{GR}:{g.cls.name}.error"
    if g.error_func is None:
        ctx.rep.bad(rid, con, f"{g.cls.name} defines no error(): sly's default only prints, after which Parser.parse discards the "
                    "look-ahead, resets to state 0 and keeps parsing (junk or a broken definition before a valid `def` is skipped)",
                    witness="junk def e{ return \"A\" weighted 1 }", site=g.mod.site(g.cls), text="no error() override")
        return
    ok, why, npaths = all_paths_raise(g.error_func)
    ctx.rep.unit(f"paths of {g.cls.name}.error: {npaths}")
    if ok:
        ctx.rep.ok(rid, con, f"every path of {g.cls.name}.error raises ({npaths} paths): no panic-mode recovery", site=g.mod.site(g.error_func))
    else:
        ctx.rep.bad(rid, con, f"{g.cls.name}.error can return normally ({why}); Parser.parse then skips tokens and resumes",
                    site=g.mod.site(g.error_func), text=norm(g.error_func)[:300])
    # errok/restart calls would re-enable recovery
    for fn in [x for x in g.cls.body if isinstance(x, ast.FunctionDef)]:
        for c in ast.walk(fn):
            if isinstance(c, ast.Call) and isinstance(c.func, ast.Attribute) and c.func.attr in ("errok", "restart"):
                ctx.rep.bad(rid, f"{GR}:{g.cls.name}.{fn.name}", f"calls self.{c.func.attr}(): manual error recovery",
                            site=g.mod.site(c), text=norm(c))


def rule_no_error_productions(ctx: Ctx, rid="C06.NO-ERROR-PRODUCTIONS"):
    g = ctx.grammar
    bad = [p for p in g.prods if "error" in p.syms]
    ctx.rep.check(not bad, rid, f"{GR}:{g.cls.name}", f"none of the {len(g.prods) - 1} productions mentions the `error` token" if not bad else
                  f"production `{bad[0]}` resynchronises on errors", site=bad[0].site if bad else "", text=str(bad[0]) if bad else "")
    starts = [p for p in g.prods if p.name == g.start]
    ctx.rep.check(len(g.by_name("S'")) == 1, rid, f"{GR}:{g.cls.name}[start]", f"single start production S' -> {g.start}", text="start")
    ctx.rep.floor("productions", len(g.prods) - 1, 30)


def reference_cfg() -> CFG:
    p = VERIF / "reference" / "grammar.bnf"
    return CFG.from_bnf(p.read_text())


def rule_accept_needs_end(ctx: Ctx, rid="C06.ACCEPT-NEEDS-END"):
    """sly skips the look-ahead in "defaulted" states.  That is sound only for states whose single action is a REDUCE
    (a negative table entry): the accept action (0) must stay subject to the `$end` look-ahead, otherwise text after the
    definition is never even lexed, and a shift (positive) needs its token.  The loop that fills `defaulted_states` is
    interpreted abstractly on one representative of each class of table entry (sign domain)."""
    from pyab_static import absint as A
    m = ctx.mod("sly/yacc.py")
    init = m.get_method("LRTable", "__init__")
    # the statements that compute self.defaulted_states: its (re)initialisation and the loop that fills it, or one
    # comprehension; they are interpreted with self.lr_action = {7: <the scenario's actions>}
    stmts = []
    for n in init.body:
        writes = any((isinstance(x, ast.Attribute) and x.attr == "defaulted_states" and isinstance(x.ctx, ast.Store)) or
                     (isinstance(x, ast.Subscript) and isinstance(x.ctx, ast.Store) and norm(x.value).endswith("defaulted_states"))
                     for x in ast.walk(n))
        if writes:
            stmts.append(n)
    if not stmts or not any("lr_action" in norm(x) for x in stmts):
        raise AnalysisError("sly/yacc.py:LRTable.__init__: defaulted-state computation not found")
    loop = stmts[-1]
    scenarios = [("a single reduce", {"tok": -3}, True), ("the accept action", {"tok": 0}, False), ("a single shift", {"tok": 4}, False),
                 ("two reduces", {"t1": -3, "t2": -5}, False), ("reduce and shift", {"t1": -3, "t2": 6}, False)]
    wrong = []
    for label, actions, want in scenarios:
        it = A.Interp(ctx.src)
        cls = it.class_val(m, m.classes()["LRTable"])
        selfo = A.Obj(cls, {"defaulted_states": A.ADict({}), "lr_action": A.ADict({7: A.ADict(dict(actions))})})
        env = A.Env(m, {init.args.args[0].arg: selfo})
        try:
            it.exec_block(stmts, env)
        except A.RaiseSig:
            pass
        except (A.Unsupported, A.NeedChoice) as e:
            raise AnalysisError(f"sly/yacc.py:LRTable.__init__: defaulted-state computation not understood ({e})")
        got = len(selfo.attrs["defaulted_states"].items) > 0
        if got != want:
            wrong.append((label, got))
    con = "sly/yacc.py:LRTable.__init__[defaulted_states]"
    if not wrong:
        ctx.rep.ok(rid, con, "only single-reduce states are defaulted: accepting needs the $end look-ahead", site=m.site(loop))
    else:
        label, got = wrong[0]
        extra = (": the parser accepts without looking at what follows the definition (trailing junk or a second definition is never read)"
                 if label == "the accept action" else "")
        ctx.rep.bad(rid, con, f"a state whose only action is {label} is {'defaulted' if got else 'not defaulted'}{extra}",
                    witness="def e{ return \"A\" weighted 1 } junk", site=m.site(loop),
                    text=f"defaulted_states: {label} -> {got}")


def rule_grammar_agrees(ctx: Ctx, rid="C06.GRAMMAR-AGREES", maxlen=None, directions=("ref<=ext", "ext<=ref", "mutations")):
    """Two-way bounded language comparison (token-type sentences, smallest first): every
    sentence of the reference grammar up to N tokens is accepted by the LALR table built from the
    extracted productions, and every sentence of the extracted grammar up to N tokens is a
    sentence of the reference grammar (Earley)."""
    g, T = ctx.grammar, ctx.table
    ref = reference_cfg()
    ext = CFG.from_grammar(g)
    N = maxlen or (13 if ctx.rep.tier == "quick" else 18)
    limit = 4000 if ctx.rep.tier == "quick" else 400000
    n1 = n2 = 0
    miss = None
    for s in (ref.sentences(N, limit) if "ref<=ext" in directions else ()):
        n1 += 1
        if not T.accepts(s):
            miss = s
            break
    con = f"{GR}:{g.cls.name}"
    if "ref<=ext" not in directions:
        pass
    elif miss:
        ctx.rep.bad(rid, con + "[reference <= extracted]", "a sentence of the documented grammar is rejected by the parser's table: "
                    + " ".join(miss), witness=" ".join(miss), text="rejects " + " ".join(miss))
    else:
        ctx.rep.ok(rid, con + "[reference <= extracted]", f"all {n1} reference sentences of <= {N} tokens are accepted")
    extra = None
    if "ext<=ref" in directions:
        from pyab_static.lr import first_non_member
        sents = list(ext.sentences(N, limit))
        n2 = len(sents)
        extra = first_non_member((VERIF / "reference" / "grammar.bnf").read_text(), sents)
    if "ext<=ref" not in directions:
        pass
    elif extra:
        ctx.rep.bad(rid, con + "[extracted <= reference]", "the parser's grammar derives a token sequence outside the documented grammar: "
                    + " ".join(extra), witness=" ".join(extra), text="accepts " + " ".join(extra))
    else:
        ctx.rep.ok(rid, con + "[extracted <= reference]", f"all {n2} sentences of the extracted grammar of <= {N} tokens are reference sentences")
    # and the table accepts nothing the extracted CFG does not derive (conflict resolution can only remove sentences)
    ctx.rep.extra["grammar_sentences_compared"] = {"reference": n1, "extracted": n2, "max_tokens": N}
    if "ref<=ext" in directions:
        ctx.rep.floor("reference sentences compared", n1, 60)
    if "mutations" not in directions:
        return
    # one-token mutations of reference sentences that the reference rejects must be rejected by the table too
    n3 = 0
    bad = None
    terms = sorted(set(g.terminals) - {"error"})
    base = list(ref.sentences(N if ctx.rep.tier == "thorough" else 11, 400 if ctx.rep.tier == "thorough" else 40))
    for s in base:
        s = list(s)
        muts = []
        for i in range(len(s)):
            muts.append(s[:i] + s[i + 1:])
            muts.append(s[:i] + [s[i]] + s[i:])
            if i + 1 < len(s):
                muts.append(s[:i] + [s[i + 1], s[i]] + s[i + 2:])
        for t in terms:
            muts.append([t] + s)
            muts.append(s + [t])
        muts.append(s + s)
        for mt in muts:
            if earley_recognise(ref, mt):
                continue
            n3 += 1
            if T.accepts(mt):
                bad = mt
                break
        if bad:
            break
    if bad:
        ctx.rep.bad(rid, con + "[mutations]", "a token-level mutation outside the documented grammar is accepted by the table: " + " ".join(bad),
                    witness=" ".join(bad), text="accepts mutation " + " ".join(bad))
    else:
        ctx.rep.ok(rid, con + "[mutations]", f"{n3} delete/duplicate/swap/prefix/suffix/concatenation mutations rejected by the reference are "
                   "rejected by the table")
    ctx.rep.extra["grammar_mutations_checked"] = n3


def token_roles(ctx: Ctx):
    """{'and': token, 'or': token, 'not': token} from the lexer patterns."""
    lc = ctx.main
    L = ctx.lexicon(lc.name)
    roles = {}
    from .lexrules import remapped_tokens
    remap = {(rule, lit): tok for tok, (rule, lit) in remapped_tokens(lc).items()}
    for word in ("and", "or", "not"):
        r = L.select(word)
        if r is None or r[1] != len(word):
            raise AnalysisError(f"the word {word!r} is not lexed as one token")
        name = lc.rules[r[0]].name
        roles[word] = remap.get((name, word), name)
    return roles


def rule_precedence(ctx: Ctx, rid="C02.PRECEDENCE", only_errors=False):
    """only_errors (C07): a chain of operators must parse at all (no nonassoc `error` entry); which way it groups is C02's."""
    g, T = ctx.grammar, ctx.table
    roles = token_roles(ctx)
    strength = {roles["or"]: 1, roles["and"]: 2, roles["not"]: 3}
    inv = {v: k for k, v in roles.items()}
    n = 0
    for c in T.conflicts:
        if c.kind != "sr":
            continue
        prod = g.prods[c.prods[0]]
        # the operator of the production: a terminal of the table, or a non-terminal that stands for several of them
        # (`predicate bool_op predicate`): then the one table decision has to be right for each operator it can be
        options = []
        for s_ in prod.syms:
            if s_ in strength:
                options.append([s_])
            elif s_ in g.nonterminals:
                alts = g.by_name(s_)
                if alts and all(len(a_.syms) == 1 and a_.syms[0] in strength for a_ in alts):
                    options.append([a_.syms[0] for a_ in alts])
        if not options or c.terminal not in strength:
            continue
        n += max(1, len(options[0]) if len(options[0]) > 1 else 1)
        la = c.terminal
        con = f"{GR}:{g.cls.name}.precedence[{prod} . {la}]"
        if c.resolution == "error":
            po = options[0][0]
            ctx.rep.bad(rid, con, f"`{inv[po]}` followed by `{inv[la]}` is a syntax error (nonassoc): chains no longer parse",
                        text=f"{prod} / {la} -> error")
            continue
        if only_errors:
            ctx.rep.ok(rid, con, f"`{inv[options[0][0]]}` followed by `{inv[la]}` parses ({c.resolution})", text=f"{prod} / {la} parses")
            continue
        wrong = None
        for po in options[0]:
            if strength[po] > strength[la]:
                w_ = "reduce"
            elif strength[po] < strength[la]:
                w_ = "shift"
            else:
                w_ = c.resolution      # equal strength: either association has the same meaning for and/or
            if w_ != c.resolution:
                wrong = (po, w_)
        po = wrong[0] if wrong else options[0][0]
        want = wrong[1] if wrong else c.resolution
        ok = c.resolution == want and c.by_precedence
        ctx.rep.check(ok, rid, con, f"after `{prod}` with `{inv[la]}` next the table {c.resolution}s: `{inv[po]}` binds "
                      f"{'tighter than' if strength[po] > strength[la] else 'looser than' if strength[po] < strength[la] else 'like'} `{inv[la]}`" if ok else
                      f"after `{prod}` with `{inv[la]}` next the table {c.resolution}s "
                      f"({'by default, no precedence declared' if not c.by_precedence else 'by the precedence table'}); the documented "
                      f"binding (not > and > or) needs {want}", site=g.mod.site(g.class_attrs.get('precedence', g.cls)),
                      text=f"{prod} / {la} -> {c.resolution}")
    if n == 0 and not [c for c in T.conflicts if c.terminal in strength]:
        # a stratified grammar (disjunction / conjunction / negation levels): nothing is left to a precedence table; how the
        # operators group is then decided by the productions themselves, which the translation rule follows end to end
        ctx.rep.ok(rid, f"{GR}:{g.cls.name}.precedence", "no shift/reduce decision among not/and/or exists: the grammar is unambiguous "
                   "without a precedence table", nontrivial=False)
        return
    ctx.rep.floor("operator shift/reduce decisions", n, 6)


def rule_conflicts(ctx: Ctx, rid="C07.LALR-CONFLICTS"):
    g, T = ctx.grammar, ctx.table
    bad = [c for c in T.conflicts if c.kind == "rr" or not c.by_precedence or c.resolution == "error"]
    con = f"{GR}:{g.cls.name}"
    if bad:
        c = bad[0]
        ctx.rep.bad(rid, con, f"LALR(1) conflict left to default resolution in state {c.state} on {c.terminal}: {c.kind} -> {c.resolution} "
                    f"({[str(g.prods[i]) for i in c.prods]})", text=f"{c.kind} {c.terminal} {[str(g.prods[i]) for i in c.prods]}")
    else:
        ctx.rep.ok(rid, con, f"{len(T.states)} LALR states, {len(T.conflicts)} conflicts, all resolved by declared precedence")
    ctx.rep.extra["lalr"] = {"lr1_states": T.lr1_states, "lalr_states": len(T.states), "conflicts": len(T.conflicts)}


def _layout_independent(ctx: Ctx, prod, variable):
    """True when the production's action yields one and the same value (and never raises) for every text the
    layout-variable tokens can have; None when that cannot be decided."""
    from pyab_static import absint as A
    pl = ctx.pipeline
    vals = []
    for s_ in prod.syms:
        if s_ in ctx.grammar.nonterminals:
            return None              # values of other productions flow in: decided by the syntactic reading only
        if s_ in variable:
            vals.append(A.Sym("rawtoken", s_))
        else:
            vals.append(pl.token_text(s_))

    def job(it):
        parser_obj = A.Obj(it.class_val(ctx.grammar.mod, ctx.grammar.cls), {})
        pv = A.PVal(prod.syms, list(vals), prod.aliases)
        return it.call(A.FuncVal(ctx.grammar.mod, prod.func, parser_obj), [pv], {})
    try:
        outs = A.run_forking(ctx.src, job, max_forks=64)
    except (A.Unsupported, AnalysisError):
        return None
    results = []
    for assumptions, res, it in outs:
        if isinstance(res, A.RaiseSig):
            return False
        results.append(res)
    first = results[0]
    same = all((r_ == first) if not isinstance(r_, (A.Obj, A.AList)) else False for r_ in results[1:]) if len(results) > 1 else True
    return True if same else False


def _only_types_read(fn, slice_attr) -> bool:
    """Is this `p._slice` used only to read the *type* of its symbols (`p._slice[i].type`, or names unpacked from it
    that are only used as `<name>.type`)?"""
    parents = {}
    for n in ast.walk(fn):
        for ch in ast.iter_child_nodes(n):
            parents[ch] = n
    par = parents.get(slice_attr)
    if isinstance(par, ast.Subscript) and par.value is slice_attr:
        up = parents.get(par)
        return isinstance(up, ast.Attribute) and up.attr == "type"
    if isinstance(par, ast.Assign) and par.value is slice_attr:
        names = [x.id for t in par.targets for x in ast.walk(t) if isinstance(x, ast.Name)]
        for n in ast.walk(fn):
            if isinstance(n, ast.Name) and n.id in names and isinstance(n.ctx, ast.Load):
                up = parents.get(n)
                if not (isinstance(up, ast.Attribute) and up.attr == "type"):
                    return False
        return bool(names)
    return False


def rule_layout_free_values(ctx: Ctx, rid="C08.LAYOUT-FREE-VALUES"):
    """A token whose lexeme may contain white space (`not   in`, `else if`) has a text that varies with the layout the
    author chose.  Its *type* is what the grammar may rely on; a production action that reads its *value* (p.TOKEN, p[i],
    p._slice, iteration over p) makes the parse result depend on spacing."""
    lc = ctx.main
    L = ctx.lexicon(lc.name)
    g = ctx.grammar
    variable = {}
    for i, r in enumerate(lc.rules):
        if not r.emits or r.name not in g.terminals:
            continue
        ws = [a for a in L.used_atoms(i) if chr(a).isspace()]
        if ws and not (r.action and r.action.value_rewrites):
            variable[r.name] = ws[0]
    ctx.rep.floor("tokens whose text can contain white space", len(variable), 1)
    n = 0
    for p in g.prods[1:]:
        toks = [(k, t) for k, t in enumerate(p.syms) if t in variable]
        if not toks or p.func is None:
            continue
        n += 1
        pname = p.func.args.args[1].arg if len(p.func.args.args) > 1 else "p"
        reads = []
        for x in ast.walk(p.func):
            if isinstance(x, ast.Attribute) and dotted(x.value) == pname:
                base = x.attr.rstrip("0123456789")
                if x.attr in variable or base in variable:
                    reads.append((x, f"{pname}.{x.attr}"))
                if x.attr in ("_slice", "_stack") and not _only_types_read(p.func, x):
                    reads.append((x, f"{pname}.{x.attr}"))
            if isinstance(x, ast.Subscript) and dotted(x.value) == pname:
                if isinstance(x.slice, ast.Constant) and isinstance(x.slice.value, int):
                    k = x.slice.value if x.slice.value >= 0 else len(p.syms) + x.slice.value
                    if 0 <= k < len(p.syms) and p.syms[k] in variable:
                        reads.append((x, f"{pname}[{x.slice.value}]"))
                else:
                    reads.append((x, norm(x)))
            if isinstance(x, (ast.For, ast.comprehension)) and dotted(x.iter) == pname:
                reads.append((x.iter, f"iteration over {pname}"))
            if isinstance(x, ast.Starred) and dotted(x.value) == pname:
                reads.append((x, f"*{pname}"))
        con = f"{GR}:{p}"
        if reads:
            # the text is read: does the action's result depend on it?  Interpret the action with the token's text opaque
            # (any word of its pattern) under every outcome of the decisions that involve it
            verdict = _layout_independent(ctx, p, variable)
            if verdict is True:
                ctx.rep.ok(rid, con, f"reads the text of {toks[0][1]} ({reads[0][1]}) but returns the same value whatever the spacing "
                           "(abstract interpretation of the action over all decisions on the opaque text)", site=p.site)
                continue
        if reads:
            x, what = reads[0]
            tk = toks[0][1]
            ctx.rep.bad(rid, con, f"the action reads the text of {tk} ({what}); that text varies with the white space inside the "
                        f"operator ({'not in' if 'NOT' in tk else tk} written with one blank, two, a tab or a line break)",
                        site=g.mod.site(x), text=f"{p} reads {what}")
        else:
            ctx.rep.ok(rid, con, f"uses only the type of {', '.join(t for _, t in toks)}", site=p.site)
    ctx.rep.floor("productions containing a layout-variable token", n, 2)

"""Rules on the evaluator, the bucketing functions and ownership/effects (E7/E8)."""
from __future__ import annotations

import ast

from pyab_static import flow
from pyab_static.core import AnalysisError
from pyab_static.srcmodel import Module, dotted, norm, walk_no_nested

from .common import Ctx

EV = "experiment_evaluator.py"
BIN = "binning/binning.py"
WF = "utils/wraper_functions.py"

IMMUTABLE_CONST = (ast.Constant,)


def _single_assign_env(fn):
    """name -> value expression, for names assigned exactly once in fn (any depth)."""
    seen = {}
    for n in walk_no_nested(fn):
        if isinstance(n, ast.Assign):
            for t in n.targets:
                if isinstance(t, ast.Name):
                    seen.setdefault(t.id, []).append(n.value)
        elif isinstance(n, (ast.AugAssign, ast.AnnAssign)) and isinstance(n.target, ast.Name):
            seen.setdefault(n.target.id, []).append(getattr(n, "value", None))
        elif isinstance(n, (ast.For, ast.comprehension)):
            for x in ast.walk(n.target):
                if isinstance(x, ast.Name):
                    seen.setdefault(x.id, []).append(None)
    params = set()
    if isinstance(fn, (ast.FunctionDef, ast.AsyncFunctionDef)):
        a = fn.args
        params = {x.arg for x in a.args + a.kwonlyargs + a.posonlyargs}
    return ({k: v[0] for k, v in seen.items() if len(v) == 1 and v[0] is not None and k not in params},
            {k for k, v in seen.items() if len(v) > 1 or k in params})


def _subst(e, env, depth=0):
    """Inline single-assignment names (pure expressions) into e."""
    if depth > 12:
        return e

    class T(ast.NodeTransformer):
        def visit_Name(self, n):
            if isinstance(n.ctx, ast.Load) and n.id in env:
                return _subst(env[n.id], env, depth + 1)
            return n
    import copy
    return T().visit(copy.deepcopy(e))


def resolver_for(m: Module, cls=None):
    """Call -> FunctionDef for helpers of the same module (plain functions) or class (self./cls./Class. methods)."""
    funcs = m.functions()

    def resolve(call):
        d = dotted(call.func)
        if not d:
            return None
        if d in funcs:
            return funcs[d]
        parts = d.split(".")
        if cls is not None and len(parts) == 2 and parts[0] in ("self", "cls", cls.name):
            return m.get_method(cls, parts[1], required=False)
        return None
    return resolve


def _helper_value(m: Module, f, cls=None):
    """If every normal exit of helper f returns the same expression (other exits raise), that expression with the
    helper's single-assignment locals substituted; else None."""
    if f.decorator_list and not all(dotted(d) in ("staticmethod", "classmethod") for d in f.decorator_list):
        return None
    fenv, fmulti = _single_assign_env(f)
    params = {a.arg for a in f.args.args}
    if fmulti - params:
        return None
    rets = [x for x in walk_no_nested(f) if isinstance(x, ast.Return)]
    if not rets or any(r.value is None for r in rets):
        return None
    if any(isinstance(x, (ast.For, ast.While, ast.Try, ast.With, ast.Match)) for x in walk_no_nested(f)):
        return None
    vals = {norm(_subst(r.value, fenv)) for r in rets}
    if len(vals) != 1:
        return None
    # every `if` body must either raise or be on the way to the single return
    for x in walk_no_nested(f):
        if isinstance(x, ast.If):
            for branch in (x.body, x.orelse):
                if branch and not any(isinstance(y, (ast.Raise, ast.Return)) for st_ in branch for y in ast.walk(st_)) and \
                        any(isinstance(st_, (ast.Assign, ast.AugAssign)) for st_ in branch):
                    return None
    return _subst(rets[0].value, fenv)


def _inline_helpers(m: Module, e, depth=0, cls=None, keep=("deterministic_proba", "deterministic_choice")):
    """Inline calls to helpers of the module / class whose value is one expression (guards that raise are
    irrelevant to the value)."""
    if depth > 4:
        return e
    resolve = resolver_for(m, cls)

    class T(ast.NodeTransformer):
        def visit_Call(self, n):
            self.generic_visit(n)
            f = resolve(n)
            if f is None or f.name in keep or n.keywords and any(k.arg is None for k in n.keywords):
                return n
            params = [a.arg for a in f.args.args]
            if params and params[0] in ("self", "cls") and isinstance(n.func, ast.Attribute):
                params = params[1:]
            val = _helper_value(m, f, cls)
            if val is None:
                return n
            binding = dict(zip(params, n.args))
            for k in n.keywords:
                binding[k.arg] = k.value
            if set(params) - set(binding):
                # defaults
                defaults = dict(zip(params[len(params) - len(f.args.defaults):], f.args.defaults))
                for p_ in set(params) - set(binding):
                    if p_ in defaults:
                        binding[p_] = defaults[p_]
                    else:
                        return n
            return _inline_helpers(m, _subst(val, binding), depth + 1, cls, keep)
    import copy
    return T().visit(copy.deepcopy(e))


def module_constants(m: Module) -> dict:
    """Module-level NAME = <constant expression> bindings (assigned once)."""
    seen = {}
    for st in m.tree.body:
        if isinstance(st, ast.Assign) and len(st.targets) == 1 and isinstance(st.targets[0], ast.Name):
            seen.setdefault(st.targets[0].id, []).append(st.value)
        elif isinstance(st, ast.AnnAssign) and isinstance(st.target, ast.Name) and st.value is not None:
            seen.setdefault(st.target.id, []).append(st.value)
    return {k: v[0] for k, v in seen.items() if len(v) == 1 and not any(isinstance(x, (ast.Call, ast.Lambda)) and not
            (isinstance(x, ast.Call) and dotted(x.func) in ("int", "float", "pow")) for x in ast.walk(v[0]))}


def _const_int(e):
    """Constant-fold an int expression (literals, **, <<, *, +, -)."""
    if isinstance(e, ast.Constant) and isinstance(e.value, int) and not isinstance(e.value, bool):
        return e.value
    if isinstance(e, ast.BinOp):
        a, b = _const_int(e.left), _const_int(e.right)
        if a is None or b is None:
            return None
        try:
            if isinstance(e.op, ast.Pow) and 0 <= b < 256:
                return a ** b
            if isinstance(e.op, ast.LShift) and 0 <= b < 256:
                return a << b
            if isinstance(e.op, ast.Mult):
                return a * b
            if isinstance(e.op, ast.Add):
                return a + b
            if isinstance(e.op, ast.Sub):
                return a - b
        except Exception:  # noqa: BLE001
            return None
    return None


# ------------------------------------------------------------------ C12 / C03 / C15: hash descriptor
def _hash_descriptor_abstract(ctx: Ctx, m, fn, p):
    """deterministic_proba interpreted over the hash-pipeline domain (opaque key -> bytes(codec) -> hash(algo) -> digest slice ->
    integer -> exact rational scale).  None when the interpreter cannot follow the code (the syntactic matcher is used then)."""
    from pyab_static import absint as A
    key = A.Sym("str", "KEY")
    it = A.Interp(ctx.src)
    it.hash_domain = True
    try:
        v = it.call(A.FuncVal(m, fn), [key], {})
    except (A.Unsupported, A.NeedChoice, A.RaiseSig):
        return None
    if not isinstance(v, A.ABits):
        return None
    dg = v.digest
    d = {"fn": fn, "mod": m, "expr": f"abstract: {v}", "param": p, "how": "abstract interpretation"}
    if len(dg.data) != 1 or not isinstance(dg.data[0], A.ABytes):
        d["problem"] = f"the hashed bytes are not <key>.encode(...): {dg.data!r}"[:160]
        d["algo"] = dg.algo
        return d
    by = dg.data[0]
    unit = 4 if dg.kind == "hex" else 8
    lo, hi = dg.lo, dg.hi
    d.update(algo=dg.algo, digest_kind="hexdigest" if dg.kind == "hex" else "digest", byteorder=v.byteorder,
             slice=(lo, hi, str(dg.step) if dg.step is not None else None),
             bits=None if (lo is None or hi is None or lo < 0 or hi < 0) else (hi - lo) * unit,
             first=lo == 0 and hi is not None and hi > 0 and dg.step is None,
             encoding=by.codec, errors=by.errors, input="the parameter" if by.src is key else repr(by.src), input_is_param=by.src is key)
    sc = v.scale
    if sc.numerator != 1:
        d["divisor"] = None
        d["problem"] = f"the hash integer is scaled by {sc}, not divided by a constant"
        return d
    d["divisor"] = sc.denominator
    return d


def hash_descriptor(ctx: Ctx):
    """Abstractly evaluate deterministic_proba into {algo, encoding, errors, bits, divisor, input}."""
    m = ctx.mod(BIN)
    fn = m.get_function("deterministic_proba")
    ctx.rep.unit(f"{BIN}:deterministic_proba")
    params = [a.arg for a in fn.args.args]
    if len(params) != 1:
        raise AnalysisError("deterministic_proba no longer takes exactly one parameter")
    p = params[0]
    cache = ctx.__dict__.setdefault("_hash_desc", {})
    if "abs" not in cache:
        cache["abs"] = _hash_descriptor_abstract(ctx, m, fn, p)
    if cache["abs"] is not None:
        return cache["abs"]
    env, multi = _single_assign_env(fn)
    if p in env or p in multi:
        return {"problem": f"the parameter {p} is reassigned before hashing", "fn": fn, "mod": m}
    rets = [n for n in walk_no_nested(fn) if isinstance(n, ast.Return)]
    if len(rets) != 1 or any(isinstance(n, (ast.If, ast.For, ast.While, ast.Try, ast.Match)) for n in walk_no_nested(fn)):
        raise AnalysisError("deterministic_proba is no longer straight-line code with one return: idiom not recognised")
    consts = {k: v for k, v in module_constants(m).items() if k not in env}
    e = _subst(_inline_helpers(m, _subst(rets[0].value, env)), consts)
    d = {"fn": fn, "mod": m, "expr": norm(e), "param": p}
    # <int> / <divisor>
    if not (isinstance(e, ast.BinOp) and isinstance(e.op, ast.Div)):
        raise AnalysisError(f"deterministic_proba return is not <bits> / <divisor>: {norm(e)[:120]}")
    d["divisor"] = _const_int(e.right)
    if d["divisor"] is None:
        raise AnalysisError(f"divisor is not a constant: {norm(e.right)}")
    num = e.left
    # int(<hex>[a:b], 16)  |  int.from_bytes(<digest>[a:b], "big")
    hx = None
    if isinstance(num, ast.Call) and dotted(num.func) == "int" and len(num.args) == 2 and _const_int(num.args[1]) == 16:
        hx, unit = num.args[0], 4       # bits per hex digit
        d["digest_kind"] = "hexdigest"
    elif isinstance(num, ast.Call) and dotted(num.func) == "int.from_bytes" and num.args:
        order = num.args[1] if len(num.args) > 1 else next((k.value for k in num.keywords if k.arg == "byteorder"), None)
        d["byteorder"] = order.value if isinstance(order, ast.Constant) else None
        hx, unit = num.args[0], 8
        d["digest_kind"] = "digest"
    else:
        raise AnalysisError(f"numerator idiom not recognised: {norm(num)[:120]}")
    if not (isinstance(hx, ast.Subscript) and isinstance(hx.slice, ast.Slice)):
        raise AnalysisError(f"digest is not sliced: {norm(hx)[:120]}")
    lo = _const_int(hx.slice.lower) if hx.slice.lower is not None else 0
    hi = _const_int(hx.slice.upper) if hx.slice.upper is not None else None
    d["slice"] = (lo, hi, norm(hx.slice.step) if hx.slice.step else None)
    d["bits"] = None if (lo is None or hi is None or lo < 0 or hi < 0) else (hi - lo) * unit
    d["first"] = lo == 0 and hi is not None and hi > 0 and hx.slice.step is None
    dg = hx.value
    want = "hexdigest" if d["digest_kind"] == "hexdigest" else "digest"
    if not (isinstance(dg, ast.Call) and isinstance(dg.func, ast.Attribute) and dg.func.attr == want and not dg.args):
        raise AnalysisError(f"digest idiom not recognised: {norm(dg)[:120]}")
    h = dg.func.value
    if not (isinstance(h, ast.Call) and dotted(h.func)):
        raise AnalysisError(f"hash constructor not recognised: {norm(h)[:120]}")
    hn = dotted(h.func)
    d["algo"] = hn.split(".")[-1] if hn.startswith("hashlib.") or hn in ("md5", "sha1", "sha256") else hn
    if hn == "hashlib.new" and h.args and isinstance(h.args[0], ast.Constant):
        d["algo"] = h.args[0].value
        harg = h.args[1] if len(h.args) > 1 else None
    else:
        harg = h.args[0] if h.args else None
    if harg is None:
        raise AnalysisError("hash constructor has no data argument")
    # <param>.encode(<codec>[, errors])
    if not (isinstance(harg, ast.Call) and isinstance(harg.func, ast.Attribute) and harg.func.attr == "encode"):
        d["problem"] = f"the hashed bytes are not <key>.encode(...): {norm(harg)[:100]}"
        return d
    enc = harg.args[0] if harg.args else next((k.value for k in harg.keywords if k.arg == "encoding"), None)
    err = harg.args[1] if len(harg.args) > 1 else next((k.value for k in harg.keywords if k.arg == "errors"), None)
    d["encoding"] = (enc.value.lower().replace("_", "-") if isinstance(enc, ast.Constant) else norm(enc)) if enc is not None else "utf-8"
    d["errors"] = (err.value if isinstance(err, ast.Constant) else norm(err)) if err is not None else "strict"
    src = harg.func.value
    d["input"] = norm(src)
    d["input_is_param"] = isinstance(src, ast.Name) and src.id == p
    return d


def rule_hash_descriptor(ctx: Ctx, rid="C12.HASH-DESCRIPTOR"):
    d = hash_descriptor(ctx)
    m, fn = d["mod"], d["fn"]
    con = f"{BIN}:deterministic_proba"
    site = m.site(fn)
    if "problem" in d:
        ctx.rep.bad(rid, con, d["problem"], site=site, text=d["problem"][:120])
        return d
    ctx.rep.check(d["algo"] == "md5", rid, con + "[algo]", f"hash = {d['algo']}" + ("" if d["algo"] == "md5" else " (published: md5)"),
                  site=site, text=f"algo {d['algo']}")
    ctx.rep.check(d["input_is_param"], rid, con + "[whole-key]",
                  "the whole key string is hashed unchanged" if d["input_is_param"] else
                  f"the hashed string is not the key itself but {d['input']}", site=site, text=f"input {d['input']}")
    enc_ok = d["encoding"] in ("utf-8", "utf8")
    ctx.rep.check(enc_ok, rid, con + "[encoding]", f"encoding = {d['encoding']}" + ("" if enc_ok else " (published: utf-8)"),
                  site=site, text=f"encoding {d['encoding']}")
    big = d.get("byteorder", "big") == "big"
    ctx.rep.check(d["first"] and d["bits"] == 32 and big, rid, con + "[bits]",
                  f"slice {d['slice']} of the {d['digest_kind']} = " + ("first 32 bits" if d["first"] and d["bits"] == 32 and big
                                                                          else f"NOT the first 32 bits (bits={d['bits']}, from start={d['first']})"),
                  site=site, text=f"slice {d['slice']} {d['digest_kind']}")
    ctx.rep.check(d["divisor"] == 2 ** 32, rid, con + "[divisor]",
                  f"divisor = {d['divisor']:#x}" + ("" if d["divisor"] == 2 ** 32 else " (published: 2**32)"),
                  site=site, text=f"divisor {d['divisor']}")
    return d


def rule_hash_pure(ctx: Ctx, rid="C01.HASH-PRIMITIVE"):
    """The position is a function of a hashlib digest of the key only (whatever the algorithm,
    slice or divisor): no process-dependent primitive."""
    d = hash_descriptor(ctx)
    con = f"{BIN}:deterministic_proba"
    site = d["mod"].site(d["fn"])
    if "problem" in d:
        ok = "hashlib" in d["expr"] or d.get("algo")
        ctx.rep.check(bool(ok), rid, con, f"position = {d['expr'][:80]}", site=site, text=d["problem"][:100])
        return d
    import hashlib
    ok = d["algo"] in hashlib.algorithms_guaranteed
    ctx.rep.check(ok, rid, con, f"position = {d['bits']}-bit slice of hashlib.{d['algo']}(key.encode({d['encoding']!r})) / {d['divisor']:#x}: "
                  "no process-local entropy" if ok else f"the digest primitive {d['algo']} is not a hashlib algorithm", site=site,
                  text=f"algo {d['algo']}")
    return d


def rule_whole_key(ctx: Ctx, rid="C09.WHOLE-KEY"):
    d = hash_descriptor(ctx)
    con = f"{BIN}:deterministic_proba[whole-key]"
    site = d["mod"].site(d["fn"])
    if "problem" in d:
        ctx.rep.bad(rid, con, d["problem"], site=site, text=d["problem"][:120])
        return
    ctx.rep.check(d["input_is_param"], rid, con, "the whole key string is hashed unchanged" if d["input_is_param"] else
                  f"the hashed string is not the key itself but {d['input']}", site=site, text=f"input {d['input']}")


def rule_grid(ctx: Ctx, rid="C03.GRID"):
    d = hash_descriptor(ctx)
    con = f"{BIN}:deterministic_proba"
    site = d["mod"].site(d["fn"])
    if "problem" in d:
        ctx.rep.bad(rid, con, d["problem"], site=site, text=d["problem"][:120])
        return
    ok = d["bits"] is not None and d["divisor"] == 2 ** d["bits"] and d["first"]
    ctx.rep.check(ok, rid, con, f"u = {d['bits']}-bit integer / {d['divisor']:#x}: on the 2^{d['bits']} grid and u < 1 strictly" if ok else
                  f"u = int of {d['bits']} bits / {d['divisor']:#x}: the divisor is not 2^bits, so u can reach or exceed 1 or "
                  "leave the grid", site=site, text=f"bits {d['bits']} divisor {d['divisor']}")


CODEC_TOTAL = {"utf-8", "utf8", "utf-16", "utf-32", "utf-16-le", "utf-16-be", "utf-32-le", "utf-32-be", "utf-7"}


def rule_codec_total(ctx: Ctx, rid="C15.CODEC-TOTAL"):
    d = hash_descriptor(ctx)
    con = f"{BIN}:deterministic_proba"
    site = d["mod"].site(d["fn"])
    if "problem" in d:
        ctx.rep.bad(rid, con, d["problem"], site=site, text=d["problem"][:120])
        return
    ok = d["encoding"] in CODEC_TOTAL or d["errors"] not in ("strict",)
    ctx.rep.check(ok, rid, con, f"codec {d['encoding']} (errors={d['errors']}) encodes every str without lone surrogates" if ok else
                  f"codec {d['encoding']} with errors='strict' raises UnicodeEncodeError for e.g. 'jos\\u00e9'",
                  witness="josé", site=site, text=f"encoding {d['encoding']} errors {d['errors']}")
    ctx.rep.check(d["input_is_param"], "C15.NO-VALUE-OPS", con,
                  "the key is encoded as it is (no normalisation, slicing or case folding)" if d["input_is_param"] else
                  f"the key is transformed before hashing: {d['input']}", site=site, text=f"input {d['input']}")


# ------------------------------------------------------------------ deterministic_choice
def _choice(ctx: Ctx):
    m = ctx.mod(BIN)
    fn = m.get_function("deterministic_choice")
    ctx.rep.unit(f"{BIN}:deterministic_choice")
    return m, fn


def _resolve_import(m: Module, name: str):
    return m.imports.get(name)


def rule_choice_search(ctx: Ctx, rid="C03.BISECT-RIGHT", parts=("right", "clamp", "locate", "prefix")):
    """Weighted path: population[bisect_right(cum_weights, u*total, 0, n-1)] on prefix sums of the
    weights parameter in declared order."""
    m, fn = _choice(ctx)
    env, multi = _single_assign_env(fn)
    site = m.site(fn)
    con = f"{BIN}:deterministic_choice"
    calls = [n for n in walk_no_nested(fn) if isinstance(n, ast.Call) and dotted(n.func)
             and (m.imports.get(dotted(n.func), ("", ""))[0] == "bisect" or dotted(n.func).startswith("bisect."))]
    if not calls:
        # alternative idiom: a hand-written binary search helper called with (cum_weights, u*total, lo, hi)
        for hc in [n for n in walk_no_nested(fn) if isinstance(n, ast.Call) and dotted(n.func) in m.functions()
                   and n.args and norm(n.args[0]) == "cum_weights"]:
            f = m.functions()[dotted(hc.func)]
            loops = [w for w in ast.walk(f) if isinstance(w, ast.While)]
            ps = [a_.arg for a_ in f.args.args]
            if not loops or len(ps) < 2:
                continue
            seq, key = ps[0], ps[1]
            verdict = None
            for t in [x for w in loops for x in ast.walk(w) if isinstance(x, ast.If) and isinstance(x.test, ast.Compare) and len(x.test.ops) == 1]:
                l, r, op = norm(t.test.left), norm(t.test.comparators[0]), t.test.ops[0]
                body_sets_hi = any(isinstance(a_, ast.Assign) and norm(a_.targets[0]) == "hi" for a_ in t.body)
                if l == key and r.startswith(seq + "[") and isinstance(op, ast.Lt):
                    verdict = "right" if body_sets_hi else "left"
                elif r == key and l.startswith(seq + "[") and isinstance(op, ast.Lt):
                    verdict = "left" if not body_sets_hi else "right?"
                elif l == key and r.startswith(seq + "[") and isinstance(op, ast.LtE):
                    verdict = "left" if body_sets_hi else "right"
            if verdict is None:
                continue
            if "right" in parts:
                ctx.rep.check(verdict == "right", rid, con + f"[{f.name}]",
                              f"hand-written binary search `{f.name}` is a right bisection (x < a[mid] moves hi)" if verdict == "right" else
                              f"hand-written binary search `{f.name}` is a left bisection: a unit on a boundary falls into the earlier group",
                              site=m.site(f), text=f"{f.name}: {verdict}")
            if "clamp" in parts:
                argt = [norm(_subst(a_, env)) for a_ in hc.args[2:]] + [norm(_subst(k.value, env)) for k in hc.keywords]
                hi_ = next((a_ for a_ in argt if a_ in ("len(population) - 1", "n - 1")), None)
                starts_zero = any(isinstance(a_, ast.Assign) and "lo" in norm(a_.targets[0]) and norm(a_.value).startswith(("0", "(0"))
                                  for a_ in ast.walk(f)) or any(a_ == "0" for a_ in argt)
                lo_ = 0 if starts_zero else None
                okc = lo_ == 0 and hi_ is not None
                ctx.rep.check(okc, rid.split(".")[0] + ".BISECT-CLAMP", con + f"[{f.name} bounds]", "search limited to lo=0, hi=n-1" if okc else
                              f"search bounds are lo={lo_}, hi={hi_}", site=m.site(hc), text=f"lo {lo_} hi {hi_}")
            if "locate" in parts and len(hc.args) > 1:
                xt_ = norm(_inline_helpers(m, _subst(hc.args[1], env)))
                okl = xt_ in {"deterministic_proba(input_id) * (cum_weights[-1] + 0.0)", "deterministic_proba(input_id) * total"}
                ctx.rep.check(okl, rid.split(".")[0] + ".LOCATE", con + f"[{f.name} operands]", "locates u*total in the cumulative weights" if okl else
                              f"search operand is {xt_}", site=m.site(hc), text=xt_)
            calls = None
            break
        if calls is None:
            calls = []
            _searched = True
        else:
            _searched = False
    if not calls and not locals().get("_searched"):
        # alternative idiom: a linear scan over the cumulative weights
        loops = [n for n in walk_no_nested(fn) if isinstance(n, ast.For) and "cum_weights" in norm(n.iter)]
        for lp in loops:
            tests = [x for x in ast.walk(lp) if isinstance(x, ast.If) and isinstance(x.test, ast.Compare) and len(x.test.ops) == 1]
            for t in tests:
                names = {nn.id for nn in ast.walk(lp.target) if isinstance(nn, ast.Name)}
                l, r, op = t.test.left, t.test.comparators[0], t.test.ops[0]
                edge_right = isinstance(r, ast.Name) and r.id in names
                edge_left = isinstance(l, ast.Name) and l.id in names
                if not (edge_right or edge_left):
                    continue
                # `point < edge` (or `edge > point`) selects the first edge strictly above the point = right bisection
                strict = (edge_right and isinstance(op, ast.Lt)) or (edge_left and isinstance(op, ast.Gt))
                closed = (edge_right and isinstance(op, ast.LtE)) or (edge_left and isinstance(op, ast.GtE))
                if "right" in parts:
                    ctx.rep.check(strict, rid, con + "[linear scan]",
                                  "linear scan takes the first cumulative edge strictly above u*total (right bisection)" if strict else
                                  f"linear scan tests `{norm(t.test)}`: the upper edge of each bucket is closed, so a unit exactly on a "
                                  "boundary (u=0 with a leading zero weight, u*total equal to a cumulative weight) falls into the earlier, "
                                  "possibly zero-width, group", site=m.site(t), text=f"scan {norm(t.test)}")
                return
        raise AnalysisError("no bisect call or cumulative scan found in deterministic_choice: search idiom not recognised")
    for c in calls:
        nm = dotted(c.func)
        target = m.imports.get(nm, (None, None))
        real = target[1] if target[0] == "bisect" else nm.split(".")[-1]
        ok = real in ("bisect", "bisect_right") or "right" not in parts
        ctx.rep.check(ok, rid, con + f"[{nm}]", f"search resolves to bisect.{real} (right bisection: a unit on a boundary goes to the "
                      "next group, a zero-width group is never selected)" if ok else
                      f"search resolves to bisect.{real}: at u*total == a cumulative boundary (e.g. u=0 with a leading zero "
                      "weight) the unit falls into the zero-width group", site=m.site(c), text=f"{nm} -> bisect.{real}")
        # arguments
        args = list(c.args)
        a0 = norm(args[0]) if args else "?"
        lo = _const_int(_subst(args[2], env)) if len(args) > 2 else next((_const_int(k.value) for k in c.keywords if k.arg == "lo"), 0)
        hi_e = args[3] if len(args) > 3 else next((k.value for k in c.keywords if k.arg == "hi"), None)
        hi_t = norm(_subst(hi_e, env)) if hi_e is not None else None
        n_e = norm(_subst(ast.Name("n", ast.Load()), env))
        clamp_ok = (lo == 0 and hi_t in ("len(population) - 1", "n - 1", f"{n_e} - 1")) or "clamp" not in parts
        ctx.rep.check(clamp_ok, rid.split(".")[0] + ".BISECT-CLAMP", con + f"[{nm} bounds]",
                      "search limited to lo=0, hi=n-1 (the index is always valid even if u*total rounds up to total)" if clamp_ok else
                      f"search bounds are lo={lo}, hi={hi_t}: without hi=n-1 a product that rounds up to the total indexes "
                      "past the population", site=m.site(c), text=f"lo {lo} hi {hi_t}")
        x = _inline_helpers(m, _subst(args[1], env)) if len(args) > 1 else None
        xt = norm(x) if x is not None else "?"
        want = {"deterministic_proba(input_id) * (cum_weights[-1] + 0.0)", "deterministic_proba(input_id) * total",
                "(cum_weights[-1] + 0.0) * deterministic_proba(input_id)"}
        ctx.rep.check(xt in want and a0 == "cum_weights", rid.split(".")[0] + ".LOCATE", con + f"[{nm} operands]",
                      "locates u*total in the cumulative weights" if xt in want and a0 == "cum_weights" else
                      f"search operands are ({a0}, {xt}), not (cum_weights, u*total)", site=m.site(c), text=f"{a0} | {xt}")
    # prefix sums
    cw = [n for n in walk_no_nested(fn) if isinstance(n, ast.Assign) and any(isinstance(t, ast.Name) and t.id == "cum_weights" for t in n.targets)]
    ACC = ("list(accumulate(weights))", "list(itertools.accumulate(weights))")

    def prefix_sums(e):
        if norm(e) in ACC:
            return True
        # a helper of the module all of whose returns are (names bound to) list(accumulate(<its parameter>))
        if isinstance(e, ast.Call) and dotted(e.func) in m.functions() and e.args and norm(e.args[0]) == "weights":
            f = m.functions()[dotted(e.func)]
            par = f.args.args[0].arg if f.args.args else None
            want = {a.replace("weights", par) for a in ACC} | {"None"}
            if len(e.args) > 1 and len(f.args.args) > 1 and norm(e.args[1]) == "cum_weights":
                want.add(f.args.args[1].arg)      # the caller's cum_weights handed back unchanged
            for r in [x for x in ast.walk(f) if isinstance(x, ast.Return)]:
                v = r.value
                if v is None:
                    return False
                if norm(v) in want:
                    continue
                if isinstance(v, ast.Name):
                    defs = [a.value for a in ast.walk(f) if isinstance(a, ast.Assign) and any(isinstance(t, ast.Name) and t.id == v.id for t in a.targets)]
                    if defs and all(norm(d) in want for d in defs):
                        continue
                return False
            return True
        return False
    def buffer_prefix(e):
        """cum_weights = BUF where this function fills BUF[:] = accumulate(weights) (a reused buffer)."""
        if not isinstance(e, ast.Name):
            return False
        fills = [a for a in walk_no_nested(fn) if isinstance(a, ast.Assign) and any(
            isinstance(t, ast.Subscript) and dotted(t.value) in (e.id, "cum_weights") and isinstance(t.slice, ast.Slice)
            and t.slice.lower is None and t.slice.upper is None for t in a.targets)]
        return bool(fills) and all(norm(a.value) in ("accumulate(weights)", "itertools.accumulate(weights)", "list(accumulate(weights))") for a in fills)
    if cw and all(buffer_prefix(x.value) for x in cw):
        ctx.rep.ok(rid.split(".")[0] + ".PREFIX-SUMS", con + "[cum_weights]", "cum_weights = a buffer refilled with accumulate(weights): prefix sums "
                   "of the weights in declared order", site=site)
        cw_ok_buffer = True
    else:
        cw_ok_buffer = False
    ok = cw_ok_buffer or bool(cw) and all(prefix_sums(x.value) or (isinstance(x.value, ast.Name) and "prefix" not in parts) for x in cw) and \
        (len(cw) == 1 or all(prefix_sums(x.value) for x in cw))
    ctx.rep.check(ok, rid.split(".")[0] + ".PREFIX-SUMS", con + "[cum_weights]",
                  "cum_weights = list(accumulate(weights)): prefix sums of the weights in declared order" if ok else
                  f"cum_weights is built by {[norm(x.value) for x in cw]}", site=site, text=str([norm(x.value) for x in cw]))
    tot = env.get("total")
    if tot is not None:
        tot = _inline_helpers(m, tot)
    if tot is None:
        # `total` may have been folded into the search operand
        for c in calls:
            if len(c.args) > 1 and "cum_weights[-1]" in norm(_inline_helpers(m, _subst(c.args[1], env))):
                tot = ast.parse("cum_weights[-1] + 0.0", mode="eval").body
    ok = tot is not None and norm(tot) in ("cum_weights[-1] + 0.0", "float(cum_weights[-1])", "cum_weights[-1]")
    ctx.rep.check(ok, rid.split(".")[0] + ".PREFIX-SUMS", con + "[total]", "total = last prefix sum" if ok else f"total = {norm(tot) if tot else '?'}",
                  site=site, text=norm(tot) if tot is not None else "total?")


def rule_position_slice(ctx: Ctx, rid="C10.POSITION-SLICE", parts=("arg", "primitive")):
    m, fn = _choice(ctx)
    con = f"{BIN}:deterministic_choice"
    calls = [n for n in walk_no_nested(fn) if isinstance(n, ast.Call) and dotted(n.func) == "deterministic_proba"]
    # a helper of the module that computes the position from one of its own parameters (`_hash_position(id, scale)` =
    # `deterministic_proba(id) * scale`) is seen through: its call sites count, with the argument bound to that parameter
    through = {}
    for wname, w in m.functions().items():
        if w is fn or wname == "deterministic_proba":
            continue
        inner = [n for n in walk_no_nested(w) if isinstance(n, ast.Call) and dotted(n.func) == "deterministic_proba"]
        wparams = [a.arg for a in w.args.args]
        if inner and all(len(c.args) == 1 and not c.keywords and isinstance(c.args[0], ast.Name) and c.args[0].id == inner[0].args[0].id
                         for c in inner) and inner[0].args[0].id in wparams and not any(
                isinstance(n, ast.Name) and isinstance(n.ctx, ast.Store) and n.id == inner[0].args[0].id for n in walk_no_nested(w)):
            through[wname] = wparams.index(inner[0].args[0].id)
    id_arg = {}
    for n in walk_no_nested(fn):
        if isinstance(n, ast.Call) and dotted(n.func) in through:
            i = through[dotted(n.func)]
            wp = [a.arg for a in m.functions()[dotted(n.func)].args.args]
            a_ = n.args[i] if i < len(n.args) and not any(isinstance(x, ast.Starred) for x in n.args) else next(
                (k.value for k in n.keywords if k.arg == wp[i]), None)
            calls.append(n)
            id_arg[id(n)] = a_
    ctx.rep.floor("deterministic_proba call sites", len(calls), 2)
    params = [a.arg for a in fn.args.args]
    idp = params[0]
    stores = [n for n in walk_no_nested(fn) if isinstance(n, ast.Name) and isinstance(n.ctx, ast.Store) and n.id == idp]
    for c in calls:
        if id(c) in id_arg:
            a_ = id_arg[id(c)]
            ok = isinstance(a_, ast.Name) and a_.id == idp and not stores
            ctx.rep.check(ok, rid, con + f"[{norm(c)[:50]}]",
                          "hash position computed from the id alone (through a helper that hashes its own parameter)" if ok else
                          f"hash position depends on more than the unit's key: the helper hashes {norm(a_) if a_ is not None else '?'}",
                          site=m.site(c), text=norm(c))
            continue
        ok = len(c.args) == 1 and not c.keywords and isinstance(c.args[0], ast.Name) and c.args[0].id == idp and not stores
        ctx.rep.check(ok, rid, con + f"[{norm(c)[:50]}]",
                      "hash position computed from the id alone" if ok else
                      f"hash position depends on more than the unit's key: argument {norm(c.args[0]) if c.args else '?'}"
                      + (" (and the id parameter is reassigned)" if stores else ""), site=m.site(c), text=norm(c))
    # no second hash primitive outside deterministic_proba
    def is_prim(c, depth=0):
        d = dotted(c.func)
        if not d:
            return False
        if d.startswith("hashlib.") or d in ("hash", "md5", "sha1", "crc32", "zlib.crc32") or (d == "int" and len(c.args) == 2):
            return True
        # a call to another function of the module that (transitively) hashes, other than deterministic_proba
        f = m.functions().get(d)
        if f is not None and d != "deterministic_proba" and depth < 3:
            return any(isinstance(x, ast.Call) and (is_prim(x, depth + 1) or dotted(x.func) == "deterministic_proba" and False)
                       for x in ast.walk(f))
        return False
    if "primitive" not in parts:
        return
    prim = [n for n in walk_no_nested(fn) if isinstance(n, ast.Call) and is_prim(n)]
    ctx.rep.check(not prim, "C10.ONE-PRIMITIVE", con,
                  "deterministic_choice derives positions only through deterministic_proba" if not prim else
                  f"a second position primitive is used in deterministic_choice: {norm(prim[0])[:80]}",
                  site=m.site(prim[0]) if prim else m.site(fn), text=norm(prim[0])[:100] if prim else "")


def rule_random_guarded(ctx: Ctx, rid="C01.RANDOM-GUARDED"):
    """The random branch is taken exactly when the key is None."""
    m, fn = _choice(ctx)
    con = f"{BIN}:deterministic_choice"
    idp = fn.args.args[0].arg
    paths = flow.enumerate_paths(fn, resolver=resolver_for(m))
    ctx.rep.unit(f"paths of deterministic_choice: {len(paths)}")
    rnd_names = {k for k, v in m.imports.items() if v[0] in ("random", "secrets", "numpy.random")}
    n = 0
    for p in paths:
        rnd = [s for s in p.stmts() for c in ast.walk(s) if isinstance(c, ast.Call) and dotted(c.func)
               and (dotted(c.func).split(".")[0] in rnd_names or dotted(c.func).startswith("random."))]
        if rnd:
            n += 1
            fact = p.facts.get(idp)
            ok = fact == "none"
            ctx.rep.check(ok, rid, con + f"[random path, {idp} {fact}]",
                          f"random draw only when {idp} is None" if ok else
                          f"a random draw is reachable when {idp} is {'falsy (e.g. the empty key of an unsalted experiment with empty field values)' if fact == 'falsy' else 'not known to be None'}",
                          site=m.site(rnd[0]), text=f"random under {fact}: {norm(rnd[0])[:80]}")
        else:
            # deterministic path must not be taken for None, and draws no randomness
            pass
    ctx.rep.floor("paths with a random draw", n, 1)


ENTROPY_CALLS = {"hash", "id", "time.time", "time.time_ns", "time.monotonic", "time.perf_counter", "os.urandom", "os.getpid",
                 "uuid.uuid4", "uuid.uuid1", "secrets.token_bytes", "secrets.token_hex", "datetime.now", "datetime.datetime.now",
                 "os.getcwd", "locale.getlocale", "locale.getpreferredencoding", "sys.getdefaultencoding", "os.environ.get",
                 "os.getenv", "getpass.getuser", "socket.gethostname", "platform.node", "object.__hash__", "open", "input"}


def rule_union_order_stable(ctx: Ctx, rid="C01.UNION-ORDER-STABLE"):
    """typing caches subscripted forms process-wide and compares Unions as sets: `Optional[Union[A, B]]` (any Union nested in another
    subscription) is looked up with the inner Union as the key, so a host that evaluated `Optional[Union[B, A]]` earlier hands its alias
    - with ITS member order - to this library.  pydantic v1 coerces left to right, so for members that coerce into one another
    (int / float / str / bool and their constrained forms) the parsed value then depends on what the process imported before."""
    tm = ctx.mod("data_structures/syntax_tree.py")
    aliases = {}
    for st in tm.tree.body:
        if isinstance(st, ast.Assign) and len(st.targets) == 1 and isinstance(st.targets[0], ast.Name) and isinstance(st.value, ast.Subscript):
            aliases[st.targets[0].id] = st.value
    SCALAR = ("int", "float", "str", "bool", "NonNegativeInt", "NonNegativeFloat", "PositiveInt", "PositiveFloat", "conint", "confloat",
              "constr", "StrictInt", "StrictFloat", "StrictStr", "Decimal")

    def is_union(e):
        return isinstance(e, ast.Subscript) and (dotted(e.value) or "").split(".")[-1] in ("Union", "Optional")

    def members(e, depth=0):
        if depth > 6:
            return []
        if isinstance(e, ast.Name) and e.id in aliases:
            return members(aliases[e.id], depth + 1)
        if is_union(e):
            sl = e.slice
            out = []
            for x in (sl.elts if isinstance(sl, ast.Tuple) else [sl]):
                out += members(x, depth + 1)
            return out
        return [(dotted(e.func) if isinstance(e, ast.Call) else dotted(e)) or norm(e)]

    def nested_unions(e):
        """inner Union expressions (after alias expansion) that are arguments of an enclosing Union/Optional"""
        if not is_union(e):
            return
        sl = e.slice
        for x in (sl.elts if isinstance(sl, ast.Tuple) else [sl]):
            y = aliases.get(x.id) if isinstance(x, ast.Name) else x
            if y is not None and is_union(y):
                yield x, y
                yield from nested_unions(y)
    n = 0
    for cn, c in tm.classes().items():
        for st in c.body:
            if not (isinstance(st, ast.AnnAssign) and isinstance(st.target, ast.Name)):
                continue
            n += 1
            bad = None
            for spelled, inner in nested_unions(st.annotation if not (isinstance(st.annotation, ast.Name) and st.annotation.id in aliases)
                                                else aliases[st.annotation.id]):
                ms = [m_.split(".")[-1] for m_ in members(inner)]
                sc = [m_ for m_ in ms if m_ in SCALAR]
                if len(set(sc)) >= 2:
                    bad = (spelled, sc)
                    break
            con = f"data_structures/syntax_tree.py:{cn}.{st.target.id}"
            if bad:
                ctx.rep.bad(rid, con, f"`{norm(st.annotation)[:80]}` nests the Union `{norm(bad[0])[:60]}` whose members {bad[1]} coerce into one "
                            "another: typing looks the outer form up in a process-wide cache keyed by the inner Union compared as a set, so "
                            "the member order - and with it what pydantic makes of a literal - depends on which equal Union the process "
                            "created first", site=tm.site(st), text=norm(st)[:120])
            else:
                ctx.rep.ok(rid, con, "no Union of mutually coercible members nested inside another subscription", site=tm.site(st), nontrivial=False)
    ctx.rep.floor("model field annotations", n, 10)


def reachable_functions(ctx: Ctx):
    """ids of the functions of the package (outside sly) that the compile / evaluation entry points can reach, by name: from the
    evaluator's __init__ / recompile / __call__ / run_experiment, parse_source, generate_code, the bucketing functions, every method
    of the lexer, parser and generator classes and every method of the model classes, following each identifier a reached function
    mentions that names a function, method or class of the package.  Over-approximate on purpose (any function of that name counts);
    what it leaves out are additions no existing call path mentions - an unparser, a command line, reporting helpers."""
    cached = ctx.__dict__.get("_reachable_fns")
    if cached is not None:
        return cached
    index, classes = {}, {}
    for m in ctx.src.own_modules():
        for node in ast.walk(m.tree):
            if isinstance(node, (ast.FunctionDef, ast.AsyncFunctionDef)):
                index.setdefault(node.name, []).append(node)
            elif isinstance(node, ast.ClassDef):
                classes.setdefault(node.name, []).append(node)
    roots = []
    for m in ctx.src.own_modules():
        for cn, c in m.classes().items():
            whole = cn in ("PythonCodeGen",) or _is_subclass_of(ctx, m, c, {"Lexer", "Parser", "BaseModel"})
            for f_ in c.body:
                if isinstance(f_, ast.FunctionDef) and (whole or (cn == "ExperimentEvaluator" and f_.name in (
                        "__init__", "__new__", "recompile", "__call__", "run_experiment"))):
                    roots.append(f_)
        for fname in ("parse_source", "generate_code", "deterministic_choice", "deterministic_proba", "confidence_interval", "probit"):
            if fname in m.functions():
                roots.append(m.functions()[fname])
    seen, todo = set(), list(roots)
    while todo:
        f_ = todo.pop()
        if id(f_) in seen:
            continue
        seen.add(id(f_))
        for x in ast.walk(f_):
            nm = x.id if isinstance(x, ast.Name) else (x.attr if isinstance(x, ast.Attribute) else None)
            if nm is None:
                continue
            for g in index.get(nm, ()):
                if id(g) not in seen:
                    todo.append(g)
            for c in classes.get(nm, ()):
                for g in c.body:
                    if isinstance(g, ast.FunctionDef) and g.name.startswith("__") and id(g) not in seen:
                        todo.append(g)
    # nested functions and lambdas of a reached function are reached with it
    ctx.__dict__["_reachable_fns"] = seen
    return seen


def rule_no_entropy(ctx: Ctx, rid="C01.NO-ENTROPY"):
    """No process-local entropy or ambient source is read anywhere in the package outside the
    vendored sly runtime (the one guarded random.choices call is decided by RANDOM-GUARDED)."""
    n = 0
    reach = reachable_functions(ctx)
    for m in ctx.src.own_modules():
        parents_ = {}
        for node_ in ast.walk(m.tree):
            for ch_ in ast.iter_child_nodes(node_):
                parents_[ch_] = node_
        for fn in [x for x in ast.walk(m.tree) if isinstance(x, (ast.FunctionDef, ast.Lambda))]:
            name = getattr(fn, "name", "<lambda>")
            # a function no compile / evaluation path mentions (and that is not nested in one that is) feeds no result
            enc, in_reach = fn, False
            while enc is not None:
                if isinstance(enc, (ast.FunctionDef, ast.AsyncFunctionDef)) and id(enc) in reach:
                    in_reach = True
                    break
                enc = parents_.get(enc)
            if not in_reach:
                continue
            n += 1
            hits = []
            for c in walk_no_nested(fn):
                if isinstance(c, ast.Call):
                    d = dotted(c.func)
                    if not d:
                        continue
                    full = d
                    head = d.split(".")[0]
                    if head in m.imports:
                        srcm, attr = m.imports[head]
                        full = (srcm + ("." + attr if attr else "")) + d[len(head):]
                    # decimal arithmetic rounds according to the calling thread's decimal context (precision, rounding mode):
                    # a result computed with it depends on what the host application configured
                    if full in ENTROPY_CALLS or d in ENTROPY_CALLS or full.split(".")[0] in ("random", "secrets", "uuid", "time", "locale",
                                                                                             "decimal"):
                        if m.rel == BIN and name == "deterministic_choice" and full.startswith("random."):
                            continue
                        hits.append((c, full))
                elif isinstance(c, ast.Attribute) and dotted(c) in ("os.environ", "sys.argv", "sys.flags"):
                    hits.append((c, dotted(c)))
            # a bare expression statement (logging, print) does not feed a result
            bare = {id(st.value) for st in walk_no_nested(fn) if isinstance(st, ast.Expr)}
            hits = [(c, f) for c, f in hits if id(c) not in bare]
            ctx.rep.unit(f"{m.rel}:{name}")
            if hits:
                c, full = hits[0]
                ctx.rep.bad(rid, f"{m.rel}:{name}", f"reads a process-dependent source: {full} ({norm(c)[:70]})", site=m.site(c),
                            text=f"{full} | {norm(c)[:100]}")
    ctx.rep.ok(rid, "src/pyab_experiment (outside sly)", f"{n} functions scanned; no unguarded entropy/ambient source")
    return n


# ------------------------------------------------------------------ shared mutable state / ownership (C01, C11, C16, C17)
def module_level_mutables(m: Module):
    out = {}
    for st in m.tree.body:
        tg = []
        if isinstance(st, ast.Assign):
            tg = [t for t in st.targets if isinstance(t, ast.Name)]
            val = st.value
        elif isinstance(st, ast.AnnAssign) and isinstance(st.target, ast.Name) and st.value is not None:
            tg, val = [st.target], st.value
        else:
            continue
        mutable = isinstance(val, (ast.List, ast.Dict, ast.Set, ast.ListComp, ast.DictComp, ast.SetComp)) or (
            isinstance(val, ast.Call) and dotted(val.func) in ("dict", "list", "set", "defaultdict", "collections.defaultdict",
                                                               "OrderedDict", "collections.OrderedDict", "deque", "collections.deque",
                                                               "WeakValueDictionary", "weakref.WeakValueDictionary"))
        for t in tg:
            if t.id == "__all__":
                continue
            out[t.id] = (st, mutable, val)
    return out


def _passed_params(callee, call, pred):
    params = [a.arg for a in callee.args.posonlyargs + callee.args.args]
    if params and params[0] in ("self", "cls") and isinstance(call.func, ast.Attribute):
        params = params[1:]
    passed = set()
    for i, a in enumerate(call.args):
        if i < len(params) and pred(a):
            passed.add(params[i])
    for kw in call.keywords:
        if kw.arg and pred(kw.value):
            passed.add(kw.arg)
    return passed


def _may_return_param(f, names):
    """Can helper f return (an alias of) one of its parameters `names`?  Flow-insensitive."""
    al = set(names)
    for _ in range(3):
        for n in walk_no_nested(f):
            if isinstance(n, ast.Assign) and isinstance(n.value, (ast.Name, ast.IfExp, ast.BoolOp)):
                src = [x.id for x in ast.walk(n.value) if isinstance(x, ast.Name)]
                if any(x in al for x in src):
                    al.update(t.id for t in n.targets if isinstance(t, ast.Name))
    for r in walk_no_nested(f):
        if isinstance(r, ast.Return) and r.value is not None:
            v = r.value
            cands = [v] if isinstance(v, ast.Name) else ([v.body, v.orelse] if isinstance(v, ast.IfExp) else (v.values if isinstance(v, ast.BoolOp) else []))
            if any(isinstance(c, ast.Name) and c.id in al for c in cands):
                return True
    return False


INPLACE_AUG = (ast.Add, ast.BitOr, ast.BitAnd, ast.Sub, ast.BitXor, ast.Mult)


def alias_mutations(m: Module, fn, is_src, param_aliases=(), resolve=None, depth=0, obj_methods=(), deep=False):
    """Sites in `fn` where the object denoted by `is_src(expr)` - or a local name that may alias it - is
    changed in place: a mutator method, a subscript/slice store or delete, an in-place operator, or being
    passed to a helper of the same module/class that does one of these to its parameter.  May-alias
    dataflow over the statement tree: an assignment from a non-aliasing expression kills the alias."""
    sites = []

    def denotes(e, al):
        if e is None:
            return False
        if is_src(e):
            return True
        if isinstance(e, ast.Name):
            return e.id in al
        if isinstance(e, ast.NamedExpr):
            return denotes(e.value, al)
        if deep and isinstance(e, (ast.Attribute, ast.Subscript)):
            return denotes(e.value, al)        # an object reached through a shared one is shared as well
        if isinstance(e, ast.IfExp):
            return denotes(e.body, al) or denotes(e.orelse, al)
        if isinstance(e, ast.BoolOp):
            return any(denotes(v, al) for v in e.values)
        if isinstance(e, ast.Call) and resolve is not None and depth < 3:
            # a helper that can hand one of its parameters back (`return cum_weights`)
            callee = resolve(e)
            if callee is not None and callee is not fn:
                passed = _passed_params(callee, e, lambda a: denotes(a, al))
                if passed and _may_return_param(callee, passed):
                    return True
        return False

    def scan_expr(node, al):
        for n in ast.walk(node):
            if isinstance(n, ast.Call):
                if isinstance(n.func, ast.Attribute) and (n.func.attr in flow.MUTATORS or n.func.attr in obj_methods) \
                        and denotes(n.func.value, al):
                    sites.append((n, f"`{norm(n)[:70]}`"))
                elif resolve is not None and depth < 3:
                    callee = resolve(n)
                    if callee is not None and callee is not fn:
                        passed = _passed_params(callee, n, lambda a: denotes(a, al))
                        if passed:
                            for sub, how in alias_mutations(m, callee, lambda e: False, passed, resolve, depth + 1, obj_methods):
                                sites.append((n, f"`{norm(n)[:50]}` -> {callee.name}: {how}"))

    def targets_of(st):
        if isinstance(st, ast.Assign):
            return st.targets
        if isinstance(st, (ast.AugAssign, ast.AnnAssign)):
            return [st.target]
        if isinstance(st, ast.Delete):
            return st.targets
        return []

    def run(stmts, al):
        al = set(al)
        for st in stmts:
            if isinstance(st, (ast.FunctionDef, ast.AsyncFunctionDef, ast.ClassDef)):
                run(st.body, al)     # closures see the aliases of the enclosing scope
                continue
            if isinstance(st, ast.If):
                scan_expr(st.test, al)
                al = run(st.body, al) | run(st.orelse, al)
                continue
            if isinstance(st, (ast.For, ast.AsyncFor, ast.While)):
                scan_expr(st.iter if hasattr(st, "iter") else st.test, al)
                a1 = al | run(st.body, al)
                al = a1 | run(st.body, a1) | run(st.orelse, a1)
                continue
            if isinstance(st, (ast.With, ast.AsyncWith)):
                for it in st.items:
                    scan_expr(it.context_expr, al)
                    if isinstance(it.optional_vars, ast.Name) and denotes(it.context_expr, al):
                        al.add(it.optional_vars.id)
                al = run(st.body, al)
                continue
            if isinstance(st, ast.Try):
                a1 = run(st.body, al)
                for h in st.handlers:
                    a1 |= run(h.body, al | a1)
                al = a1 | run(st.orelse, a1) | run(st.finalbody, a1)
                continue
            if isinstance(st, ast.Match):
                scan_expr(st.subject, al)
                out = set(al)
                for c in st.cases:
                    out |= run(c.body, al)
                al = out
                continue
            scan_expr(st, al)
            for t in targets_of(st):
                for tt in (t.elts if isinstance(t, (ast.Tuple, ast.List)) else [t]):
                    if isinstance(tt, ast.Subscript) and denotes(tt.value, al):
                        sites.append((st, f"`{norm(st)[:70]}`"))
                    if obj_methods and isinstance(tt, ast.Attribute) and denotes(tt.value, al):
                        sites.append((st, f"attribute store `{norm(st)[:70]}`"))
                    if isinstance(st, ast.AugAssign) and isinstance(st.op, INPLACE_AUG) and denotes(tt, al):
                        sites.append((st, f"in-place `{norm(st)[:70]}`"))
            if isinstance(st, (ast.Assign, ast.AnnAssign)) and getattr(st, "value", None) is not None:
                for t in targets_of(st):
                    if isinstance(t, ast.Name):
                        if denotes(st.value, al):
                            al.add(t.id)
                        else:
                            al.discard(t.id)
            for n in ast.walk(st):
                if isinstance(n, ast.NamedExpr) and isinstance(n.target, ast.Name) and denotes(n.value, al):
                    al.add(n.target.id)
        return al

    run(fn.body, set(param_aliases))
    seen, out = set(), []
    for n, how in sites:
        k = (getattr(n, "lineno", 0), getattr(n, "col_offset", 0), how)
        if k not in seen:
            seen.add(k)
            out.append((n, how))
    return out


CACHE_DECORATORS = {"lru_cache", "functools.lru_cache", "cache", "functools.cache", "cached_property", "functools.cached_property",
                    "memoize", "cachetools.cached"}


def _class_attr_mutations(ctx: Ctx, m: Module, cn: str, an: str):
    """Descriptions of the places (any module of the package) where the class-level object `cn.an` is changed in place,
    directly, through an alias or through a helper."""
    cnode = m.classes()[cn]
    shadowed = any(isinstance(x, ast.Assign) and any(isinstance(t, ast.Attribute) and t.attr == an and dotted(t.value) == "self"
                                                     for t in x.targets) for x in ast.walk(cnode))
    muts = []
    for m2 in ctx.src.own_modules():
        for c2name, c2 in list(m2.classes().items()) + [(None, None)]:
            fns = ([x for x in c2.body if isinstance(x, (ast.FunctionDef, ast.AsyncFunctionDef))] if c2 is not None
                   else list(m2.functions().values()))
            for f2 in fns:
                inside = m2 is m and c2name == cn

                def is_src(e, inside=inside):
                    if not (isinstance(e, ast.Attribute) and e.attr == an):
                        return False
                    b = e.value
                    d = dotted(b)
                    if d is not None and d.split(".")[-1] == cn:
                        return True
                    if inside and (d == "cls" or d == "self.__class__" or (isinstance(b, ast.Call) and dotted(b.func) == "type")):
                        return True
                    return inside and d == "self" and not shadowed
                for node, how in alias_mutations(m2, f2, is_src, resolve=resolver_for(m2, c2)):
                    muts.append(f"{m2.rel}:{f2.name} {how}")
    return muts


def rule_no_shared_state(ctx: Ctx, rid="C17.NO-SHARED-WRITES", modules=None, only=None, floor=None, accumulating_only=False):
    """accumulating_only (C11): a shared object that the code itself empties before each use (x.clear(), x = [],
    x[:] = ...) does not carry anything from one compilation to the next when calls do not overlap; only objects
    that are filled and never reset are cross-evaluator state.  (C17 flags both: overlapping calls see each other.)"""
    """Own modules: no function writes module globals, class attributes, or mutates a
    module-level / class-level mutable object; no caching decorator keeps per-process state."""
    nfun = 0
    for m in ctx.src.own_modules():
        if modules and m.rel not in modules:
            continue
        mm = module_level_mutables(m)
        class_names = set(m.classes())
        class_mut = {}
        for cn, c in m.classes().items():
            for st in c.body:
                if isinstance(st, (ast.Assign, ast.AnnAssign)) and getattr(st, "value", None) is not None:
                    tg = st.targets if isinstance(st, ast.Assign) else [st.target]
                    v = st.value
                    mut = isinstance(v, (ast.List, ast.Dict, ast.Set)) or (isinstance(v, ast.Call) and dotted(v.func) in ("dict", "list", "set"))
                    for t in tg:
                        if isinstance(t, ast.Name) and mut:
                            class_mut[(cn, t.id)] = st
        def is_reset(name):
            for x in ast.walk(m.tree):
                if isinstance(x, ast.Call) and isinstance(x.func, ast.Attribute) and x.func.attr == "clear" and (dotted(x.func.value) or "").split(".")[-1] == name:
                    return True
                if isinstance(x, ast.Assign):
                    for t in x.targets:
                        if isinstance(t, ast.Subscript) and isinstance(t.slice, ast.Slice) and (dotted(t.value) or "").split(".")[-1] == name:
                            return True
                        if isinstance(t, ast.Attribute) and t.attr == name and isinstance(x.value, (ast.List, ast.Dict, ast.Set, ast.Call)):
                            return True
                if isinstance(x, ast.Delete):
                    for t in x.targets:
                        if isinstance(t, ast.Subscript) and (dotted(t.value) or "").split(".")[-1] == name:
                            return True
            return False
        for (cn, an), st in class_mut.items():
            # sly Lexer/Parser `tokens = {...}` sets are build-time tables read by the metaclass
            if an in ("tokens", "literals", "precedence"):
                continue
            if accumulating_only and is_reset(an):
                continue
            # a class-level list/dict/set is shared by all instances; it is shared *state* only if something
            # changes it in place (a lookup table that is only read is a constant)
            cnode = m.classes()[cn]
            shadowed = any(isinstance(x, ast.Assign) and any(isinstance(t, ast.Attribute) and t.attr == an and dotted(t.value) == "self"
                                                             for t in x.targets) for x in ast.walk(cnode))
            muts = []
            for m2 in ctx.src.own_modules():
                for c2name, c2 in list(m2.classes().items()) + [(None, None)]:
                    fns = ([x for x in c2.body if isinstance(x, (ast.FunctionDef, ast.AsyncFunctionDef))] if c2 is not None
                           else list(m2.functions().values()))
                    for f2 in fns:
                        inside = m2 is m and c2name == cn

                        def is_src(e, inside=inside):
                            if not (isinstance(e, ast.Attribute) and e.attr == an):
                                return False
                            b = e.value
                            d = dotted(b)
                            if d is not None and d.split(".")[-1] == cn:
                                return True
                            if inside and (d == "cls" or d == "self.__class__" or (isinstance(b, ast.Call) and dotted(b.func) == "type")):
                                return True
                            return inside and d == "self" and not shadowed
                        for node, how in alias_mutations(m2, f2, is_src, resolve=resolver_for(m2, c2)):
                            muts.append(f"{m2.rel}:{f2.name} {how}")
            if muts:
                ctx.rep.bad(rid, f"{m.rel}:{cn}.{an}", f"class-level mutable default `{norm(st)[:60]}` is one object shared by every "
                            f"instance (and thread), and it is changed in place by {'; '.join(muts[:3])}", site=m.site(st), text=norm(st)[:100])
            else:
                ctx.rep.ok(rid, f"{m.rel}:{cn}.{an}", "class-level container is never changed in place (read-only table)")
        for fn in [x for x in ast.walk(m.tree) if isinstance(x, (ast.FunctionDef, ast.AsyncFunctionDef))]:
            if only is not None and not only(m, fn):
                continue
            nfun += 1
            q = f"{m.rel}:{fn.name}"
            ctx.rep.unit(q)
            for d in fn.decorator_list:
                dn = dotted(d.func) if isinstance(d, ast.Call) else dotted(d)
                if dn in CACHE_DECORATORS:
                    pass   # functools caches are internally locked; their ==-keying is judged by NO-VALUE-KEYED-CACHE
            glob = set()
            for n in walk_no_nested(fn):
                if isinstance(n, (ast.Global, ast.Nonlocal)):
                    glob.update(n.names)
            self_name = fn.args.args[0].arg if fn.args.args else "self"
            for n in walk_no_nested(fn):
                if isinstance(n, (ast.Assign, ast.AugAssign, ast.AnnAssign, ast.Delete, ast.Call)) and _under_lock(fn, n):
                    continue      # serialised by a lock: not a data race
                targets = []
                if isinstance(n, ast.Assign):
                    targets = n.targets
                elif isinstance(n, (ast.AugAssign, ast.AnnAssign)):
                    targets = [n.target]
                elif isinstance(n, ast.Delete):
                    targets = n.targets
                for t in targets:
                    for tt in (t.elts if isinstance(t, (ast.Tuple, ast.List)) else [t]):
                        kind = flow.classify_write(tt, self_name, class_names, set(mm), glob)
                        if kind[0] in ("module", "class"):
                            ctx.rep.bad(rid, q, f"writes {kind[0]}-level state `{norm(tt)[:60]}` at run time", site=m.site(n),
                                        text=f"{kind[0]} write {norm(n)[:100]}")
                        if kind[0] == "local-container" and kind[1] in mm and kind[1] not in _locals(fn):
                            ctx.rep.bad(rid, q, f"mutates the module-level object `{kind[1]}` at run time ({norm(n)[:60]})",
                                        site=m.site(n), text=f"module mutate {norm(n)[:100]}")
                if isinstance(n, ast.Call) and isinstance(n.func, ast.Attribute) and n.func.attr in flow.MUTATORS:
                    base = dotted(n.func.value)
                    if accumulating_only and base and is_reset(base.split(".")[-1]):
                        continue
                    if base and base.split(".")[0] in mm and base.split(".")[0] not in _locals(fn) and mm[base.split(".")[0]][1]:
                        ctx.rep.bad(rid, q, f"mutates the module-level object `{base}` at run time ({norm(n)[:60]})",
                                    site=m.site(n), text=f"module mutate {norm(n)[:100]}")
                    if base and (base.split(".")[0] in class_names or base.startswith("cls.")):
                        ctx.rep.bad(rid, q, f"mutates class-level state `{base}` at run time", site=m.site(n),
                                    text=f"class mutate {norm(n)[:100]}")
                if isinstance(n, ast.Call) and dotted(n.func) in ("setattr",) and n.args:
                    b0 = dotted(n.args[0])
                    if b0 in class_names or b0 == "cls" or (isinstance(n.args[0], ast.Call) and dotted(n.args[0].func) == "type"):
                        ctx.rep.bad(rid, q, f"setattr on a class at run time ({norm(n)[:60]})", site=m.site(n), text=norm(n)[:100])
            # the same through local aliases and helpers (`buf = _BUFFER; buf[:] = ...`)
            flagged = {getattr(o, "site", "") for o in ctx.rep.obs if not o.ok and o.rule == rid}
            fn_locals = _locals(fn)
            cls_of = next((c for c in m.classes().values() if fn in c.body), None)
            for gname, (gst, gmut, _gval) in mm.items():
                if not gmut or (gname in fn_locals and gname not in glob):
                    continue
                if accumulating_only and is_reset(gname):
                    continue
                for node, how in alias_mutations(m, fn, lambda e, g=gname: isinstance(e, ast.Name) and e.id == g,
                                                 resolve=resolver_for(m, cls_of)):
                    if _under_lock(fn, node) or m.site(node) in flagged:
                        continue
                    ctx.rep.bad(rid, q, f"mutates the module-level object `{gname}` at run time through an alias or helper: {how}",
                                site=m.site(node), text=f"module mutate {norm(node)[:100]}")
    ctx.rep.ok(rid, "src/pyab_experiment (outside sly)", f"{nfun} functions scanned for shared-state writes")
    ctx.rep.floor("functions scanned for shared-state writes", nfun, floor if floor is not None else (25 if not modules else 2))


def rule_mutable_defaults(ctx: Ctx, rid="C17.NO-SHARED-DEFAULTS", modules=None, accumulating_only=False):
    """A parameter default is evaluated once, when the function is defined: a default that is a container or an object
    with state, and that is then changed (directly, through an alias, or after being stored on self), is shared by every
    call and every instance that did not pass its own."""
    n = 0
    for m in ctx.src.own_modules():
        if modules and m.rel not in modules:
            continue
        for cname, c in list(m.classes().items()) + [(None, None)]:
            fns = ([x for x in c.body if isinstance(x, (ast.FunctionDef, ast.AsyncFunctionDef))] if c is not None
                   else list(m.functions().values()))
            for fn in fns:
                a = fn.args
                pos = a.posonlyargs + a.args
                pairs = list(zip(pos[len(pos) - len(a.defaults):], a.defaults)) + [(x, d) for x, d in zip(a.kwonlyargs, a.kw_defaults) if d is not None]
                for arg, dflt in pairs:
                    kind, methods = None, ()
                    if isinstance(dflt, (ast.List, ast.Dict, ast.Set, ast.ListComp, ast.DictComp, ast.SetComp)) or \
                            (isinstance(dflt, ast.Call) and dotted(dflt.func) in ("list", "dict", "set", "defaultdict", "collections.defaultdict", "deque")):
                        kind = "container"
                    elif isinstance(dflt, ast.Call) and dotted(dflt.func):
                        m2, node = ctx.src.resolve_name(m, dotted(dflt.func).split(".")[0])
                        if isinstance(node, ast.ClassDef):
                            writers = set()
                            for f2 in node.body:
                                if isinstance(f2, (ast.FunctionDef, ast.AsyncFunctionDef)) and f2.name not in ("__init__", "__new__", "__post_init__"):
                                    sn = f2.args.args[0].arg if f2.args.args else "self"
                                    if any(isinstance(x, (ast.Assign, ast.AugAssign, ast.AnnAssign)) and any(
                                            isinstance(t, ast.Attribute) and dotted(t.value) == sn
                                            for t in (x.targets if isinstance(x, ast.Assign) else [x.target])) for x in ast.walk(f2)):
                                        writers.add(f2.name)
                            kind, methods = f"instance of {node.name}", tuple(sorted(writers)) or ("__no_method__",)
                    if kind is None:
                        continue
                    if accumulating_only and kind != "container":
                        continue      # sequential use (C11): an object that every use re-initialises carries nothing over
                    n += 1
                    sites = [(fn, x, how) for x, how in alias_mutations(m, fn, lambda e: False, {arg.arg}, resolver_for(m, c), obj_methods=methods)]
                    # stored on self: follow the attribute through the methods of the class
                    if c is not None:
                        stored = {t.attr for x in ast.walk(fn) if isinstance(x, ast.Assign) and isinstance(x.value, ast.Name) and x.value.id == arg.arg
                                  for t in x.targets if isinstance(t, ast.Attribute) and dotted(t.value) == "self"}
                        for attr in stored:
                            for f2 in [x for x in c.body if isinstance(x, (ast.FunctionDef, ast.AsyncFunctionDef))]:
                                for x, how in alias_mutations(m, f2, lambda e, attr=attr: isinstance(e, ast.Attribute) and e.attr == attr
                                                              and dotted(e.value) == "self", resolve=resolver_for(m, c), obj_methods=methods):
                                    sites.append((f2, x, how))
                    con = f"{m.rel}:{(cname + '.') if cname else ''}{fn.name}[{arg.arg}={norm(dflt)[:30]}]"
                    if accumulating_only:
                        sites = [s_ for s_ in sites if not any(k_ in s_[2] for k_ in (".clear()", "[:] ="))]
                    if sites:
                        f2, x, how = sites[0]
                        ctx.rep.bad(rid, con, f"the default of `{arg.arg}` ({kind}) is one object for all calls, and {f2.name} changes it: {how}",
                                    site=m.site(x), text=f"{fn.name} {arg.arg}={norm(dflt)[:60]}")
                    else:
                        ctx.rep.ok(rid, con, f"mutable default ({kind}) is never changed", site=m.site(fn))
    ctx.rep.ok(rid, "src/pyab_experiment (outside sly)", f"{n} mutable parameter defaults found", nontrivial=False)


PROCESS_GLOBAL_SETTERS = {"sys.setrecursionlimit", "sys.setswitchinterval", "sys.settrace", "sys.setprofile", "os.chdir", "os.umask",
                          "os.putenv", "os.unsetenv", "locale.setlocale", "random.seed", "decimal.setcontext", "signal.signal",
                          "threading.settrace", "threading.setprofile", "warnings.simplefilter", "warnings.filterwarnings",
                          "gc.disable", "gc.enable", "gc.freeze", "sys.set_int_max_str_digits", "faulthandler.enable", "socket.setdefaulttimeout"}


def rule_no_process_globals(ctx: Ctx, rid="C17.NO-PROCESS-GLOBALS"):
    """No function of the package changes a setting of the whole interpreter process (recursion limit, switch interval,
    working directory, locale, decimal context, environment ...): whatever one thread sets - and restores - applies to every
    other thread that is compiling or evaluating at that moment."""
    n = 0
    for m in ctx.src.own_modules():
        for fn in [x for x in ast.walk(m.tree) if isinstance(x, (ast.FunctionDef, ast.AsyncFunctionDef))]:
            n += 1

            def _getattr_name(e):
                # getattr(module, "name"[, default]) spelled with a constant name is module.name
                if isinstance(e, ast.Call) and dotted(e.func) == "getattr" and len(e.args) >= 2 and isinstance(e.args[1], ast.Constant) \
                        and isinstance(e.args[1].value, str) and dotted(e.args[0]):
                    return f"{dotted(e.args[0])}.{e.args[1].value}"
                return dotted(e) if isinstance(e, (ast.Attribute, ast.Name)) else None
            local_alias = {}
            for a_ in walk_no_nested(fn):
                if isinstance(a_, ast.Assign) and len(a_.targets) == 1 and isinstance(a_.targets[0], ast.Name):
                    tgt = _getattr_name(a_.value)
                    if tgt and "." in tgt:
                        local_alias[a_.targets[0].id] = tgt
            for c in walk_no_nested(fn):
                full = None
                if isinstance(c, ast.Call) and (dotted(c.func) or _getattr_name(c.func)):
                    d = dotted(c.func) or _getattr_name(c.func)
                    d = local_alias.get(d, d)
                    head = d.split(".")[0]
                    full = d
                    if head in m.imports:
                        srcm, attr = m.imports[head]
                        full = (srcm + ("." + attr if attr else "")) + d[len(head):]
                elif isinstance(c, (ast.Assign, ast.AugAssign, ast.Delete)):
                    for t in (c.targets if isinstance(c, (ast.Assign, ast.Delete)) else [c.target]):
                        if isinstance(t, ast.Subscript) and dotted(t.value) == "os.environ":
                            full = "os.environ[...] ="
                        if isinstance(t, ast.Attribute) and isinstance(t.value, ast.Call) and (dotted(t.value.func) or "").endswith("getcontext"):
                            full = "decimal.getcontext().<attr> ="
                if full in PROCESS_GLOBAL_SETTERS or (full or "").startswith(("os.environ[",  "decimal.getcontext()")):
                    ctx.rep.bad(rid, f"{m.rel}:{fn.name}", f"`{norm(c)[:70]}` changes a process-wide setting ({full}): another thread that is "
                                "compiling or evaluating at that moment runs under the changed setting, or has it taken away when this "
                                "thread restores it", site=m.site(c), text=f"{fn.name}: {full}")
    ctx.rep.ok(rid, "src/pyab_experiment (outside sly)", f"{n} functions scanned; no process-wide setter")


def rule_value_keyed_caches(ctx: Ctx, rid="C01.NO-VALUE-KEYED-CACHE", modules=None, functions=None):
    """functools caches compare their arguments with == / hash: 1, 1.0 and True (and 0, 0.0, -0.0,
    False; (1, 2) and (1.0, 2.0)) share one slot although str() distinguishes them and their types
    differ.  A cache on a function that can receive such values changes later results; one whose
    parameters are all annotated str/bytes is transparent."""
    n = 0
    for m in ctx.src.own_modules():
        if modules and m.rel not in modules:
            continue
        for fn in [x for x in ast.walk(m.tree) if isinstance(x, (ast.FunctionDef, ast.AsyncFunctionDef))]:
            if functions is not None and fn.name not in functions:
                continue
            n += 1
            for d in fn.decorator_list:
                dn = dotted(d.func) if isinstance(d, ast.Call) else dotted(d)
                if dn in CACHE_DECORATORS:
                    a = fn.args
                    anns = [x.annotation for x in a.args + a.kwonlyargs if x.arg not in ("self", "cls")]
                    if a.vararg:
                        anns.append(a.vararg.annotation)
                    if a.kwarg:
                        anns.append(a.kwarg.annotation)
                    no_args = not anns          # nothing to key on: the one result is computed once
                    transparent = no_args or all(an is not None and norm(an) in ("str", "bytes") for an in anns)
                    ctx.rep.check(transparent, rid, f"{m.rel}:{fn.name}[@{dn}]",
                                  ("cache on a function without parameters: one value, computed once" if no_args else
                                   "cache on a function of str arguments only: transparent") if transparent else
                                  f"@{dn} on {fn.name}({norm(a)}): arguments that compare equal but differ in type or text (1, 1.0, True; "
                                  "(1, 2) and (1.0, 2.0)) are answered from one slot, so a result depends on what was asked before",
                                  site=m.site(fn), text=f"@{dn} {fn.name}({norm(a)})")
            # call form: lru_cache(...)(f) / cache(f)
            for c in walk_no_nested(fn):
                if isinstance(c, ast.Call):
                    inner = c.func if isinstance(c.func, ast.Call) else None
                    dn = dotted(inner.func) if inner is not None else dotted(c.func)
                    if dn in CACHE_DECORATORS and (inner is not None or (c.args and not c.keywords)):
                        if inner is None and dn.endswith("lru_cache") and c.args and isinstance(c.args[0], ast.Constant):
                            continue   # lru_cache(128) without application
                        ctx.rep.bad(rid, f"{m.rel}:{fn.name}[{norm(c)[:40]}]",
                                    f"wraps a function in {dn}: calls whose arguments compare equal (1, 1.0, True) are answered from "
                                    "one slot, so a result depends on what was asked before", site=m.site(c), text=norm(c)[:100])
    ctx.rep.ok(rid, "src/pyab_experiment (outside sly)", f"{n} functions scanned for ==-keyed caches", nontrivial=False)


def rule_retained_arguments(ctx: Ctx, rid="C16.NO-RETAINED-ARGUMENT", modules=None):
    """No function keeps a reference to a caller's (mutable) argument in module- or class-level
    storage: data derived from it would go stale when the caller mutates the object in place."""
    n = 0
    for m in ctx.src.own_modules():
        if modules and m.rel not in modules:
            continue
        mm = module_level_mutables(m)
        mod_names = {t.id for st in m.tree.body if isinstance(st, (ast.Assign, ast.AnnAssign))
                     for t in (st.targets if isinstance(st, ast.Assign) else [st.target]) if isinstance(t, ast.Name)}
        for fn in [x for x in ast.walk(m.tree) if isinstance(x, (ast.FunctionDef, ast.AsyncFunctionDef))]:
            n += 1
            params = {a.arg for a in fn.args.args + fn.args.kwonlyargs} - {"self", "cls"}
            glob = _globals_of(fn)
            for st in walk_no_nested(fn):
                if not isinstance(st, ast.Assign):
                    continue
                for t in st.targets:
                    shared = (isinstance(t, ast.Name) and t.id in glob) or \
                             (isinstance(t, ast.Subscript) and isinstance(t.value, ast.Name) and t.value.id in mod_names and t.value.id not in _locals(fn)) or \
                             (isinstance(t, ast.Attribute) and dotted(t.value) in set(m.classes()) | {"cls"})
                    if not shared:
                        continue
                    # does the stored value alias a parameter (not a copy)?
                    vals = st.value.elts if isinstance(st.value, (ast.Tuple, ast.List)) else [st.value]
                    alias = [v for v in vals if isinstance(v, ast.Name) and v.id in params]
                    key_alias = isinstance(t, ast.Subscript) and any(isinstance(x, ast.Call) and dotted(x.func) == "id" for x in ast.walk(t.slice))
                    if alias or key_alias:
                        ctx.rep.bad(rid, f"{m.rel}:{fn.name}", f"`{norm(st)[:70]}` keeps a reference to the caller's argument "
                                    f"`{alias[0].id if alias else 'id(...)'}` in shared storage: derived data reused on a later call is stale "
                                    "once the caller mutates that object in place", site=m.site(st), text=norm(st)[:100])
    ctx.rep.ok(rid, "src/pyab_experiment (outside sly)", f"{n} functions scanned for retained caller arguments", nontrivial=False)


def _under_lock(fn, node):
    """Is `node` inside a `with <something lock-like>:` block of fn?"""
    for w in ast.walk(fn):
        if isinstance(w, ast.With) and any("lock" in (norm(i.context_expr).lower()) for i in w.items):
            for x in ast.walk(w):
                if x is node:
                    return True
    return False


def _locals(fn):
    out = {a.arg for a in fn.args.args + fn.args.kwonlyargs}
    for n in walk_no_nested(fn):
        if isinstance(n, ast.Name) and isinstance(n.ctx, ast.Store):
            out.add(n.id)
    return out


def _is_subclass_of(ctx: Ctx, mod: Module, c: ast.ClassDef, roots, depth=0):
    for b in c.bases:
        d = dotted(b)
        if not d:
            continue
        if d.split(".")[-1] in roots:
            return True
        m2, node = ctx.src.resolve_name(mod, d.split(".")[0])
        if isinstance(node, ast.ClassDef) and depth < 5 and _is_subclass_of(ctx, m2, node, roots, depth + 1):
            return True
    return False


def _holder_is_per_call(ctx: Ctx, m, method, parents) -> bool:
    """`method` is a method of a class K of module m (not the evaluator, not a lexer/parser/generator); every construction K(...)
    in the package sits in a function body as the subject of a `with`, the value of a local assignment, or the receiver of an
    immediate attribute access - and that local is never returned, yielded or stored elsewhere.  At least one construction exists."""
    k = parents.get(method)
    if not isinstance(k, ast.ClassDef) or k.name == "ExperimentEvaluator" or k.name == "PythonCodeGen" \
            or _is_subclass_of(ctx, m, k, {"Lexer", "Parser"}) or k.bases:
        return False
    sites = 0
    for m2 in ctx.src.own_modules():
        par2 = {}
        for node in ast.walk(m2.tree):
            for ch in ast.iter_child_nodes(node):
                par2[ch] = node
        for c in ast.walk(m2.tree):
            if not (isinstance(c, ast.Call) and dotted(c.func) and dotted(c.func).split(".")[-1] == k.name):
                continue
            sites += 1
            fn2, p = None, c
            while p in par2:
                p = par2[p]
                if isinstance(p, (ast.FunctionDef, ast.AsyncFunctionDef)):
                    fn2 = p
                    break
                if isinstance(p, (ast.ClassDef, ast.Lambda)):
                    return False
            if fn2 is None or any(c is d_ or any(c is x for x in ast.walk(d_)) for d_ in fn2.args.defaults + [d for d in fn2.args.kw_defaults if d]):
                return False
            up = par2.get(c)
            local = None
            if isinstance(up, ast.withitem) and up.context_expr is c:
                local = up.optional_vars.id if isinstance(up.optional_vars, ast.Name) else None
                if up.optional_vars is not None and local is None:
                    return False
            elif isinstance(up, ast.Assign) and len(up.targets) == 1 and isinstance(up.targets[0], ast.Name):
                local = up.targets[0].id
            elif isinstance(up, ast.Attribute) and up.value is c:
                local = None
            else:
                return False
            if local is not None:
                for x in walk_no_nested(fn2):
                    # the local may be read through attributes (session.parser.parse(...)); it must not be handed on as a value
                    if isinstance(x, ast.Name) and x.id == local and isinstance(x.ctx, ast.Load):
                        u = par2.get(x)
                        if not (isinstance(u, ast.Attribute) and u.value is x) and not (isinstance(u, ast.withitem) and u.context_expr is x):
                            return False
                if any(isinstance(x, (ast.Global, ast.Nonlocal)) and local in x.names for x in walk_no_nested(fn2)):
                    return False
    return sites > 0


def rule_fresh_per_parse(ctx: Ctx, rid="C17.FRESH-PER-PARSE", kinds=("Lexer", "Parser", "PythonCodeGen")):
    """Every Lexer / Parser / PythonCodeGen object is created inside a function, bound to a local
    (or used inline) and does not escape to module, class, default-argument or cached storage."""
    stateful = {}
    for m in ctx.src.own_modules():
        for cn, c in m.classes().items():
            if _is_subclass_of(ctx, m, c, {"Lexer", "Parser"}) or cn == "PythonCodeGen":
                stateful[cn] = m
    if len(stateful) < 3:
        raise AnalysisError(f"expected the lexer, parser and generator classes, found {sorted(stateful)}")
    all_stateful = dict(stateful)
    stateful = {k: v for k, v in stateful.items()
                if (k == "PythonCodeGen" and "PythonCodeGen" in kinds)
                or any(kk in kinds and _is_subclass_of(ctx, v, v.classes()[k], {kk}) for kk in ("Lexer", "Parser"))}
    n = 0
    for m in ctx.src.own_modules():
        parents = {}
        for node in ast.walk(m.tree):
            for ch in ast.iter_child_nodes(node):
                parents[ch] = node
        for node in ast.walk(m.tree):
            if not (isinstance(node, ast.Call) and dotted(node.func) and dotted(node.func).split(".")[-1] in stateful):
                continue
            n += 1
            cname = dotted(node.func).split(".")[-1]
            # enclosing function?
            p, fn, in_default = node, None, False
            while p in parents:
                pp = parents[p]
                if isinstance(pp, (ast.FunctionDef, ast.AsyncFunctionDef, ast.Lambda)):
                    if isinstance(pp, ast.Lambda) or p in pp.body or any(p is x for x in ast.walk(pp) if x in pp.body) or _in_body(pp, node):
                        fn = pp
                    else:
                        in_default = True
                    break
                p = pp
            con = f"{m.rel}:{cname}() at {getattr(fn, 'name', 'module level')}"
            if fn is None or in_default:
                ctx.rep.bad(rid, con, f"a {cname} object is created at module/class level or in a default argument: one "
                            "instance (with its mutable position, state stack and parse stacks) is shared by all parses and threads",
                            site=m.site(node), text=f"{cname}() outside a function body")
                continue
            # escape: assigned to a non-local target, returned from a cached function, stored in a container
            par = parents.get(node)
            escaped = None
            if isinstance(par, ast.Assign):
                for t in par.targets:
                    k = flow.classify_write(t, fn.args.args[0].arg if fn.args.args else "self", set(m.classes()),
                                            set(module_level_mutables(m)), _globals_of(fn))
                    if k[0] not in ("local",):
                        escaped = f"stored in {norm(t)} ({k[0]})"
            for d in getattr(fn, "decorator_list", []):
                dn = dotted(d.func) if isinstance(d, ast.Call) else dotted(d)
                if dn in CACHE_DECORATORS:
                    # the cache keeps what the function returns: the object is shared when it can be (part of) that value, i.e. when
                    # it, or the local it is bound to, occurs in a return expression other than as the receiver of a method call
                    local_names = {t.id for t in par.targets if isinstance(t, ast.Name)} if isinstance(par, ast.Assign) else set()
                    if isinstance(par, ast.NamedExpr) and isinstance(par.target, ast.Name):
                        local_names.add(par.target.id)

                    def _carried(e, top=True):
                        if e is node:
                            return True
                        if isinstance(e, ast.Name):
                            return e.id in local_names
                        if isinstance(e, ast.Call) and isinstance(e.func, ast.Attribute):
                            # receiver.method(args): the receiver is used, not handed on
                            return any(_carried(a_, False) for a_ in list(e.args) + [k_.value for k_ in e.keywords])
                        return any(_carried(ch_, False) for ch_ in ast.iter_child_nodes(e))
                    rets = [x.value for x in walk_no_nested(fn) if isinstance(x, (ast.Return, ast.Yield, ast.YieldFrom)) and x.value is not None]
                    if isinstance(fn, ast.Lambda):
                        rets = [fn.body]
                    if any(_carried(rv) for rv in rets):
                        escaped = f"created inside a @{dn} function and part of what it returns: the object is kept and shared"
            if escaped and escaped.endswith("(instance)") and _holder_is_per_call(ctx, m, fn, parents):
                # stored on an object of a small holder class (a parse session, a context manager) whose instances are themselves
                # built inside a function and used as a `with` subject or a local: the holder lives as long as that call
                ctx.rep.ok(rid, con, "constructed per call and kept on a holder object that is itself built per call and kept local",
                           site=m.site(node))
                continue
            if escaped:
                ctx.rep.bad(rid, con, f"a {cname} object escapes its call: {escaped}", site=m.site(node), text=f"{cname}() {escaped}")
            else:
                ctx.rep.ok(rid, con, "constructed per call and kept local", site=m.site(node))
    # module-level names bound to instances via other spellings (e.g. `_LEXER = None` then global assignment) are covered by NO-SHARED-WRITES
    ctx.rep.floor("construction sites of lexer/parser/generator objects", n, 4 if len(kinds) == 3 else 1)
    # parse_source itself must construct both: decided on two abstract calls when the interpreter can follow them
    from . import parserules as PS
    kinds_ = tuple(k_ for k_, n_ in (("fresh-lexer", "Lexer"), ("fresh-parser", "Parser")) if n_ in kinds)
    if kinds_ and PS.decide(ctx, rid, kinds_, ok_text="each call of parse_source builds its own " + " and ".join(
            k_.split("-")[1] for k_ in kinds_) + " (two abstract calls; module-level objects are single objects)"):
        return
    wf = ctx.mod(WF)
    ps = wf.get_function("parse_source")
    made = {dotted(c.func).split(".")[-1] for c in walk_no_nested(ps) if isinstance(c, ast.Call) and dotted(c.func)
            and dotted(c.func).split(".")[-1] in stateful}
    used_globals = {nn.id for nn in walk_no_nested(ps) if isinstance(nn, ast.Name) and isinstance(nn.ctx, ast.Load)
                    and nn.id in module_level_mutables(wf) or (isinstance(nn, ast.Name) and nn.id.startswith("_") and nn.id.isupper())}
    made_lex = {k for k in made if _is_subclass_of(ctx, stateful[k], stateful[k].classes()[k], {"Lexer"})}
    made_par = {k for k in made if _is_subclass_of(ctx, stateful[k], stateful[k].classes()[k], {"Parser"})}
    lex_cls = {"a Lexer subclass"} if (not made_lex and "Lexer" in kinds) else set()
    lex_cls |= {"a Parser subclass"} if (not made_par and "Parser" in kinds) else set()
    made = made | lex_cls if False else made
    ok = not lex_cls
    ctx.rep.check(ok, rid, f"{WF}:parse_source", "parse_source creates its own lexer and parser on every call" if ok else
                  f"parse_source does not construct {sorted(lex_cls)} itself: it uses a longer-lived object "
                  f"(module-level names read: {sorted(used_globals)})", site=wf.site(ps), text=f"constructs {sorted(made)}")


def _in_body(fn, node):
    for st in fn.body:
        for x in ast.walk(st):
            if x is node:
                return True
    return False


def _globals_of(fn):
    out = set()
    for n in walk_no_nested(fn):
        if isinstance(n, ast.Global):
            out.update(n.names)
    return out


# ------------------------------------------------------------------ sly runtime ownership (C17)
SLY_RUNTIME = {
    "sly/lex.py": {"Lexer": ["tokenize", "begin", "push_state", "pop_state", "error"]},
    "sly/yacc.py": {"Parser": ["parse", "restart", "errok", "error", "line_position", "index_position"],
                    "YaccProduction": ["__getitem__", "__setitem__", "__getattr__", "__len__", "lineno", "index", "end"]},
}


def rule_sly_runtime_instance_only(ctx: Ctx, rid="C17.SLY-RUNTIME-INSTANCE-ONLY"):
    """The vendored runtime entry points (and what they call on self) write only instance
    attributes and locals; class-level tables are written only by build-time classmethods."""
    n = 0
    for rel, classes in SLY_RUNTIME.items():
        m = ctx.mod(rel)
        mm = module_level_mutables(m)
        for cn, meths in classes.items():
            c = m.get_class(cn)
            todo = list(meths)
            seen = set()
            while todo:
                name = todo.pop()
                if name in seen:
                    continue
                seen.add(name)
                fn = m.get_method(c, name, required=name in meths)
                if fn is None:
                    continue
                n += 1
                ctx.rep.unit(f"{rel}:{cn}.{name}")
                decos = [dotted(d) for d in fn.decorator_list]
                if "classmethod" in decos:
                    ctx.rep.bad(rid, f"{rel}:{cn}.{name}", "a run-time entry point reaches a build-time classmethod",
                                site=m.site(fn), text=f"{cn}.{name} classmethod")
                    continue
                self_name = fn.args.args[0].arg if fn.args.args else "self"
                glob = set()
                for x in ast.walk(fn):
                    if isinstance(x, ast.Global):
                        glob.update(x.names)
                probs = []
                for x in ast.walk(fn):
                    tg = []
                    if isinstance(x, ast.Assign):
                        tg = x.targets
                    elif isinstance(x, (ast.AugAssign, ast.AnnAssign)):
                        tg = [x.target]
                    for t in tg:
                        for tt in (t.elts if isinstance(t, (ast.Tuple, ast.List)) else [t]):
                            k = flow.classify_write(tt, self_name, set(m.classes()), set(mm), glob)
                            if k[0] in ("class", "module"):
                                probs.append((x, f"{k[0]}-level write {norm(tt)[:50]}"))
                            if k[0] == "instance" and norm(tt) == f"{self_name}.__class__":
                                pass  # lexer state switch: an instance write
                    if isinstance(x, ast.Call) and isinstance(x.func, ast.Attribute) and x.func.attr in flow.MUTATORS:
                        base = dotted(x.func.value) or ""
                        if base.startswith("cls.") or base.split(".")[0] in m.classes() or (
                                base.startswith(self_name + "._") and base.split(".")[1] in ("_rules", "_grammar", "_lrtable", "_token_funcs", "_remapping")):
                            probs.append((x, f"mutates class-level table {base}"))
                    if isinstance(x, ast.Call) and dotted(x.func) and dotted(x.func).startswith(self_name + "."):
                        callee = dotted(x.func).split(".")[1]
                        if m.get_method(c, callee, required=False) is not None:
                            todo.append(callee)
                # a class-level attribute that holds a list / dict / set is one object for all instances until an instance rebinds it:
                # `self.x += [...]`, `self.x.append(...)`, `del self.x[:]`, `self.x[i] = ...` change that one object
                cl_mut = {}
                for st0 in c.body:
                    if isinstance(st0, (ast.Assign, ast.AnnAssign)) and getattr(st0, "value", None) is not None:
                        v0 = st0.value
                        if isinstance(v0, (ast.List, ast.Dict, ast.Set, ast.ListComp, ast.DictComp, ast.SetComp)) or (
                                isinstance(v0, ast.Call) and dotted(v0.func) in ("list", "dict", "set", "collections.deque", "deque", "defaultdict",
                                                                                 "collections.defaultdict", "OrderedDict", "collections.OrderedDict")):
                            for t0 in (st0.targets if isinstance(st0, ast.Assign) else [st0.target]):
                                if isinstance(t0, ast.Name):
                                    cl_mut[t0.id] = st0
                rebound = {t_.attr for f_ in c.body if isinstance(f_, ast.FunctionDef) for a_ in ast.walk(f_) if isinstance(a_, ast.Assign)
                           for t_ in a_.targets if isinstance(t_, ast.Attribute) and dotted(t_.value) == (f_.args.args[0].arg if f_.args.args else "self")}
                for x in ast.walk(fn):
                    hit = None
                    if isinstance(x, ast.AugAssign) and isinstance(x.target, ast.Attribute) and dotted(x.target.value) == self_name:
                        hit = x.target.attr
                    elif isinstance(x, ast.Call) and isinstance(x.func, ast.Attribute) and x.func.attr in flow.MUTATORS and \
                            isinstance(x.func.value, ast.Attribute) and dotted(x.func.value.value) == self_name:
                        hit = x.func.value.attr
                    elif isinstance(x, (ast.Assign, ast.Delete)):
                        for t_ in x.targets:
                            if isinstance(t_, ast.Subscript) and isinstance(t_.value, ast.Attribute) and dotted(t_.value.value) == self_name:
                                hit = t_.value.attr
                    if hit in cl_mut and hit not in rebound:
                        probs.append((x, f"`{norm(x)[:60]}` changes in place the {type(cl_mut[hit].value).__name__.lower()} that the class body binds to "
                                         f"{hit}: until an instance rebinds the attribute it is one object shared by every instance"))
                # objects reached through the class-level tables (productions, LR items, rule lists) are shared by every parser and
                # lexer instance: a run-time store into one of them is a store into shared state, whatever local name it goes through
                shared = ("_rules", "_grammar", "_lrtable", "_token_funcs", "_remapping", "_master_re", "_ignored_tokens", "_prec")
                for node, how in alias_mutations(m, fn, lambda e, sn=self_name: isinstance(e, ast.Attribute) and dotted(e.value) == sn
                                                 and e.attr in shared, obj_methods=("__attribute_store__",), deep=True):
                    probs.append((node, f"store into an object of the class-level tables: {how}"))
                if probs:
                    x, why = probs[0]
                    ctx.rep.bad(rid, f"{rel}:{cn}.{name}", f"run-time method writes shared state: {why}", site=m.site(x),
                                text=f"{cn}.{name} {why}")
                else:
                    ctx.rep.ok(rid, f"{rel}:{cn}.{name}", "writes only instance attributes and locals", site=m.site(fn))
    ctx.rep.floor("sly run-time methods analysed", n, 12)


# ------------------------------------------------------------------ the evaluator class (C11, C01, C09, C13, C17)
def _evaluator(ctx: Ctx):
    m = ctx.mod(EV)
    c = m.get_class("ExperimentEvaluator")
    return m, c


def _is_state_write(st, self_name, class_names, mm):
    """(kind, attr/text, rhs) if the statement writes evaluator / shared state."""
    out = []
    tg, rhs = [], None
    if isinstance(st, ast.Assign):
        tg, rhs = st.targets, st.value
    elif isinstance(st, (ast.AugAssign, ast.AnnAssign)):
        tg, rhs = [st.target], st.value
    elif isinstance(st, ast.Delete):
        tg = st.targets
    for t in tg:
        for tt in (t.elts if isinstance(t, (ast.Tuple, ast.List)) else [t]):
            k = flow.classify_write(tt, self_name, class_names, mm, set())
            if k[0] in ("instance", "instance-nested", "instance-container", "class", "module"):
                out.append((k[0], k[1], rhs))
    if isinstance(st, ast.Expr) and isinstance(st.value, ast.Call):
        c = st.value
        d = dotted(c.func)
        if d == "setattr" and c.args and dotted(c.args[0]) == self_name:
            attr = c.args[1].value if len(c.args) > 1 and isinstance(c.args[1], ast.Constant) else norm(c.args[1]) if len(c.args) > 1 else "?"
            out.append(("instance", attr, c.args[2] if len(c.args) > 2 else None))
        elif d in ("setattr", "delattr") and c.args:
            out.append(("class" if dotted(c.args[0]) in class_names or dotted(c.args[0]) == "cls" else "other", norm(c.args[0]), None))
        elif isinstance(c.func, ast.Attribute) and c.func.attr in flow.MUTATORS:
            base = dotted(c.func.value) or ""
            if base.startswith(self_name + "."):
                out.append(("instance-container", base, None))
            elif base.split(".")[0] in mm or base.split(".")[0] in class_names:
                out.append(("module", base, None))
        elif d == f"{self_name}.__dict__.update" or d == "object.__setattr__":
            out.append(("instance", "*", None))
    return out


def rule_commit_order(ctx: Ctx, rid="C11.COMMIT-ORDER", parse_only=False):
    """parse_only (C06): only the parse step counts as the thing that may fail - nothing may be
    recorded before the text has been parsed and the None result checked."""
    from . import liferules as LF
    kinds_ = ("atomic", "none") if not rid.startswith("C17") else ("atomic", "none", "ordered")
    if LF.decide(ctx, rid, kinds_, only=(lambda con: "parse_source" in con) if parse_only else None,
                 ok_text="every failure schedule of recompile (parse, generate, compile, exec; a None parse result) leaves the evaluator's "
                         "attributes as they were" + ("; in the successful run every store follows the last step that can fail"
                                                      if rid.startswith("C17") else "")):
        return
    m, c = _evaluator(ctx)
    rec = m.get_method(c, "recompile")
    self_name = rec.args.args[0].arg
    mm = set(module_level_mutables(m))
    cn = set(m.classes())
    flow.RISKY_ATTRS.clear()
    flow.RISKY_ATTRS.update(flow.risky_properties(ctx.src.own_modules()))
    paths = flow.enumerate_paths(rec, resolver=resolver_for(m, c))
    ctx.rep.unit(f"{EV}:ExperimentEvaluator.recompile ({len(paths)} paths, helpers inlined)")
    nW = 0
    wset = {}
    reported = set()
    def residual_may_raise(st, expanded):
        """May `st` raise apart from the helper calls that were already expanded in front of it?"""
        if id(st) not in expanded:
            return flow.may_raise_stmt(st)
        res = resolver_for(m, c)
        import copy

        class Strip(ast.NodeTransformer):
            def visit_Call(self, n):
                self.generic_visit(n)
                return ast.Name(id="__helper_result__", ctx=ast.Load()) if res(n) is not None else n
        return flow.may_raise_stmt(Strip().visit(copy.deepcopy(st)))

    for p in paths:
        first_w = None
        expanded = p.expanded_stmts()
        for ev in p.events:
            st = ev if isinstance(ev, ast.AST) else None
            if st is None:
                continue
            ws = _is_state_write(st, self_name, cn, mm)
            if ws:
                for k, a, rhs in ws:
                    wset[(k, a)] = st
                if first_w is not None:
                    # a later write: evaluating it must not be able to raise
                    risky = any(flow.may_raise_expr(rhs) for _, _, rhs in ws)
                    if parse_only:
                        risky = any(isinstance(x, ast.Call) and dotted(x.func) == "parse_source" for _, _, rhs in ws if rhs is not None for x in ast.walk(rhs))
                    if risky and norm(st) not in reported:
                        reported.add(norm(st))
                        ctx.rep.bad(rid, f"{EV}:ExperimentEvaluator.recompile", f"state write `{norm(st)[:70]}` can raise after "
                                    f"`{norm(first_w)[:50]}` already changed the evaluator: a failing recompile leaves it half-switched",
                                    site=m.site(st), text=f"{norm(first_w)[:80]} ; {norm(st)[:80]}")
                else:
                    first_w = st
                continue
            if parse_only and not any(isinstance(x, ast.Call) and dotted(x.func) in ("parse_source",) for x in ast.walk(st)) \
                    and not (isinstance(st, ast.Raise)):
                continue
            if first_w is not None and residual_may_raise(st, expanded) and not isinstance(st, ast.Return):
                key = (norm(first_w), norm(st))
                if key not in reported:
                    reported.add(key)
                    ctx.rep.bad(rid, f"{EV}:ExperimentEvaluator.recompile",
                                f"`{norm(st)[:70]}` may raise after the state write `{norm(first_w)[:60]}`: a recompile that fails "
                                "here has already changed the evaluator (and, for the checksum, makes the same invalid text be "
                                "skipped next time)", site=m.site(st), text=f"{norm(first_w)[:80]} ; {norm(st)[:80]}")
        if p.exit == "raise" and first_w is not None and not (parse_only and not isinstance(p.exit_node, ast.Raise)):
            key = (norm(first_w), "raise-exit")
            if key not in reported and not any(k[0] == norm(first_w) for k in reported if isinstance(k, tuple)):
                reported.add(key)
                ctx.rep.bad(rid, f"{EV}:ExperimentEvaluator.recompile", f"a raising path has already executed `{norm(first_w)[:60]}`",
                            site=m.site(first_w), text=f"{norm(first_w)[:80]} ; raise")
    nW = len(wset)
    if not reported:
        ctx.rep.ok(rid, f"{EV}:ExperimentEvaluator.recompile",
                   f"on all {len(paths)} paths every statement that may raise precedes the {nW} state writes "
                   f"({', '.join(sorted(a for _, a in wset))})", site=m.site(rec))
    ctx.rep.floor("evaluator state writes in recompile", nW, 2)
    return wset


NON_INJECTIVE = {"split", "strip", "lstrip", "rstrip", "lower", "upper", "casefold", "replace", "join", "sub", "re.sub",
                 "expandtabs", "splitlines", "translate", "normalize", "unicodedata.normalize", "title", "capitalize"}


def rule_skip_guard(ctx: Ctx, rid="C11.SKIP-GUARD"):
    """The only way recompile() skips compiling is a comparison between the stored fingerprint and
    the fingerprint of the *whole argument text* (an injective function of it: the text itself
    or a cryptographic hash of its encoding)."""
    from . import liferules as LF
    if LF.decide(ctx, rid, ("exact", "recorded", "unparsed"), construct=f"{EV}:ExperimentEvaluator.recompile[skip]",
                 ok_text="the skip decision compares an exact fingerprint of the whole text (the text or a full hashlib digest of its "
                         "encoding); recompiling the accepted text again calls and stores nothing"):
        return
    m, c = _evaluator(ctx)
    rec = m.get_method(c, "recompile")
    param = rec.args.args[1].arg
    env, multi = _single_assign_env(rec)
    paths = flow.enumerate_paths(rec, resolver=resolver_for(m, c))
    compile_calls = ("parse_source",)
    skip = [p for p in paths if p.exit in ("return", "fall")
            and not any(isinstance(x, ast.Call) and dotted(x.func) in compile_calls for s in p.stmts() for x in ast.walk(s))]
    con = f"{EV}:ExperimentEvaluator.recompile[skip]"
    if not skip:
        ctx.rep.ok(rid, con, "recompile never skips compilation", nontrivial=False)
        return
    for p in skip:
        tests = [e for e in p.events if isinstance(e, tuple) and e[0] == "test"]
        if len(tests) != 1:
            ctx.rep.bad(rid, con, f"compilation is skipped under {len(tests)} tests; expected the single fingerprint comparison",
                        text="skip tests " + " ; ".join(norm(t[1]) for t in tests))
            continue
        _, test, truth = tests[0]
        if not (isinstance(test, ast.Compare) and len(test.ops) == 1 and isinstance(test.ops[0], (ast.Eq, ast.NotEq))):
            ctx.rep.bad(rid, con, f"skip test is not an equality comparison: {norm(test)}", text=norm(test))
            continue
        equal_on_skip = (isinstance(test.ops[0], ast.Eq) and truth) or (isinstance(test.ops[0], ast.NotEq) and not truth)
        sides = [test.left, test.comparators[0]]
        stored = [s for s in sides if dotted(s) and dotted(s).startswith("self.")]
        fresh = [s for s in sides if s not in stored]
        if not equal_on_skip or len(stored) != 1 or len(fresh) != 1:
            ctx.rep.bad(rid, con, f"skip is not `stored fingerprint == fingerprint of the argument`: {norm(test)}", text=norm(test))
            continue
        fe = _inline_helpers(m, _subst(fresh[0], env), cls=c)
        # walk the expression: param must reach through encode / hash constructor / hexdigest only
        bad_calls = []
        uses_param = False
        nodes = list(ast.walk(fe))
        # helper functions of the module that are not single-expression: take every call they make
        helper_names = set()
        for n in list(nodes):
            if not isinstance(n, ast.Call):
                continue
            d_ = dotted(n.func) or ""
            callee = m.functions().get(d_)
            if callee is None and d_.split(".")[0] in ("self", "cls", c.name) and len(d_.split(".")) == 2:
                callee = m.get_method(c, d_.split(".")[1], required=False)
            if callee is not None:
                helper_names.add(d_)
                nodes += [x for x in ast.walk(callee) if x is not callee]
                if any(isinstance(a_, ast.Name) and a_.id == param for a_ in n.args):
                    uses_param = True
        for n in nodes:
            if isinstance(n, ast.Name) and n.id == param:
                uses_param = True
            if isinstance(n, ast.Call):
                d = dotted(n.func) or (n.func.attr if isinstance(n.func, ast.Attribute) else "?")
                last = d.split(".")[-1]
                if last in ("encode", "hexdigest", "digest") or d.startswith("hashlib.") or d in ("str", "bytes") or d in m.functions() \
                        or d in helper_names:
                    continue
                if d in ("re.compile",):
                    continue
                bad_calls.append(d)
        attr = dotted(stored[0])
        if not uses_param:
            ctx.rep.bad(rid, con, f"the fingerprint compared does not depend on the argument text: {norm(fe)[:80]}", text=norm(fe)[:120])
        elif bad_calls:
            known = [b for b in bad_calls if b.split(".")[-1] in NON_INJECTIVE or b in NON_INJECTIVE]
            if known:
                ctx.rep.bad(rid, con, f"the fingerprint is computed from a normalised text ({', '.join(known)}): two different "
                            "texts (e.g. differing in white space inside a string literal, or in a line break after a // comment) "
                            "share it, so recompiling to the second is silently skipped", site=m.site(test),
                            text=f"fingerprint {norm(fe)[:140]}")
            else:
                raise AnalysisError(f"fingerprint expression uses calls the analyser does not know: {bad_calls}")
        else:
            algo = next((dotted(n.func) for n in ast.walk(fe) if isinstance(n, ast.Call) and (dotted(n.func) or "").startswith("hashlib.")), None)
            ctx.rep.ok(rid, con, f"skips only when {attr} == {algo or 'the text'}(<whole argument text>)", site=m.site(test))
        # the stored fingerprint is only ever assigned that same fresh value
        all_stmts = {id(x): x for p_ in paths for x in p_.stmts()}.values()
        for st in all_stmts:
            for k, a, rhs in _is_state_write(st, "self", set(), set()) if isinstance(st, ast.stmt) else []:
                if "self." + str(a) == attr:
                    rr = _inline_helpers(m, _subst(rhs, env), cls=c) if rhs is not None else None
                    # inside a helper the fingerprint arrives as a parameter: accept a plain name there
                    in_helper = not any(st is x for x in walk_no_nested(rec))
                    same = rr is not None and (norm(rr) == norm(fe) or (in_helper and isinstance(rhs, (ast.Name, ast.Attribute))))
                    ctx.rep.check(same, rid, f"{EV}:ExperimentEvaluator.recompile[{attr} :=]",
                                  "the stored fingerprint is assigned the fingerprint of the text just compiled" if same else
                                  f"{attr} is assigned {norm(rhs)[:60] if rhs is not None else '?'}, not the fingerprint compared by the skip test",
                                  site=m.site(st), text=norm(st)[:120])


def rule_fingerprint_recorded(ctx: Ctx, rid="C11.FINGERPRINT-RECORDED"):
    """Every normally-ending path of recompile that switches the evaluator also records the
    fingerprint of the text it switched to (otherwise a later recompile of that text is skipped
    or not skipped against a stale fingerprint)."""
    from . import liferules as LF
    if LF.decide(ctx, rid, ("recorded", "switched"), ok_text="after any of the explored histories (A; A,B; A,B,A; A,B,A,B) the state a call "
                 "reads equals that of a fresh evaluator of the last text, and recompiling that text again is a no-op"):
        return
    m, c = _evaluator(ctx)
    rec = m.get_method(c, "recompile")
    # the attribute compared by the skip test
    attr = None
    for n in ast.walk(rec):
        if isinstance(n, ast.If) and isinstance(n.test, ast.Compare):
            for side in [n.test.left] + n.test.comparators:
                d = dotted(side)
                if d and d.startswith("self."):
                    attr = d.split(".", 1)[1]
    if attr is None:
        ctx.rep.ok(rid, f"{EV}:ExperimentEvaluator.recompile", "no fingerprint-based skip: nothing to record", nontrivial=False)
        return
    n = 0
    for p in flow.enumerate_paths(rec, resolver=resolver_for(m, c)):
        if p.exit not in ("return", "fall"):
            continue
        writes = []
        for st in p.stmts():
            writes += [(k, a) for k, a, rhs in _is_state_write(st, "self", set(), set())]
        attrs = {str(a) for _, a in writes}
        switched = attrs - {attr}
        if not switched:
            continue
        n += 1
        ok = attr in attrs
        conds = [("" if e[2] else "not ") + norm(e[1])[:40] for e in p.events if isinstance(e, tuple) and e[0] == "test"]
        ctx.rep.check(ok, rid, f"{EV}:ExperimentEvaluator.recompile[path: {' and '.join(conds)[:90]}]",
                      f"switches {sorted(switched)} and records self.{attr}" if ok else
                      f"a path switches {sorted(switched)} without recording self.{attr}: the evaluator then runs one text while its "
                      "fingerprint names another, so a later recompile is wrongly skipped (history A, B, A, B leaves A running)",
                      site=m.site(rec), text=f"path {' and '.join(conds)[:120]} writes {sorted(attrs)}")
    ctx.rep.floor("switching paths of recompile", n, 1)


def rule_instance_only(ctx: Ctx, rid="C11.INSTANCE-ONLY"):
    from . import liferules as LF
    # what an observer sees: operations on a second evaluator leave the first one serving its own text
    LF.decide(ctx, rid, ("isolated",), ok_text="abstract runs with two evaluators: building a second evaluator from another text, and "
              "recompiling it, leave the first evaluator's attributes and the function it serves unchanged")
    m, c = _evaluator(ctx)
    cn = set(m.classes())
    mm = set(module_level_mutables(m))
    n = 0
    for st in c.body:
        if isinstance(st, (ast.Assign, ast.AnnAssign)) and getattr(st, "value", None) is not None:
            n += 1
            v = st.value
            def _const(e):
                return isinstance(e, ast.Constant) or (isinstance(e, ast.UnaryOp) and isinstance(e.operand, ast.Constant)) or (
                    isinstance(e, ast.Tuple) and all(_const(x) for x in e.elts))
            imm = _const(v)
            why = "class-level default is an immutable constant"
            if not imm and isinstance(v, ast.Call) and (dotted(v.func) or "").split(".")[-1] in (
                    "MappingProxyType", "frozenset", "tuple", "compile", "getLogger", "TypeVar", "namedtuple"):
                imm, why = True, f"class-level {dotted(v.func)}(...) is a read-only object"
            names = [t.id for t in (st.targets if isinstance(st, ast.Assign) else [st.target]) if isinstance(t, ast.Name)]
            if not imm and isinstance(v, (ast.Dict, ast.List, ast.Set, ast.DictComp, ast.ListComp, ast.SetComp)) and names:
                # a container is shared state only if something changes it in place
                muts = _class_attr_mutations(ctx, m, c.name, names[0])
                if not muts:
                    imm, why = True, "class-level container is never changed in place (read-only table)"
            if not imm and isinstance(v, ast.Name):
                # a module-level constant used as the class-level default: judge the value it names
                for st2 in m.tree.body:
                    if isinstance(st2, (ast.Assign, ast.AnnAssign)) and getattr(st2, "value", None) is not None and any(
                            isinstance(t, ast.Name) and t.id == v.id for t in (st2.targets if isinstance(st2, ast.Assign) else [st2.target])):
                        v = st2.value
                if isinstance(v, ast.Constant):
                    imm, why = True, "class-level default names a module-level immutable constant"
            if not imm and isinstance(v, ast.Call) and dotted(v.func):
                m2_, cnode = ctx.src.resolve_name(m, dotted(v.func).split(".")[0])
                if isinstance(cnode, ast.ClassDef):
                    stateful = any(isinstance(f_, ast.FunctionDef) and (f_.name in ("__set__", "__set_name__", "__delete__") or (
                        f_.name not in ("__init__", "__new__", "__post_init__") and any(
                            isinstance(x, (ast.Assign, ast.AugAssign)) and any(isinstance(t, ast.Attribute) and dotted(t.value) == (
                                f_.args.args[0].arg if f_.args.args else "self") for t in (x.targets if isinstance(x, ast.Assign) else [x.target]))
                            for x in ast.walk(f_)))) for f_ in cnode.body)
                    if not stateful:
                        imm, why = True, f"class-level instance of {cnode.name}, which has no state-changing method"
            ctx.rep.check(imm, rid, f"{EV}:ExperimentEvaluator[{norm(st)[:50]}]", why if imm else
                          "class-level attribute holds a mutable object: it is shared by all evaluators, so an operation on one "
                          "evaluator can change another", site=m.site(st), text=norm(st)[:100])
    for fn in [x for x in c.body if isinstance(x, ast.FunctionDef)]:
        self_name = fn.args.args[0].arg if fn.args.args else "self"
        for st in walk_no_nested(fn):
            if not isinstance(st, ast.stmt):
                continue
            for k, a, rhs in _is_state_write(st, self_name, cn, mm):
                n += 1
                ok = k in ("instance",)
                if k in ("instance-container", "instance-nested"):
                    attr = str(a).split(".")[1].split("[")[0] if "." in str(a) else str(a)
                    class_level = any(isinstance(x, (ast.Assign, ast.AnnAssign)) and any(
                        isinstance(t, ast.Name) and t.id == attr for t in (x.targets if isinstance(x, ast.Assign) else [x.target]))
                        and not isinstance(getattr(x, "value", None), ast.Constant) for x in c.body)
                    ok = not class_level
                ctx.rep.check(ok, rid, f"{EV}:ExperimentEvaluator.{fn.name}[{norm(st)[:50]}]",
                              f"instance write to {a}" if ok else f"{k} write: state shared between evaluators ({a})",
                              site=m.site(st), text=norm(st)[:100])
    ctx.rep.floor("evaluator attribute definitions and writes", n, 2)


def _exec_site(ctx: Ctx, m, c, rec):
    """(function containing the single exec, exec call) looking into recompile and the methods /
    module functions it calls."""
    cands = [rec]
    for x in walk_no_nested(rec):
        if isinstance(x, ast.Call) and dotted(x.func):
            d = dotted(x.func)
            if d.startswith("self.") or d.startswith("cls.") or d.startswith(c.name + "."):
                f = m.get_method(c, d.split(".")[-1], required=False)
                if f is not None:
                    cands.append(f)
            elif d in m.functions():
                cands.append(m.functions()[d])
    out = []
    for f in cands:
        for n in walk_no_nested(f):
            if isinstance(n, ast.Call) and dotted(n.func) in ("exec", "eval"):
                out.append((f, n))
    return out


def _wraps_in_cache(ctx: Ctx, m, e, depth=0):
    """Does expression e (transitively through module-level helpers) apply a functools cache?"""
    for n in ast.walk(e):
        if isinstance(n, ast.Call):
            d = dotted(n.func) or (dotted(n.func.func) if isinstance(n.func, ast.Call) else None)
            if d in CACHE_DECORATORS or (d or "").split(".")[-1] in ("lru_cache", "cache"):
                return d
            f = m.functions().get(d) if d else None
            if f is not None and depth < 3:
                for x in ast.walk(f):
                    if isinstance(x, ast.Call):
                        dd = dotted(x.func) or (dotted(x.func.func) if isinstance(x.func, ast.Call) else None)
                        if dd in CACHE_DECORATORS or (dd or "").split(".")[-1] in ("lru_cache", "cache"):
                            return f"{d} -> {dd}"
    return None


def rule_no_module_iterators(ctx: Ctx, rid="C17.NO-ONE-SHOT-CONSTANTS"):
    """A module- or class-level name bound to a one-shot iterator (a generator expression, map / filter / zip / iter / reversed /
    enumerate object) and read inside functions is consumed by its first use: every later use - by the same evaluator, another one or
    another thread - sees it empty or part-way through, so what the code does depends on what ran before."""
    ONE_SHOT = {"map", "filter", "zip", "iter", "reversed", "enumerate", "itertools.chain", "chain", "itertools.accumulate", "accumulate",
                "itertools.cycle", "itertools.count"}
    n = 0
    for m in ctx.src.own_modules():
        scopes = [("module", m.tree.body)] + [(c.name, c.body) for c in m.classes().values()]
        for owner, body in scopes:
            for st in body:
                val = names = None
                if isinstance(st, ast.Assign):
                    val, names = st.value, [t.id for t in st.targets if isinstance(t, ast.Name)]
                elif isinstance(st, ast.AnnAssign) and st.value is not None and isinstance(st.target, ast.Name):
                    val, names = st.value, [st.target.id]
                if not names:
                    continue
                n += 1
                one_shot = isinstance(val, ast.GeneratorExp) or (isinstance(val, ast.Call) and dotted(val.func) in ONE_SHOT)
                if not one_shot:
                    continue
                used = [x for f_ in ast.walk(m.tree) if isinstance(f_, (ast.FunctionDef, ast.Lambda)) for x in ast.walk(f_)
                        if (isinstance(x, ast.Name) and x.id in names and isinstance(x.ctx, ast.Load))
                        or (isinstance(x, ast.Attribute) and x.attr in names and owner != "module")]
                if used:
                    ctx.rep.bad(rid, f"{m.rel}:{owner}.{names[0]}", f"`{norm(st)[:80]}` binds a one-shot iterator that functions read "
                                f"(`{norm(used[0])}` at line {getattr(used[0], 'lineno', '?')}): the first use consumes it, later uses see "
                                "what is left - the outcome depends on what ran before in the process", site=m.site(st), text=norm(st)[:120])
    ctx.rep.ok(rid, "src/pyab_experiment (outside sly)", f"{n} module- and class-level bindings scanned; none is a one-shot iterator that "
               "functions read", nontrivial=False)


def rule_copy_protocol(ctx: Ctx, rid="C11.COPY-IS-CURRENT"):
    """When the evaluator class defines its own copy / pickle protocol, a copy taken after a recompile must serve the text the original
    serves at that moment (default copying duplicates the instance dictionary and needs no check)."""
    from . import liferules as LF
    life = LF.lifecycle(ctx)
    m, c = _evaluator(ctx)
    if life["undecided"]:
        proto = [f_.name for f_ in c.body if isinstance(f_, ast.FunctionDef) and f_.name.startswith("__") and f_.name in (
            "__reduce__", "__reduce_ex__", "__copy__", "__deepcopy__", "__getstate__", "__setstate__", "__getnewargs__", "__getnewargs_ex__")]
        if proto:
            raise AnalysisError(f"the evaluator defines a copy/pickle protocol ({', '.join(proto)}) and its lifecycle could not be interpreted")
        return
    proto = life["facts"].get("copy_protocol", [])
    if not proto:
        ctx.rep.ok(rid, f"{EV}:ExperimentEvaluator", "no copy/pickle protocol of its own: copies duplicate the instance state", nontrivial=False)
        return
    if life["facts"].get("copy_protocol_undecided"):
        raise AnalysisError(f"the evaluator's copy/pickle protocol cannot be followed: {life['facts']['copy_protocol_undecided']}")
    LF.decide(ctx, rid, ("copied",), ok_text=f"a copy made through {', '.join(proto)} after a recompile serves the last accepted text")


def rule_installed_function(ctx: Ctx, rid="C11.INSTALLED-FUNCTION", strict=True, facets=("exec-sites", "namespace", "installed")):
    """exec() runs the generated text with a dict created in this call as locals; the function
    installed is read from that dict (nothing wraps or caches it)."""
    m, c = _evaluator(ctx)
    rec = m.get_method(c, "recompile")
    env, multi = _single_assign_env(rec)
    pfx = rid.split(".")[0]
    sites = _exec_site(ctx, m, c, rec)
    allexec = [n for mod in ctx.src.own_modules() for n in ast.walk(mod.tree)
               if isinstance(n, ast.Call) and dotted(n.func) in ("exec", "eval", "__import__", "importlib.import_module")]
    if "exec-sites" in facets:
        from . import liferules as LF0
        life0 = LF0.lifecycle(ctx)
        reached = len(sites) == 1 or (not life0["undecided"] and life0["facts"].get("execs") == 1)
        if not reached and len(allexec) == 1 and not sites:
            # the one exec site sits in a method of another class of the package (the generator loads what it generated): it is
            # reached when recompile, or a helper recompile calls, calls a method of that name on some object
            owner = next((fn_.name for mod in ctx.src.own_modules() for fn_ in ast.walk(mod.tree)
                          if isinstance(fn_, (ast.FunctionDef, ast.AsyncFunctionDef)) and any(n_ is allexec[0] for n_ in walk_no_nested(fn_))), None)
            scope = [rec] + [f_ for f_ in c.body if isinstance(f_, ast.FunctionDef) and any(
                isinstance(x, ast.Call) and dotted(x.func) == f"{rec.args.args[0].arg}.{f_.name}" for x in ast.walk(rec))]
            if owner and any(isinstance(x, ast.Call) and isinstance(x.func, ast.Attribute) and x.func.attr == owner
                             for f_ in scope for x in ast.walk(f_)):
                reached = True

        def _fed_by_generator(call, fn_):
            """exec/eval whose code argument is (compile() of) the text a PythonCodeGen produced, read off the function's own
            assignments: another site of the same discipline (a dry run, an explanation helper) executes nothing else."""
            if dotted(call.func) not in ("exec", "eval") or not call.args:
                return False
            binds = {}
            for a_ in ast.walk(fn_):
                if isinstance(a_, ast.Assign) and len(a_.targets) == 1 and isinstance(a_.targets[0], ast.Name):
                    binds.setdefault(a_.targets[0].id, []).append(a_.value)

            def gen_text(e, depth=0):
                if depth > 4:
                    return False
                if isinstance(e, ast.Call) and dotted(e.func) == "compile" and e.args:
                    return gen_text(e.args[0], depth + 1)
                if isinstance(e, ast.Call) and isinstance(e.func, ast.Attribute) and e.func.attr == "generate" and not e.args:
                    r_ = e.func.value
                    if isinstance(r_, ast.Call) and (dotted(r_.func) or "").split(".")[-1] == "PythonCodeGen":
                        return True
                    if isinstance(r_, ast.Name) and r_.id in binds:
                        return all(isinstance(v_, ast.Call) and (dotted(v_.func) or "").split(".")[-1] == "PythonCodeGen" for v_ in binds[r_.id])
                    return False
                if isinstance(e, ast.Name) and e.id in binds:
                    return all(gen_text(v_, depth + 1) for v_ in binds[e.id])
                return False
            return gen_text(call.args[0])
        extra_ok = 0
        if len(allexec) > 1 and reached:
            main_site = sites[0][1] if len(sites) == 1 else None
            others = []
            for mod in ctx.src.own_modules():
                for fn_ in [x for x in ast.walk(mod.tree) if isinstance(x, (ast.FunctionDef, ast.AsyncFunctionDef))]:
                    for n_ in walk_no_nested(fn_):
                        if any(n_ is x for x in allexec) and n_ is not main_site:
                            others.append((n_, fn_))
            if len(others) == len(allexec) - (1 if main_site is not None else 0) and all(_fed_by_generator(n_, f_) for n_, f_ in others):
                extra_ok = len(others)
        if extra_ok:
            ctx.rep.ok(pfx + ".EXEC-SITES", f"{EV}:ExperimentEvaluator.recompile[exec]", f"the exec site reached from recompile, and {extra_ok} "
                       "further site(s) whose code argument is the compiled output of a PythonCodeGen and nothing else")
        else:
            ctx.rep.check(len(allexec) == 1 and reached, pfx + ".EXEC-SITES", f"{EV}:ExperimentEvaluator.recompile[exec]",
                          "exactly one exec/eval site in the package (outside sly), reached from recompile" if len(allexec) == 1 and reached else
                          f"{len(allexec)} dynamic-execution sites in the package, {len(sites)} reached from recompile",
                          text=f"{len(allexec)} exec sites")
    from . import liferules as LF
    life = LF.lifecycle(ctx)
    decided = not life["undecided"]
    if decided and "installed" in facets:
        LF.decide(ctx, rid, ("switched", "fed", "isolated"), ok_text="the attribute a call reads holds the function that exec bound, under the "
                  "experiment's name, from the text generated for THIS call's source (unwrapped); the same holds after the histories A,B,A and "
                  "A,B,A,B, and after a second evaluator was built from / recompiled to another text")
        facets = tuple(f_ for f_ in facets if f_ != "installed")
    if len(sites) != 1:
        if decided:
            if "namespace" in facets:
                for g_ok, l_ok, gtxt, ltype in life["facts"].get("namespaces", []):
                    ctx.rep.check(l_ok, pfx + ".FRESH-NAMESPACE", f"{EV}:ExperimentEvaluator.recompile[exec locals]",
                                  "exec locals is a dict created during this call" if l_ok else
                                  f"exec locals is a {ltype} that outlives the call (compiled names can leak into or come from longer-lived storage)",
                                  text="exec locals (abstract run)")
                    ctx.rep.check(g_ok, pfx + ".FRESH-NAMESPACE", f"{EV}:ExperimentEvaluator.recompile[exec globals]",
                                  "exec globals = the evaluator module's globals (read-only use)" if g_ok else f"exec globals is {gtxt}",
                                  text="exec globals (abstract run)")
            return []
        if strict:
            raise AnalysisError("recompile (with the helpers it calls) no longer contains exactly one exec() call")
        ctx.rep.note("exec site idiom not recognised: installed-function facets skipped for this property")
        return []
    host, ex = sites[0]
    henv, _ = _single_assign_env(host)
    loc = ex.args[2] if len(ex.args) > 2 else next((k.value for k in ex.keywords if k.arg == "locals"), None)
    glb = ex.args[1] if len(ex.args) > 1 else next((k.value for k in ex.keywords if k.arg == "globals"), None)
    con = f"{EV}:ExperimentEvaluator.{host.name}"
    ok = isinstance(loc, ast.Name) and loc.id in henv and isinstance(henv[loc.id], (ast.Dict, ast.Call)) and (
        (isinstance(henv[loc.id], ast.Dict) and not henv[loc.id].keys) or dotted(getattr(henv[loc.id], "func", None)) == "dict")
    if "namespace" in facets:
        ctx.rep.check(ok, pfx + ".FRESH-NAMESPACE", con + "[exec locals]",
                      f"exec locals = `{loc.id}`, an empty dict created in this call" if ok else
                      f"exec locals is {norm(loc) if loc is not None else 'missing'}: not a fresh dict of this call (compiled names "
                      "can leak into or come from longer-lived storage)", site=m.site(ex), text=f"exec locals {norm(loc) if loc is not None else None}")
        gok = glb is None or (isinstance(glb, ast.Constant) and glb.value is None) or (isinstance(glb, ast.Call) and dotted(glb.func) == "globals")
        ctx.rep.check(gok, pfx + ".FRESH-NAMESPACE", con + "[exec globals]", "exec globals = the evaluator module's globals (read-only use)"
                      if gok else f"exec globals is {norm(glb)}", site=m.site(ex), text=f"exec globals {norm(glb) if glb is not None else None}")
    if "installed" not in facets:
        return []
    # values that may be installed into evaluator attributes other than the fingerprint
    assigned = {}
    for st in walk_no_nested(rec):
        if isinstance(st, ast.Assign):
            for t in st.targets:
                if isinstance(t, ast.Name):
                    assigned.setdefault(t.id, []).append(st.value)
    installs = []
    for st in walk_no_nested(rec):
        if isinstance(st, ast.stmt):
            for k, a, rhs in _is_state_write(st, "self", set(), set()):
                if rhs is not None and a != "_checksum":
                    installs.append((st, a, rhs))
    for st, a, rhs in installs:
        vals = assigned.get(rhs.id, [rhs]) if isinstance(rhs, ast.Name) else [rhs]
        cache = None
        for v in vals:
            cache = cache or _wraps_in_cache(ctx, m, v)
        direct = all(isinstance(_subst(v, {k: x for k, x in env.items() if not (ok and k == loc.id)}), ast.Subscript) for v in vals) and host is rec
        if cache:
            ctx.rep.bad(rid, f"{EV}:ExperimentEvaluator.recompile[{a} :=]", f"the compiled function is wrapped by {cache} before it is "
                        "installed: calls with arguments that compare equal (1, 1.0, True) are answered from a cache keyed by ==, so a "
                        "result depends on earlier calls", site=m.site(st), text=f"{a} := cache-wrapped {norm(rhs)[:80]}")
        elif direct:
            ctx.rep.ok(rid, f"{EV}:ExperimentEvaluator.recompile[{a} :=]", f"installs {norm(vals[0])[:50]}: the function object the "
                       "generated code defined", site=m.site(st))
        else:
            ctx.rep.ok(rid, f"{EV}:ExperimentEvaluator.recompile[{a} :=]", f"stores {norm(rhs)[:50]} (no cache wrapper)", site=m.site(st),
                       nontrivial=False)
    return installs


def rule_call_forwards(ctx: Ctx, rid="C09.CALL-FORWARDS", publish=False, no_try=False, aspects=("result", "args")):
    """result: what a call returns is the compiled function's result and nothing before it touches evaluator state (no memo);
    args: the caller's fields reach the compiled function unchanged."""
    m, c = _evaluator(ctx)
    call = m.get_method(c, "__call__")
    a = call.args
    from . import liferules as LF
    if LF.decide_call(ctx, rid, aspects, no_try=no_try):
        if publish:
            _publish_rule(ctx, m, c)
        return
    sig_ok = len(a.args) == 1 and a.kwarg is not None and not a.vararg and not a.kwonlyargs and not a.defaults
    ctx.rep.check(sig_ok, rid, f"{EV}:ExperimentEvaluator.__call__[signature]",
                  "takes only **kwargs" if sig_ok else f"signature is ({norm(a)})", site=m.site(call), text=norm(a))
    kw = a.kwarg.arg if a.kwarg else "kwargs"
    paths = flow.enumerate_paths(call)
    rec = m.get_method(c, "recompile")
    written, inplace = set(), set()
    for p_ in flow.enumerate_paths(rec, resolver=resolver_for(m, c)):
        for st in p_.stmts():
            if isinstance(st, ast.stmt):
                for k, at, rhs in _is_state_write(st, "self", set(), set()):
                    if k in ("instance-container", "instance-nested"):
                        base = at.split("[")[0].split(".")
                        at = base[1] if len(base) > 1 else base[0]
                        inplace.add(at)
                    written.add(at)
    n = 0
    for p in paths:
        if p.exit != "return":
            continue
        n += 1
        v = p.exit_node.value
        result_stmt = None
        if isinstance(v, ast.Name):
            defs = [s_ for s_ in p.stmts() if isinstance(s_, ast.Assign) and len(s_.targets) == 1
                    and isinstance(s_.targets[0], ast.Name) and s_.targets[0].id == v.id]
            if len(defs) == 1 and isinstance(defs[0].value, ast.Call):
                result_stmt, v = defs[0], defs[0].value
        # locals that merely hold a pure load of an evaluator attribute (fn = self.run_experiment)
        loads = {}
        for s_ in p.stmts():
            if isinstance(s_, ast.Assign) and len(s_.targets) == 1 and isinstance(s_.targets[0], ast.Name) \
                    and isinstance(s_.value, ast.Attribute) and dotted(s_.value.value) == "self":
                loads[s_.targets[0].id] = s_
        callee = dotted(v.func) if isinstance(v, ast.Call) else None
        via_local = callee in loads
        direct = isinstance(v, ast.Call) and callee and (callee.startswith("self.") or via_local) and not v.args and \
            len(v.keywords) == 1 and v.keywords[0].arg is None and dotted(v.keywords[0].value) == kw
        others = [s for s in p.stmts() if s is not p.exit_node and not (isinstance(s, ast.Expr) and isinstance(s.value, ast.Constant))
                  and s not in loads.values() and s is not result_stmt and not flow.is_diagnostic_stmt(s)]
        touches_self = [s for s in others if any((isinstance(x, ast.Attribute) and dotted(x.value) == "self") or
                                                 (isinstance(x, ast.Name) and x.id == "self") for x in ast.walk(s))]
        same_callee = isinstance(v, ast.Call) and callee and (callee.startswith("self.") or via_local) and not v.args
        if "args" not in aspects:
            # only the result aspect: local reshaping of the arguments is not this property's business
            direct = bool(same_callee)
            others = touches_self
        elif "result" not in aspects:
            others = [s for s in others if s not in touches_self]
        ctx.rep.check(direct and not others, rid, f"{EV}:ExperimentEvaluator.__call__[{norm(p.exit_node)[:50]}]",
                      f"returns {norm(v)[:50]}: the installed function applied to the caller's fields, nothing else" if direct and not others else
                      f"a call can return `{norm(v)[:60] if v is not None else None}` after {len(others)} other statement(s) "
                      f"({'; '.join(norm(s)[:40] for s in others[:2])}): the result can come from evaluator state (a memo keyed by "
                      "== of the arguments) instead of the compiled function", site=m.site(p.exit_node),
                      text=f"return {norm(v)[:80] if v is not None else None} after {[norm(s)[:40] for s in others[:3]]}")
    ctx.rep.floor("return paths of __call__", n, 1)
    if no_try:
        tries = [t for t in ast.walk(call) if isinstance(t, ast.Try) and t.handlers]
        ctx.rep.check(not tries, rid.split(".")[0] + ".ERRORS-PASS-THROUGH", f"{EV}:ExperimentEvaluator.__call__[exceptions]",
                      "__call__ lets the compiled function's exceptions through unchanged" if not tries else
                      f"__call__ catches exceptions of the compiled function ({norm(tries[0].handlers[0])[:60]}): the class of an error "
                      "can differ from the one the generated stand-alone text raises", site=m.site(tries[0]) if tries else m.site(call),
                      text=norm(tries[0].handlers[0])[:120] if tries else "")
    if not publish:
        return
    _publish_rule(ctx, m, c)


def _publish_rule(ctx: Ctx, m, c):
    rec = m.get_method(c, "recompile")
    written, inplace = set(), set()
    for p_ in flow.enumerate_paths(rec, resolver=resolver_for(m, c)):
        for st in p_.stmts():
            if isinstance(st, ast.stmt):
                for k, at, rhs in _is_state_write(st, "self", set(), set()):
                    if k in ("instance-container", "instance-nested"):
                        base = at.split("[")[0].split(".")
                        at = base[1] if len(base) > 1 else base[0]
                        inplace.add(at)
                    written.add(at)
    # writes made by helpers outside the class (decorators, module functions taking the evaluator) count as well
    for f_ in m.functions().values():
        for x in ast.walk(f_):
            if isinstance(x, (ast.Assign, ast.AugAssign)):
                for t in (x.targets if isinstance(x, ast.Assign) else [x.target]):
                    if isinstance(t, ast.Attribute) and dotted(t.value) == "self":
                        written.add(t.attr)
    # single published attribute read on the call path
    reads = set()
    todo, seen = ["__call__"], set()
    while todo:
        nm = todo.pop()
        if nm in seen:
            continue
        seen.add(nm)
        fn = m.get_method(c, nm, required=False)
        if fn is None:
            continue
        for x in walk_no_nested(fn):
            if isinstance(x, ast.Attribute) and dotted(x.value) == "self" and isinstance(x.ctx, ast.Load):
                if x.attr in written:
                    reads.add(x.attr)
                if m.get_method(c, x.attr, required=False) is not None and x.attr not in written:
                    todo.append(x.attr)
    shared_edit = sorted(reads & inplace)
    ctx.rep.check(len(reads) == 1 and not shared_edit, "C17.SINGLE-STORE-PUBLISH", f"{EV}:ExperimentEvaluator.__call__",
                  f"a call reads exactly one attribute that recompile writes ({sorted(reads)}): it observes the old or the new "
                  "function, never a mixture" if len(reads) == 1 and not shared_edit else
                  (f"a call reads self.{shared_edit[0]}, a container that recompile edits in place: a call racing a recompile can see it "
                   "half-updated (or fail iterating it)" if shared_edit else
                   f"a call reads {len(reads)} attributes written by recompile ({sorted(reads)}): racing a recompile it can combine "
                   "the old value of one with the new value of the other"), text=f"reads {sorted(reads)}")


def _call_path_reads(m: Module, c, start="__call__", whole_written=()):
    """Instance attributes read when the evaluator is called: __call__ and, transitively, the methods and properties of
    the class it goes through (a name that recompile overwrites as a whole is a slot, not a method to follow)."""
    props = {f.name for f in c.body if isinstance(f, ast.FunctionDef) and any(dotted(d) in ("property", "functools.cached_property", "cached_property")
                                                                             for d in f.decorator_list)}
    methods = {f.name: f for f in c.body if isinstance(f, (ast.FunctionDef, ast.AsyncFunctionDef))}
    reads, seen, todo = {}, set(), [start]
    while todo:
        name = todo.pop()
        if name in seen or name not in methods:
            continue
        seen.add(name)
        f = methods[name]
        self_name = f.args.args[0].arg if f.args.args else "self"
        for n in ast.walk(f):
            if isinstance(n, ast.Attribute) and isinstance(n.ctx, ast.Load) and dotted(n.value) == self_name:
                if n.attr in methods and n.attr not in whole_written:
                    todo.append(n.attr)        # a method call or a property read
                    if n.attr in props:
                        continue
                else:
                    reads.setdefault(n.attr, (f, n))
    return reads


def rule_history_free(ctx: Ctx, rid="C11.HISTORY-FREE"):
    """After a successful recompile an evaluator is a function of the text it accepted last: every piece of instance state
    a call reads is replaced as a whole by recompile, never grown or edited in place from what earlier texts left there."""
    m, c = _evaluator(ctx)
    rec = m.get_method(c, "recompile")
    self_name = rec.args.args[0].arg
    paths = flow.enumerate_paths(rec, resolver=resolver_for(m, c))
    whole_any = set()
    per_path = []
    for p in paths:
        if p.exit == "raise":
            continue
        whole, inplace = {}, []
        for i, st in enumerate(p.stmts()):
            if not isinstance(st, ast.stmt):
                continue
            for k, a, rhs in _is_state_write(st, self_name, set(), set()):
                if k == "instance" and not isinstance(st, ast.AugAssign):
                    whole.setdefault(a, i)
                elif k in ("instance-container", "instance-nested") or (k == "instance" and isinstance(st, ast.AugAssign)):
                    base = a if k == "instance" else (a.split("[")[0].split(".")[1] if "." in a else a)
                    const_key = False
                    if isinstance(st, ast.Assign):
                        for t in st.targets:
                            if isinstance(t, ast.Subscript) and isinstance(t.slice, ast.Constant):
                                const_key = True
                    inplace.append((i, base, st, const_key))
        whole_any |= set(whole)
        per_path.append((p, whole, inplace))
    reads = _call_path_reads(m, c, whole_written=whole_any)
    ctx.rep.unit(f"{EV}:ExperimentEvaluator.__call__ (reads {sorted(reads)})")
    n = 0
    reported = set()
    for p, whole, inplace in per_path:
        for i, base, st, const_key in inplace:
            if base not in reads:
                continue
            n += 1
            fresh_first = base in whole and whole[base] < i
            if fresh_first or const_key:
                continue
            key = norm(st)
            if key in reported:
                continue
            reported.add(key)
            ctx.rep.bad(rid, f"{EV}:ExperimentEvaluator.recompile[{base}]", f"`{norm(st)[:70]}` edits self.{base} in place without replacing it "
                        f"first, and a call reads self.{base} ({reads[base][0].name}): what the evaluator serves depends on the texts it "
                        "accepted before, not only on the last one", site=m.site(st), text=key[:100])
    for a in sorted(reads):
        if a in whole_any:
            ctx.rep.ok(rid, f"{EV}:ExperimentEvaluator[{a}]", f"read by a call ({reads[a][0].name}) and replaced as a whole by each successful recompile")
        elif a not in {b for _, _, ip in per_path for _, b, _, _ in ip}:
            ctx.rep.ok(rid, f"{EV}:ExperimentEvaluator[{a}]", f"read by a call ({reads[a][0].name}); recompile never writes it", nontrivial=False)
    ctx.rep.floor("instance attributes read on the call path", len(reads), 1)


def rule_init_delegates(ctx: Ctx, rid="C11.INIT-DELEGATES"):
    """Construction is the first load: __init__ hands its source to self.recompile unconditionally and lets a failure
    propagate (no object results).  Initialising other instance attributes around the call is not a deviation."""
    m, c = _evaluator(ctx)
    init = m.get_method(c, "__init__")
    src_params = [a.arg for a in init.args.args[1:] + init.args.kwonlyargs]

    def is_recompile(st):
        v = st.value if isinstance(st, (ast.Expr, ast.Assign, ast.Return)) else None
        return isinstance(v, ast.Call) and dotted(v.func) == "self.recompile"
    top = [st for st in init.body if is_recompile(st)]
    nested = [n for n in ast.walk(init) if isinstance(n, ast.Call) and dotted(n.func) == "self.recompile"]
    body = [s for s in init.body if not (isinstance(s, ast.Expr) and isinstance(s.value, ast.Constant))]
    why = ""
    if not nested:
        why = "__init__ never calls self.recompile: constructing an evaluator loads nothing"
    elif not top:
        # the only accepted wrapper: try/except whose handlers all re-raise
        tries = [t for t in ast.walk(init) if isinstance(t, ast.Try) and any(x is nested[0] for b_ in t.body for x in ast.walk(b_))]
        if tries and all(h.body and isinstance(h.body[-1], ast.Raise) for t in tries for h in t.handlers) and \
                not any(isinstance(x, (ast.If, ast.For, ast.While)) and any(y is nested[0] for y in ast.walk(x)) for x in ast.walk(init)):
            why = ""
        else:
            why = "the recompile call in __init__ is conditional or its failure can be swallowed: " + norm(body[0])[:60]
    else:
        call = top[0].value
        args = [norm(a) for a in call.args] + [norm(k.value) for k in call.keywords]
        if not args or not any(a in src_params for a in args):
            why = f"__init__ calls recompile({', '.join(args)}) - not with the source it was given"
    ok = not why
    ctx.rep.check(ok, rid, f"{EV}:ExperimentEvaluator.__init__", "__init__ passes its source to recompile unconditionally and lets a failure "
                  "propagate (a failed construction yields no object)" if ok else why, site=m.site(init),
                  text=" ; ".join(norm(s)[:60] for s in body if is_recompile(s) or not ok))


def rule_none_is_error(ctx: Ctx, rid="C06.NONE-IS-ERROR"):
    from . import liferules as LF
    if LF.decide(ctx, rid, ("none", "atomic"), only=lambda con: "returns None" in con,
                 ok_text="when parse_source returns None recompile raises and has changed nothing"):
        return
    m, c = _evaluator(ctx)
    rec = m.get_method(c, "recompile")
    paths = flow.enumerate_paths(rec, resolver=resolver_for(m, c))
    # on every path that uses the parse result, an `is None` test with a raising true arm came first
    parse_names = set()
    every = {id(x): x for p_ in paths for x in p_.stmts()}.values()
    for st in every:
        if isinstance(st, ast.Assign) and isinstance(st.value, ast.Call) and dotted(st.value.func) == "parse_source":
            for t in st.targets:
                if isinstance(t, ast.Name):
                    parse_names.add(t.id)
    if not parse_names:
        raise AnalysisError("recompile does not bind the result of parse_source to a name: idiom not recognised")
    nm = sorted(parse_names)[0]
    bad = None
    n = 0
    for p in paths:
        tested = False
        for ev in p.events:
            if isinstance(ev, tuple) and ev[0] == "test":
                f = flow._fact_of(ev[1], ev[2])
                if f and f[0] == nm and f[1] in ("notnone", "truthy"):
                    tested = True
                continue
            if isinstance(ev, ast.AST):
                uses = [x for x in ast.walk(ev) if isinstance(x, ast.Name) and x.id == nm and isinstance(x.ctx, ast.Load)]
                assigns_it = isinstance(ev, ast.Assign) and any(isinstance(t, ast.Name) and t.id == nm for t in ev.targets)
                if uses and not assigns_it and not tested and not isinstance(ev, ast.Raise):
                    bad = ev
        none_seen = any(isinstance(ev, tuple) and ev[0] == "test" and (flow._fact_of(ev[1], ev[2]) or (None, None))[0] == nm
                        and flow._fact_of(ev[1], ev[2])[1] in ("none", "falsy") for ev in p.events)
        if none_seen:
            n += 1
            if p.exit != "raise":
                bad = bad or p.exit_node or rec
    ctx.rep.check(bad is None and n >= 1, rid, f"{EV}:ExperimentEvaluator.recompile[{nm}]",
                  f"a None parse result raises before `{nm}` is used" if bad is None and n >= 1 else
                  f"the parse result `{nm}` is used without a preceding `is None` test that raises" +
                  (f" at {norm(bad)[:60]}" if isinstance(bad, ast.AST) else ""), site=m.site(rec), text=f"none-check of {nm}")


# ------------------------------------------------------------------ C16 contract of deterministic_choice
def rule_args_unmodified(ctx: Ctx, rid="C16.ARGS-UNMODIFIED"):
    m, fn = _choice(ctx)
    params = [a.arg for a in fn.args.args + fn.args.kwonlyargs]
    tracked = set(params[1:])      # population, weights, cum_weights
    # may-alias dataflow: a parameter name rebound to another object stops denoting the caller's object from there on
    probs = alias_mutations(m, fn, lambda e: False, param_aliases=tracked, resolve=resolver_for(m))
    for st in walk_no_nested(fn):
        if isinstance(st, ast.Assign):
            for t in st.targets:
                if isinstance(t, ast.Name) and t.id in tracked:
                    v = st.value
                    fresh = (isinstance(v, ast.Call) and not (isinstance(v.func, ast.Attribute) and dotted(v.func.value) in tracked)) \
                        or (isinstance(v, ast.Name) and v.id not in tracked) or isinstance(v, (ast.List, ast.ListComp, ast.Tuple, ast.BinOp))
                    ctx.rep.check(fresh, rid, f"{BIN}:deterministic_choice[{t.id} :=]",
                                  f"{t.id} is rebound to {norm(v)[:40]} (not the caller's object), the caller's object is untouched" if fresh else
                                  f"{t.id} is rebound to {norm(v)[:50]}, which may alias the caller's object", site=m.site(st), text=norm(st))
    con = f"{BIN}:deterministic_choice"
    if probs:
        st, why = probs[0]
        ctx.rep.bad(rid, con, f"the caller's argument (or an alias of it) is changed in place: {why}", site=m.site(st), text=norm(st)[:100])
    else:
        ctx.rep.ok(rid, con, f"no mutating operation on {sorted(tracked)} or an alias", site=m.site(fn))


def rule_returns_element(ctx: Ctx, rid="C16.RETURNS-ELEMENT"):
    m, fn = _choice(ctx)
    pop = fn.args.args[1].arg
    rets = [n for n in walk_no_nested(fn) if isinstance(n, ast.Return)]
    ctx.rep.floor("return statements of deterministic_choice", len(rets), 3)
    rnd = {k for k, v in m.imports.items() if v == ("random", "choices")}
    for r in rets:
        v = r.value
        ok = False
        why = ""
        elem_vars = set()
        for lp in [x for x in walk_no_nested(fn) if isinstance(x, ast.For)]:
            it, tg = lp.iter, lp.target
            if isinstance(it, ast.Name) and it.id == pop and isinstance(tg, ast.Name):
                elem_vars.add(tg.id)
            if isinstance(it, ast.Call) and dotted(it.func) == "zip" and isinstance(tg, ast.Tuple):
                for a_, t_ in zip(it.args, tg.elts):
                    if dotted(a_) == pop and isinstance(t_, ast.Name):
                        elem_vars.add(t_.id)
            if isinstance(it, ast.Call) and dotted(it.func) == "enumerate" and it.args and dotted(it.args[0]) == pop \
                    and isinstance(tg, ast.Tuple) and len(tg.elts) == 2 and isinstance(tg.elts[1], ast.Name):
                elem_vars.add(tg.elts[1].id)
        unpacked = {}
        for a_ in [x for x in walk_no_nested(fn) if isinstance(x, ast.Assign)]:
            t_ = a_.targets[0]
            if isinstance(t_, (ast.Tuple, ast.List)) and len(t_.elts) == 1 and isinstance(t_.elts[0], ast.Name) and isinstance(a_.value, ast.Call):
                unpacked[t_.elts[0].id] = a_.value
        if isinstance(v, ast.Name) and v.id in unpacked and dotted(unpacked[v.id].func) in rnd | {"random.choices"}:
            c = unpacked[v.id]
            kw = {k.arg: k.value for k in c.keywords}
            pos = list(c.args)
            popv = kw.get("population") or (pos[0] if pos else None)
            wv = kw.get("weights") or (pos[1] if len(pos) > 1 else None)
            forwards = dotted(popv) == pop and dotted(wv) == "weights" and dotted(kw.get("cum_weights")) == "cum_weights" \
                and isinstance(kw.get("k"), ast.Constant) and kw["k"].value == 1
            ok, why = forwards, "the single item of random.choices(population, weights, cum_weights=cum_weights, k=1)"
        elif isinstance(v, ast.Name) and v.id in elem_vars:
            ok, why = True, f"a loop variable ranging over {pop}"
        elif isinstance(v, ast.Subscript) and dotted(v.value) == pop and not isinstance(v.slice, ast.Slice):
            ok, why = True, f"an element read of {pop}"
        elif isinstance(v, ast.Subscript) and isinstance(v.value, ast.Call) and dotted(v.value.func) in rnd | {"random.choices"}:
            c = v.value
            kw = {k.arg: k.value for k in c.keywords}
            popv = kw.get("population") or (c.args[0] if c.args else None)
            if "weights" not in kw and len(c.args) > 1:
                kw["weights"] = c.args[1]
            forwards = dotted(popv) == pop and dotted(kw.get("weights")) == "weights" and dotted(kw.get("cum_weights")) == "cum_weights" \
                and isinstance(kw.get("k"), ast.Constant) and kw["k"].value == 1 and _const_int(v.slice) == 0
            ok, why = forwards, "random.choices(population, weights=weights, cum_weights=cum_weights, k=1)[0]" if forwards else \
                f"random.choices called with {norm(c)[:80]}"
        ctx.rep.check(ok, rid, f"{BIN}:deterministic_choice[{norm(r)[:50]}]",
                      f"returns {why}" if ok else f"returns {norm(v)[:70] if v is not None else None}, not an element of the population",
                      site=m.site(r), text=norm(r)[:120])


GUARDS = [
    ("length", "ValueError", lambda t: "len(" in t and "n" in t),
    ("positive-total", "ValueError", lambda t: "total" in t and ("<=" in t or "<" in t or ">" in t)),
    ("finite-total", "ValueError", lambda t: "isfinite" in t or "isinf" in t or "isnan" in t),
]


def _orig_param_facts(p):
    """Facts established by tests on a name *before* its first assignment on the path
    (i.e. about the caller's argument)."""
    assigned, facts = set(), {}
    depth = 0
    last_ret, last_call, last_fn = None, None, None
    for e in p.events:
        if isinstance(e, tuple) and e[0] == "enter":
            depth += 1
            last_fn, last_call, last_ret = e[1], e[2], None
            continue
        if isinstance(e, tuple) and e[0] == "leave":
            depth -= 1
            continue
        if depth > 0:
            if isinstance(e, ast.Return):
                last_ret = e.value
            if isinstance(e, tuple) and e[0] == "test" and last_fn is not None:
                # a test on a helper's parameter is a test on the caller's argument of that name
                f = flow._fact_of(e[1], e[2])
                ps = [a.arg for a in last_fn.args.args]
                amap = {p_: a_.id for p_, a_ in zip(ps, last_call.args) if isinstance(a_, ast.Name)}
                if f and f[0] in amap and amap[f[0]] not in assigned:
                    facts[amap[f[0]]] = f[1]
            continue
        if isinstance(e, tuple) and e[0] == "test":
            f = flow._fact_of(e[1], e[2])
            if f and f[0] not in assigned:
                facts[f[0]] = f[1]
        elif isinstance(e, ast.AST):
            passthrough = set()
            if isinstance(e, ast.Assign) and last_call is not None and any(x is last_call for x in ast.walk(e)) \
                    and isinstance(last_ret, ast.Name) and last_fn is not None:
                ps = [a.arg for a in last_fn.args.args]
                amap = {p_: a_.id for p_, a_ in zip(ps, last_call.args) if isinstance(a_, ast.Name)}
                for t in e.targets:
                    if isinstance(t, ast.Name) and amap.get(last_ret.id) == t.id:
                        passthrough.add(t.id)     # x = helper(..., x) returned x itself: still the caller's object
            for n in ast.walk(e):
                if isinstance(n, ast.Name) and isinstance(n.ctx, ast.Store) and n.id not in passthrough:
                    assigned.add(n.id)
    return facts


def rule_guards(ctx: Ctx, rid="C16.GUARDS"):
    """Every path that returns for a non-None id while weights of either kind may be present has
    evaluated the three documented guards (false), and the both-kinds combination raises
    TypeError; each guard's true arm raises the documented class."""
    m, fn = _choice(ctx)
    idp = fn.args.args[0].arg
    paths = flow.enumerate_paths(fn, resolver=resolver_for(m))
    con = f"{BIN}:deterministic_choice"
    env, _ = _single_assign_env(fn)
    n = 0
    for p in paths:
        if p.exit != "return" or p.facts.get(idp) == "none":
            continue
        of = _orig_param_facts(p)
        if of.get("weights") == "none" and of.get("cum_weights") == "none":
            continue      # nothing to validate on the unweighted path
        n += 1
        tests = [(norm(e[1]) + " || " + norm(_subst(e[1], env)), e[2]) for e in p.events if isinstance(e, tuple) and e[0] == "test"]
        missing = []
        for name, _, pred in GUARDS:
            hit = [t for t, truth in tests if pred(t)]
            if not hit:
                missing.append(name)
        # the finiteness guard has to reject both an infinite and a NaN total (NaN also slips through `total <= 0`)
        fin = " ".join(t for t, _ in tests if "isfinite" in t or "isinf" in t or "isnan" in t)
        if fin and "isfinite" not in fin and not ("isinf" in fin and "isnan" in fin):
            missing.append("finite-total (the test used lets a NaN total through)" if "isinf" in fin else
                           "finite-total (the test used lets an infinite total through)")
        orig = _orig_param_facts(p)
        both_known = {orig.get("weights"), orig.get("cum_weights")} & {"none"}
        if not both_known:
            missing.append("not-both-kinds")
        ctx.rep.check(not missing, rid, con + f"[return path: {norm(p.exit_node)[:40]} | {', '.join(t for t, _ in tests)[:80]}]",
                      "all documented guards were evaluated before the search" if not missing else
                      f"a weighted call can return without the guard(s) {missing} having been evaluated "
                      f"(path conditions: {[(t[:30], tr) for t, tr in tests]})", site=m.site(p.exit_node),
                      text=f"{norm(p.exit_node)[:60]} missing {missing}")
    ctx.rep.floor("weighted return paths", n, 2)
    # raising arms
    n2 = 0
    for p in paths:
        if p.exit != "raise" or not isinstance(p.exit_node, ast.Raise):
            continue
        exc = p.exit_node.exc
        cls = dotted(exc.func) if isinstance(exc, ast.Call) else dotted(exc)
        tests = [(norm(e[1]) + " || " + norm(_subst(e[1], env)), e[2]) for e in p.events if isinstance(e, tuple) and e[0] == "test"]
        last = tests[-1][0] if tests else ""
        want = None
        for name, c, pred in GUARDS:
            if pred(last):
                want = (name, c)
        of = _orig_param_facts(p)
        if want is None and of.get("weights") == "notnone" and of.get("cum_weights") == "notnone":
            want = ("both-kinds", "TypeError")
        if want is None:
            continue
        n2 += 1
        ctx.rep.check(cls == want[1], "C16.GUARD-CLASS", con + f"[{want[0]}]",
                      f"{want[0]} violation raises {cls}" if cls == want[1] else f"{want[0]} violation raises {cls}, documented: {want[1]}",
                      site=m.site(p.exit_node), text=f"{want[0]} -> {cls}")
    seen = {o.construct for o in ctx.rep.obs if o.rule == "C16.GUARD-CLASS"}
    ctx.rep.floor("documented error arms", len(seen), 4)


def rule_unweighted(ctx: Ctx, rid="C16.UNWEIGHTED"):
    m, fn = _choice(ctx)
    env, _ = _single_assign_env(fn)
    pop = fn.args.args[1].arg
    hits = []
    for r in [n for n in walk_no_nested(fn) if isinstance(n, ast.Return)]:
        v = r.value
        if isinstance(v, ast.Subscript) and dotted(v.value) == pop:
            t = norm(_subst(v.slice, env))
            if "floor" in t or t.startswith("int("):
                hits.append((r, t))
    if not hits:
        raise AnalysisError("unweighted path `population[floor(u*n)]` not found: idiom not recognised")
    for r, t in hits:
        ok = t in ("_floor(deterministic_proba(input_id) * len(population))", "floor(deterministic_proba(input_id) * len(population))",
                   "math.floor(deterministic_proba(input_id) * len(population))", "int(deterministic_proba(input_id) * len(population))")
        ctx.rep.check(ok, rid, f"{BIN}:deterministic_choice[{norm(r)[:50]}]",
                      "no weights: index = floor(u * len(population)) (equal shares)" if ok else f"unweighted index is {t}",
                      site=m.site(r), text=t)


# ------------------------------------------------------------------ C18 stats
def rule_stats(ctx: Ctx):
    import sympy as sp
    m = ctx.mod("utils/stats.py")
    probit = m.get_function("probit")
    ci = m.get_function("confidence_interval")
    ctx.rep.unit("utils/stats.py:probit")
    ctx.rep.unit("utils/stats.py:confidence_interval")
    sym = {"pi": sp.pi}
    a = sp.Symbol("alpha", positive=True)
    n, p, conf, z = sp.Symbol("n", positive=True), sp.Symbol("p", nonnegative=True), sp.Symbol("confidence", positive=True), \
        sp.Symbol("z", nonnegative=True)

    MATH_CONST = {"pi": sp.pi, "e": sp.E, "inf": sp.oo, "tau": 2 * sp.pi}

    def instance_of(e, mod):
        """(class module, ClassDef, {field: sympy value}) if `e` names a module-level instance `X = C(...)` of a plain
        (data)class of the package; else None."""
        if not isinstance(e, ast.Name):
            return None
        m2, node = ctx.src.resolve_name(mod, e.id)
        val = getattr(node, "value", None)
        if not (isinstance(node, (ast.Assign, ast.AnnAssign)) and isinstance(val, ast.Call) and dotted(val.func)):
            return None
        m3, cnode = ctx.src.resolve_name(m2, dotted(val.func).split(".")[0])
        if not isinstance(cnode, ast.ClassDef):
            return None
        fields, defaults = [], {}
        for st in cnode.body:
            if isinstance(st, ast.AnnAssign) and isinstance(st.target, ast.Name):
                fields.append(st.target.id)
                if st.value is not None:
                    defaults[st.target.id] = st.value
        init = next((f_ for f_ in cnode.body if isinstance(f_, ast.FunctionDef) and f_.name == "__init__"), None)
        if init is not None or not fields:
            return None          # only dataclass-style classes whose fields are their constructor arguments
        vals = {}
        for k_, dv in defaults.items():
            vals[k_] = to_sym(dv, dict(sym), m3)
        for k_, a_ in zip(fields, val.args):
            vals[k_] = to_sym(a_, dict(sym), m2)
        for kw in val.keywords:
            if kw.arg:
                vals[kw.arg] = to_sym(kw.value, dict(sym), m2)
        if set(fields) - set(vals):
            return None
        return m3, cnode, vals

    def to_sym(e, env, mod=None):
        mod = mod or m
        if isinstance(e, ast.Constant) and isinstance(e.value, (int, float)):
            return sp.Rational(str(e.value)) if isinstance(e.value, float) else sp.Integer(e.value)
        if isinstance(e, ast.Name):
            if e.id in env:
                return env[e.id]
            mm_, node = ctx.src.resolve_name(mod, e.id)
            if isinstance(node, tuple) and node[0] == "ext" and node[1] == "math" and node[2] in MATH_CONST:
                return MATH_CONST[node[2]]
            val = getattr(node, "value", None)
            if isinstance(val, (ast.Constant, ast.BinOp, ast.Call, ast.UnaryOp)):
                return to_sym(val, dict(sym), mm_ or mod)
            raise AnalysisError(f"stats: unknown name {e.id}")
        if isinstance(e, ast.Attribute) and dotted(e) in ("math.pi", "math.e", "math.inf", "math.tau"):
            return MATH_CONST[e.attr]
        if isinstance(e, ast.Attribute) and isinstance(e.value, ast.Name) and ("self", e.attr) in env:
            return env[("self", e.attr)]
        if isinstance(e, ast.Call) and isinstance(e.func, ast.Attribute) and not e.keywords:
            inst = instance_of(e.func.value, mod)
            if inst is not None:
                m3, cnode, vals = inst
                meth = next((f_ for f_ in cnode.body if isinstance(f_, ast.FunctionDef) and f_.name == e.func.attr), None)
                if meth is not None and not meth.decorator_list:
                    mval = _helper_value(m3, meth)
                    ps = [a_.arg for a_ in meth.args.args][1:]
                    args_ = [to_sym(x, env, mod) for x in e.args]
                    if mval is not None and len(ps) == len(args_):
                        sname = meth.args.args[0].arg
                        env2 = {**sym, **dict(zip(ps, args_)), **{("self", k_): v_ for k_, v_ in vals.items()}}
                        # `self.x` reads are resolved through the ("self", x) entries
                        class _S(ast.NodeTransformer):
                            def visit_Attribute(self, n_):
                                if isinstance(n_.value, ast.Name) and n_.value.id == sname:
                                    return ast.copy_location(ast.Attribute(ast.Name("self", ast.Load()), n_.attr, ast.Load()), n_)
                                return self.generic_visit(n_)
                        import copy as _copy
                        return to_sym(_S().visit(_copy.deepcopy(mval)), env2, m3)
        if isinstance(e, ast.BinOp):
            l, r = to_sym(e.left, env, mod), to_sym(e.right, env, mod)
            if isinstance(e.op, ast.Add):
                return l + r
            if isinstance(e.op, ast.Sub):
                return l - r
            if isinstance(e.op, ast.Mult):
                return l * r
            if isinstance(e.op, ast.Div):
                return l / r
            if isinstance(e.op, ast.Pow):
                return l ** r
            raise AnalysisError(f"stats: operator {type(e.op).__name__}")
        if isinstance(e, ast.UnaryOp) and isinstance(e.op, ast.USub):
            return -to_sym(e.operand, env, mod)
        if isinstance(e, ast.Call):
            d = dotted(e.func)
            args = [to_sym(x, env, mod) for x in e.args]
            fmap = {"abs": sp.Abs, "log": sp.log, "math.log": sp.log, "sqrt": sp.sqrt, "math.sqrt": sp.sqrt, "atanh": sp.atanh,
                    "math.atanh": sp.atanh, "exp": sp.exp, "math.exp": sp.exp, "fabs": sp.Abs, "math.fabs": sp.Abs}
            if d in fmap:
                return fmap[d](*args)
            if d in ("max", "min"):
                return (sp.Max if d == "max" else sp.Min)(*args)
            if d in env and callable(env[d]):
                return env[d](*args)
            f = mod.functions().get(d)
            fmod = mod
            if f is None and d:
                fmod, fnode = ctx.src.resolve_name(mod, d.split(".")[0])
                f = fnode if isinstance(fnode, ast.FunctionDef) and "." not in d else None
            if f is not None and not e.keywords:
                ps = [a_.arg for a_ in f.args.args]
                val = _helper_value(fmod, f)
                if val is not None and len(ps) == len(args):
                    return to_sym(val, {**sym, **dict(zip(ps, args))}, fmod)
            raise AnalysisError(f"stats: call {d} not modelled")
        if isinstance(e, ast.Tuple):
            return tuple(to_sym(x, env, mod) for x in e.elts)
        raise AnalysisError(f"stats: expression {type(e).__name__} not modelled")

    # ---- probit
    penv, _ = _single_assign_env(probit)
    prets = [r for r in walk_no_nested(probit) if isinstance(r, ast.Return)]
    if len(prets) != 1:
        raise AnalysisError("probit is no longer a single return expression")
    pparam = probit.args.args[0].arg
    f = to_sym(_subst(prets[0].value, penv), {**sym, pparam: a})
    ref = sp.sqrt(sp.pi / 8) * sp.Abs(sp.log(a / (1 - a)))
    con = "utils/stats.py:probit"

    def same(x, y, pts):
        """CAS equality, cross-checked numerically on a grid (simplify may not normalise Abs)."""
        d = sp.simplify(x - y)
        if d == 0:
            return True
        try:
            return all(abs(complex(sp.N((x - y).subs(pt)))) < 1e-12 for pt in pts) and sp.simplify(sp.expand_log(x - y, force=True)) == 0
        except Exception:  # noqa: BLE001
            return False
    grid = [{a: sp.Rational(k, 40)} for k in range(1, 40)]
    ok = same(f, ref, grid) or all(abs(float(sp.N((f - ref).subs(pt)))) < 1e-12 for pt in grid)
    ex = sp.Rational(3, 4)
    if not ok:
        for pt in grid:
            try:
                if abs(complex(sp.N((f - ref).subs(pt)))) > 1e-12:
                    ex = pt[a]
                    break
            except Exception:  # noqa: BLE001
                pass
    ctx.rep.check(ok, "C18.FORMULA", con, "probit(alpha) == sqrt(pi/8) * |ln(alpha/(1-alpha))| (CAS normal form)" if ok else
                  f"probit computes {f}, which differs from the documented sqrt(pi/8)*|ln(alpha/(1-alpha))| "
                  f"(e.g. at alpha={float(ex):g}: {sp.N(f.subs(a, ex), 6)} vs {sp.N(ref.subs(a, ex), 6)})",
                  site=m.site(probit), text=f"probit = {f}")
    symm = all(abs(float(sp.N((f - f.subs(a, 1 - a)).subs(pt)))) < 1e-12 for pt in grid)
    ctx.rep.check(symm, "C18.SYMMETRIC", con, "probit(alpha) == probit(1-alpha)" if symm else
                  "probit is not symmetric about 1/2", site=m.site(probit), text=f"symmetry of {f}")
    nonneg = all(float(sp.N(f.subs(pt))) >= 0 for pt in grid)
    ctx.rep.check(nonneg, "C18.ORDERED-ENDPOINTS", con + "[z >= 0]", "the z-score is non-negative on (0,1)" if nonneg else
                  f"the z-score is negative for some alpha (e.g. {next(pt[a] for pt in grid if float(sp.N(f.subs(pt))) < 0)})",
                  site=m.site(probit), text=f"sign of {f}")

    # ---- confidence_interval: enumerate paths
    paths = flow.enumerate_paths(ci)      # helpers are inlined at expression level by to_sym
    ctx.rep.unit(f"paths of confidence_interval: {len(paths)}")
    params = [x.arg for x in ci.args.args]
    if params[:4] != ["n", "p", "confidence", "method"]:
        raise AnalysisError(f"confidence_interval parameters changed: {params}")
    refs = {
        "agresti-coull": lambda zz: ((p * n + zz ** 2 / 2) / (n + zz ** 2),
                                     zz * sp.sqrt(((p * n + zz ** 2 / 2) / (n + zz ** 2)) * (1 - (p * n + zz ** 2 / 2) / (n + zz ** 2)) / (n + zz ** 2))),
        "wald": lambda zz: (p, zz * sp.sqrt(p * (1 - p) / n)),
    }
    seen_methods = set()
    cenv, _ = _single_assign_env(ci)

    def is_method_expr(x):
        """`method` possibly passed through str methods that keep it a name (lower/strip/casefold)."""
        x = _subst(x, cenv)
        while isinstance(x, ast.Call) and isinstance(x.func, ast.Attribute) and x.func.attr in ("lower", "strip", "casefold", "upper") \
                and not x.args:
            x = x.func.value
        return isinstance(x, ast.Name) and x.id == "method"
    for pth in paths:
        # which method does this path stand for?
        meth = None
        unknown_tests = []
        extra_conditions = []
        reassigned = None
        for e in pth.events:
            if isinstance(e, ast.Assign) and any(isinstance(t_, ast.Name) and t_.id == "method" for t_ in e.targets):
                if not is_method_expr(e.value):       # method = method.lower() keeps the name
                    reassigned = norm(e.value)
                continue
            if isinstance(e, tuple) and e[0] == "test":
                t, truth = e[1], e[2]
                lit = None
                if isinstance(t, ast.Compare) and len(t.ops) == 1 and is_method_expr(t.left):
                    c0 = t.comparators[0]
                    if isinstance(t.ops[0], ast.Eq) and isinstance(c0, ast.Constant):
                        lit = [c0.value]
                    elif isinstance(t.ops[0], ast.NotEq) and isinstance(c0, ast.Constant):
                        lit = [c0.value]
                        truth = not truth          # `m != X` being false means the method is X
                    elif isinstance(t.ops[0], ast.In):
                        if isinstance(c0, (ast.Tuple, ast.List, ast.Set)) and all(isinstance(x, ast.Constant) for x in c0.elts):
                            lit = [x.value for x in c0.elts]
                        elif isinstance(c0, ast.Constant) and isinstance(c0.value, str):
                            ctx.rep.bad("C18.UNKNOWN-REFUSED", "utils/stats.py:confidence_interval[method test]",
                                        f"`{norm(t)}` tests membership in the *string* {c0.value!r}: every substring of it ('', 'w', "
                                        "'al', ...) is accepted as a method name instead of being refused", site=m.site(t), text=norm(t))
                            lit = [c0.value]
                        elif isinstance(c0, ast.Name):
                            mm_, node = ctx.src.resolve_name(m, c0.id)
                            val = getattr(node, "value", None)
                            if isinstance(val, ast.Constant) and isinstance(val.value, str):
                                ctx.rep.bad("C18.UNKNOWN-REFUSED", "utils/stats.py:confidence_interval[method test]",
                                            f"`{norm(t)}`: {c0.id} is the string {val.value!r} (a one-element tuple needs a trailing "
                                            "comma), so every substring of it is accepted as a method name", site=m.site(t), text=norm(t))
                                lit = [val.value]
                            elif isinstance(val, (ast.Tuple, ast.List, ast.Set)) and all(isinstance(x, ast.Constant) for x in val.elts):
                                lit = [x.value for x in val.elts]
                if lit is None:
                    # a test that is not (only) about the method name: both outcomes are explored as opaque conditions;
                    # a conjunct about the method still selects it
                    sub = [x for x in ast.walk(t) if isinstance(x, ast.Compare) and len(x.ops) == 1 and is_method_expr(x.left)
                           and isinstance(x.ops[0], ast.Eq) and isinstance(x.comparators[0], ast.Constant)]
                    if sub and truth and isinstance(t, ast.BoolOp) and isinstance(t.op, ast.And):
                        meth = str(sub[0].comparators[0].value).lower()
                    extra_conditions.append(norm(t))
                    continue
                if truth:
                    meth = next((k for k in refs if k in [str(x).lower() for x in lit]), lit[0])
        if unknown_tests:
            raise AnalysisError(f"confidence_interval: test not understood: {unknown_tests[0]}")
        con = f"utils/stats.py:confidence_interval[{meth or 'no known method'}]"
        if reassigned is not None:
            ctx.rep.bad("C18.FORMULA", con + "[method reassigned]", f"on a path ({'; '.join(extra_conditions)[:80]}) the requested method is "
                        f"replaced by {reassigned}: the result is not the formula of the method that was asked for",
                        site=m.site(ci), text=f"method := {reassigned} under {extra_conditions[:1]}")
            continue
        if meth is None:
            ok = pth.exit == "raise"
            ctx.rep.check(ok, "C18.UNKNOWN-REFUSED", con, "a method name matching none of the known ones raises" if ok else
                          f"an unknown method name is not refused: the path {'returns' if pth.exit == 'return' else 'falls off'}",
                          site=m.site(pth.exit_node) if pth.exit_node is not None else m.site(ci), text="unknown method exit " + pth.exit)
            continue
        if pth.exit != "return":
            if pth.exit == "raise" and meth not in refs:
                continue
            raise AnalysisError(f"confidence_interval: method {meth} path does not return")
        if meth not in refs:
            ctx.rep.bad("C18.UNKNOWN-REFUSED", con, f"method name {meth!r} is accepted and computed, but is not a documented method",
                        site=m.site(pth.exit_node), text=f"extra method {meth}")
            continue
        seen_methods.add(meth)
        # straight-line evaluation along the path
        env = {**sym, "n": n, "p": p, "confidence": conf}
        zsym = None
        for st in pth.stmts():
            if isinstance(st, ast.Assign) and len(st.targets) == 1 and isinstance(st.targets[0], ast.Tuple) \
                    and isinstance(st.value, ast.Tuple) and len(st.value.elts) == len(st.targets[0].elts):
                vals = [to_sym(v, env) for v in st.value.elts]
                for t_, v_ in zip(st.targets[0].elts, vals):
                    if isinstance(t_, ast.Name):
                        env[t_.id] = v_
                continue
            if isinstance(st, ast.Assign) and len(st.targets) == 1 and isinstance(st.targets[0], ast.Name):
                nm = st.targets[0].id
                if isinstance(st.value, ast.Call) and dotted(st.value.func) == "probit":
                    arg = to_sym(st.value.args[0], env)
                    okz = sp.simplify(arg - (1 - conf) / 2) == 0
                    ctx.rep.check(okz, "C18.FORMULA", "utils/stats.py:confidence_interval[z]",
                                  "z = probit((1-confidence)/2)" if okz else f"z = probit({arg})", site=m.site(st), text=f"z arg {arg}")
                    env[nm] = z
                    zsym = nm
                elif is_method_expr(st.value):
                    continue
                else:
                    env[nm] = to_sym(st.value, env)
        env["probit"] = lambda x: z
        val = to_sym(pth.exit_node.value, env)
        if not (isinstance(val, tuple) and len(val) == 2):
            raise AnalysisError("confidence_interval does not return a pair")
        lo, hi = val
        c_ref, h_ref = refs[meth](z)
        centre, half = sp.simplify((lo + hi) / 2), sp.simplify((hi - lo) / 2)
        pts = [{n: nn, p: sp.Rational(pp, 10), z: sp.Rational(zz, 4)} for nn in (1, 7, 1000) for pp in range(0, 11, 2) for zz in (1, 8, 13)]

        def num_eq(x, y):
            try:
                return all(abs(complex(sp.N((x - y).subs(pt)))) < 1e-9 for pt in pts)
            except Exception:  # noqa: BLE001
                return False
        okc = sp.simplify(centre - c_ref) == 0 or num_eq(centre, c_ref)
        okh = sp.simplify(half - h_ref) == 0 or num_eq(half, h_ref)
        # the pair must be exactly (c - h, c + h) of ONE centre and ONE half-width: no clipping
        exact = num_eq(lo, c_ref - h_ref) and num_eq(hi, c_ref + h_ref)
        ctx.rep.check(okc and okh and exact, "C18.FORMULA", con,
                      f"{meth}: interval == textbook centre -/+ half-width with the module's z" if okc and okh and exact else
                      f"{meth}: returned ({lo}, {hi}) is not (c-h, c+h) of the textbook formula "
                      f"(centre ok={okc}, half-width ok={okh}, endpoints exact={exact})", site=m.site(pth.exit_node),
                      text=f"{meth} -> ({lo}, {hi})")
        ctx.rep.check(exact, "C18.ORDERED-ENDPOINTS", con, "returns (c - h, c + h) with h = z * sqrt(...) >= 0, so lower <= upper"
                      if exact else "endpoints are not c -/+ the same non-negative half-width", site=m.site(pth.exit_node),
                      text=f"{meth} endpoints")
    if not any(not o.ok for o in ctx.rep.obs):
        ctx.rep.floor("documented interval methods analysed", len(seen_methods), 2)
    unk = [o for o in ctx.rep.obs if o.rule == "C18.UNKNOWN-REFUSED"]
    ctx.rep.floor("unknown-method paths", len(unk), 1)


def rule_text_unmodified(ctx: Ctx, rid="C08.TEXT-UNMODIFIED"):
    """The text handed to the lexer is the caller's text itself: parse_source passes its parameter
    to tokenize() and recompile passes its parameter to parse_source, with no rewriting in between."""
    from . import parserules as PS
    from . import liferules as LF
    life = LF.lifecycle(ctx)
    if not PS.parse_semantics(ctx)["undecided"] and not life["undecided"]:
        PS.decide(ctx, rid, ("text", "result"), ok_text="the lexer receives the caller's text itself and the parser receives the lexer's stream")
        wrong = [t for t in life["facts"].get("parse_args_wrong", [])]
        ctx.rep.check(not wrong, rid, f"{EV}:ExperimentEvaluator.recompile[parse_source argument]",
                      "parse_source receives recompile's text unchanged" if not wrong else
                      f"parse_source receives {wrong[0]}, not the text given to recompile", text="parse_source argument (abstract run)")
        return
    wf = ctx.mod(WF)
    ps = wf.get_function("parse_source")
    par = ps.args.args[0].arg
    env, multi = _single_assign_env(ps)
    toks = [c for c in walk_no_nested(ps) if isinstance(c, ast.Call) and isinstance(c.func, ast.Attribute) and c.func.attr == "tokenize"]
    parse_decided = not PS.parse_semantics(ctx)["undecided"]
    if parse_decided:
        # the parse_source half is decided by the two abstract calls; only recompile's half is read off the text below
        PS.decide(ctx, rid, ("text", "result"), ok_text="the lexer receives the caller's text itself and the parser receives the lexer's stream")
    elif len(toks) != 1:
        raise AnalysisError("parse_source no longer contains exactly one tokenize() call")
    arg = toks[0].args[0] if (toks and toks[0].args) else None
    stores = [n for n in walk_no_nested(ps) if isinstance(n, ast.Name) and isinstance(n.ctx, ast.Store) and n.id == par]
    a = _subst(arg, env) if arg is not None else None
    ok = isinstance(a, ast.Name) and a.id == par and not stores
    if not parse_decided:
        ctx.rep.check(ok, rid, f"{WF}:parse_source[tokenize argument]",
                      "the lexer receives the caller's text unchanged" if ok else
                      f"the lexer receives `{norm(a) if a is not None else '?'}`" + (f" ({par} is reassigned: {norm(stores[0])})" if stores else "") +
                      ", not the caller's text: characters are rewritten before lexing (e.g. str.splitlines() also breaks at \\r, "
                      "\\x0c, U+2028, which `//.*` does not treat as a line end)", site=wf.site(toks[0]), text=f"tokenize({norm(a) if a is not None else None})")
    m, c = _evaluator(ctx)
    rec = m.get_method(c, "recompile")
    rp = rec.args.args[1].arg
    renv, _ = _single_assign_env(rec)
    calls = [x for x in walk_no_nested(rec) if isinstance(x, ast.Call) and dotted(x.func) == "parse_source"]
    if not calls:
        # look into the helpers recompile calls: the helper's parameter must be bound to recompile's own parameter
        res = resolver_for(m, c)
        for hc in [x for x in walk_no_nested(rec) if isinstance(x, ast.Call)]:
            f = res(hc)
            if f is None:
                continue
            ps = [a_.arg for a_ in f.args.args]
            if ps and ps[0] in ("self", "cls") and isinstance(hc.func, ast.Attribute):
                ps = ps[1:]
            bind = dict(zip(ps, hc.args))
            for x in walk_no_nested(f):
                if isinstance(x, ast.Call) and dotted(x.func) == "parse_source" and x.args:
                    fenv, _ = _single_assign_env(f)
                    inner = _subst(x.args[0], fenv)
                    if isinstance(inner, ast.Name) and inner.id in bind:
                        import copy
                        y = copy.copy(x)
                        y.args = [bind[inner.id]] + list(x.args[1:])
                        calls.append(y)
                    else:
                        calls.append(x)
    for x in calls:
        a = _subst(x.args[0], renv) if x.args else None
        rstores = [n for n in walk_no_nested(rec) if isinstance(n, ast.Name) and isinstance(n.ctx, ast.Store) and n.id == rp]
        ok = isinstance(a, ast.Name) and a.id == rp and not rstores
        ctx.rep.check(ok, rid, f"{EV}:ExperimentEvaluator.recompile[parse_source argument]",
                      "recompile parses the caller's text unchanged" if ok else f"recompile parses `{norm(a) if a is not None else '?'}`, not the caller's text",
                      site=m.site(x), text=f"parse_source({norm(a) if a is not None else None})")
    ctx.rep.floor("parse_source call sites in recompile", len(calls), 1)


def rule_tokens_truthy(ctx: Ctx, rid="C06.TOKENS-TRUTHY"):
    """sly drops a token when `not tok` (lexer) and ends the input when `not lookahead` (parser):
    token objects must therefore always be truthy - Token must not define __bool__/__len__."""
    m = ctx.mod("sly/lex.py")
    tok = m.get_class("Token")
    bad = [n.name for n in tok.body if isinstance(n, ast.FunctionDef) and n.name in ("__bool__", "__len__")]
    ctx.rep.check(not bad, rid, "sly/lex.py:Token", "Token defines neither __bool__ nor __len__: every token is truthy" if not bad else
                  f"Token defines {bad}: a token can be falsy (e.g. an empty string literal), and `if not tok: continue` in "
                  "Lexer.tokenize then silently drops it", site=m.site(tok), text=f"Token {bad}")
    y = ctx.mod("sly/yacc.py")
    sym = y.get_class("YaccSymbol")
    bad = [n.name for n in sym.body if isinstance(n, ast.FunctionDef) and n.name in ("__bool__", "__len__")]
    ctx.rep.check(not bad, rid, "sly/yacc.py:YaccSymbol", "YaccSymbol is always truthy" if not bad else f"YaccSymbol defines {bad}",
                  site=y.site(sym), text=f"YaccSymbol {bad}")


def rule_no_swallow(ctx: Ctx, rid="C06.NO-SWALLOW"):
    """Nothing on the compile path swallows the lexer's / parser's error: no return/break/continue
    inside a `finally` (it discards the exception in flight) and no handler for the error classes
    that completes normally, in Lexer.tokenize, Parser.parse, parse_source and recompile."""
    targets = [("sly/lex.py", "Lexer", "tokenize"), ("sly/yacc.py", "Parser", "parse"), (WF, None, "parse_source"),
               (EV, "ExperimentEvaluator", "recompile"), (EV, "ExperimentEvaluator", "__init__")]
    n = 0
    for rel, cls, fname in targets:
        m = ctx.mod(rel)
        fn = m.get_method(cls, fname) if cls else m.get_function(fname)
        n += 1
        probs = []
        for t in ast.walk(fn):
            if isinstance(t, ast.Try):
                for st in t.finalbody:
                    for x in ast.walk(st):
                        if isinstance(x, (ast.Return, ast.Break, ast.Continue)):
                            probs.append((x, f"`{norm(x)[:30]}` inside a finally block discards an exception in flight (a LexError raised while "
                                             "tokenising is swallowed and the token stream just ends)"))
                for h in t.handlers:
                    names = [dotted(e) for e in (h.type.elts if isinstance(h.type, ast.Tuple) else [h.type])] if h.type is not None else [None]
                    catches_err = any(nm is None or nm.split(".")[-1] in ("Exception", "BaseException", "LexError", "YaccError", "ParseError", "SyntaxError")
                                      for nm in names)
                    reraises = any(isinstance(x, ast.Raise) for st in h.body for x in ast.walk(st))
                    if catches_err and not reraises and rel in (EV, WF):
                        # only a handler around a compile step can swallow a compile error: a try whose body calls neither the
                        # pipeline (parse / generate / compile / exec), nor another method of the evaluator, nor a function of the
                        # package guards something else (a caller's callback, a log call)
                        pipeline = {"parse_source", "tokenize", "parse", "generate", "compile", "exec", "eval", "recompile", "PythonCodeGen",
                                    "generate_code", "ExperimentLexer", "ExperimentParser"}
                        local_fns = set(m.functions()) | {f_.name for c_ in m.classes().values() for f_ in c_.body if isinstance(f_, ast.FunctionDef)}
                        guarded = False
                        for st in t.body:
                            for x in ast.walk(st):
                                if isinstance(x, ast.Call):
                                    d_ = dotted(x.func) or (x.func.attr if isinstance(x.func, ast.Attribute) else "")
                                    last = d_.split(".")[-1]
                                    if last in pipeline or last in local_fns or d_.split(".")[0] in m.imports and (
                                            m.imports[d_.split(".")[0]][0] or "").startswith("pyab_experiment"):
                                        guarded = True
                        if not guarded:
                            continue
                    if catches_err and not reraises:
                        probs.append((h, f"an except clause for {names} completes normally: the compile error is swallowed"))
        con = f"{rel}:{(cls + '.') if cls else ''}{fname}"
        if probs:
            x, why = probs[0]
            ctx.rep.bad(rid, con, why, site=m.site(x), text=f"{fname}: {why[:80]}")
        else:
            ctx.rep.ok(rid, con, "no construct swallows an error in flight", site=m.site(fn))
    ctx.rep.floor("compile-path functions scanned for swallowed errors", n, 5)


# ------------------------------------------------------------------ interpreter-wide int<->str digit cap
_CAP_CONTROL = """
import sys
_CAP = 640
def lowered_and_kept(text):
    sys.set_int_max_str_digits(_CAP)
    parse(text)
    sys.set_int_max_str_digits(4300)
def lowered_and_restored(text):
    old = sys.get_int_max_str_digits()
    sys.set_int_max_str_digits(640)
    try:
        parse(text)
    finally:
        sys.set_int_max_str_digits(old)
"""


def _unrestored_digit_caps(tree):
    """[(function node, call node, cap)]: calls `sys.set_int_max_str_digits(<constant 1..4299>)` (a cap below CPython's default) in a
    function with no `finally` that calls the setter again: when the step in between raises, the lower cap stays for the process."""
    out = []
    consts = {}
    for st in tree.body:          # module-level integer constants (`_MAX_DIGITS = 640`), assigned once
        tg = st.targets if isinstance(st, ast.Assign) else ([st.target] if isinstance(st, ast.AnnAssign) and st.value is not None else [])
        for t in tg:
            if isinstance(t, ast.Name):
                v = st.value
                consts[t.id] = v.value if (isinstance(v, ast.Constant) and isinstance(v.value, int) and not isinstance(v.value, bool)
                                           and t.id not in consts) else None

    def cap_of(a):
        if isinstance(a, ast.Constant) and isinstance(a.value, int) and not isinstance(a.value, bool):
            return a.value
        if isinstance(a, ast.Name):
            return consts.get(a.id)
        return None
    for fn in ast.walk(tree):
        if not isinstance(fn, (ast.FunctionDef, ast.AsyncFunctionDef)):
            continue
        setter = lambda c: isinstance(c, ast.Call) and (dotted(c.func) or "").split(".")[-1] == "set_int_max_str_digits"   # noqa: E731
        restores = any(setter(c) for t in ast.walk(fn) if isinstance(t, ast.Try) for st in t.finalbody for c in ast.walk(st))
        for c in ast.walk(fn):
            cap = cap_of(c.args[0]) if setter(c) and c.args else None
            if cap is not None and 0 < cap < 4300 and not restores:
                out.append((fn, c, cap))
    return out


def rule_digit_cap_restored(ctx: Ctx, rid="C15.DIGIT-CAP-RESTORED"):
    """The package does not leave CPython's process-wide cap on int <-> str conversion lowered: str() of an int splitter is on every
    evaluation path, so a cap that stays below the default after a failed step makes every later evaluation of a long int raise."""
    control = _unrestored_digit_caps(ast.parse(_CAP_CONTROL))
    if [f.name for f, _, _ in control] != ["lowered_and_kept"]:
        raise AnalysisError("the digit-cap matcher no longer tells its own positive example from the negative one")
    n = 0
    for m in ctx.src.own_modules():
        n += 1
        for fn, c, cap in _unrestored_digit_caps(m.tree):
            ctx.rep.bad(rid, f"{m.rel}:{fn.name}", f"the interpreter-wide cap on int/str conversion is lowered to {cap} digits and no "
                        "`finally` puts it back: when the step in between raises (a text that does not parse), the cap stays for the "
                        f"whole process and every later evaluation of an int splitter with more than {cap} digits raises ValueError in "
                        "the generated `str()`", site=m.site(c), text=f"set_int_max_str_digits({cap}) without finally")
    ctx.rep.ok(rid, "package modules", f"no function of the {n} package modules lowers the int/str digit cap without restoring it in a "
               "`finally` (matcher verified on a positive and a negative example)", nontrivial=False)

"""C14 - generated Python source is equivalent to the in-memory evaluator."""
from . import piperules as PR
from .common import TRUSTED, Ctx


def check(rep):
    ctx = Ctx(rep)
    ctx.shape_options.add("overflow")      # numbers beyond the float range: how they are spelled may need a name the evaluator lacks
    ctx.shape_options.add("skeleton-names")  # fields named like the names the generated module itself uses
    # first the rule that reads the entry points themselves (both must hand the generator's output on, unchanged)
    info = PR.rule_one_generator(ctx)
    PR.rule_compiles(ctx, rid="C14.BOTH-LAYOUTS-PARSE", text_only=True)
    PR.rule_layout_names(ctx)
    from . import evalrules as ER
    ER.rule_call_forwards(ctx, rid="C14.EVALUATOR-FORWARDS", no_try=True)
    # "the evaluator built from the same source": the function it runs is the one compiled from that source, whatever happened before
    # or to other evaluators
    ER.rule_installed_function(ctx, rid="C14.EVALUATOR-RUNS-ITS-TEXT", strict=False, facets=("installed",))
    # ... and a reload that was refused leaves it serving the text it had
    ER.rule_commit_order(ctx, rid="C14.EVALUATOR-KEEPS-ITS-TEXT")
    PR.rule_layouts_agree(ctx)
    PR.rule_depth_unbounded(ctx)
    PR.rule_header_imports(ctx)
    exps = {k: v.get("expose") for k, v in info.items()}
    rep.check(exps.get("recompile") in ("False", "True") and exps.get("generate_code") not in (None, "False", "True"),
              "C14.ONE-GENERATOR", "utils/wraper_functions.py:generate_code[layout flag]",
              f"recompile uses the fixed layout expose={exps.get('recompile')}; generate_code passes its parameter ({exps.get('generate_code')})",
              text=str(exps))
    rep.assume("black.format_str is AST-preserving (its own safety check) - trusted")
    ctx.raise_deferred()
    return ("Sibling agreement: for every shape both layouts instantiate to modules that parse, define the function named by the "
            "experiment, bind every name they read (closure in the nested layout, parameters in the exposed one), and have identical "
            "signature, helper body, key and call; the header imports every free name and each import resolves; the evaluator module "
            "binds the same names to the same objects; both entry points obtain the text from the one generator.", TRUSTED)

"""C13 - source text is inert data."""
from . import evalrules as ER
from . import lexrules as LR
from . import piperules as PR
from .common import TRUSTED, Ctx


def rule_id_charset(ctx, rid="C13.ID-CHARSET"):
    lc = ctx.main
    L = ctx.lexicon(lc.name)
    i = LR.id_rule(ctx)
    atoms = L.used_atoms(i)
    bad = sorted(chr(a) for a in atoms if not (chr(a).isascii() and (chr(a).isalnum() or chr(a) == "_")))
    first = sorted(chr(a) for a in L.first_atoms(i) if chr(a).isdigit())
    ctx.rep.check(not bad and not first, rid, f"language/lexer.py:{lc.name}.{lc.rules[i].name}",
                  "identifier tokens consist of [A-Za-z0-9_] only and do not start with a digit: they are inert as Python names"
                  if not bad and not first else f"identifier tokens may contain {bad[:5]} / start with {first[:3]}",
                  site=lc.rules[i].site, text=lc.rules[i].pattern)


BUILTIN_VALUE_TYPES = {"str", "int", "float", "bytes", "tuple", "list"}
RENDER_DUNDERS = {"__repr__", "__str__", "__format__"}


def _own_value_class(ctx, mod, call):
    """If `call` constructs a class of the package that derives from a built-in value type and defines its own rendering
    (__repr__/__str__/__format__) somewhere in its own-code ancestry: (class name, dunder); else None."""
    import ast
    from pyab_static.srcmodel import dotted
    d = dotted(call.func)
    if not d:
        return None
    m2, node = ctx.src.resolve_name(mod, d.split(".")[0])
    seen = 0
    derives, dunder = False, None
    while isinstance(node, ast.ClassDef) and seen < 6:
        seen += 1
        for st in node.body:
            if isinstance(st, ast.FunctionDef) and st.name in RENDER_DUNDERS and dunder is None:
                dunder = f"{node.name}.{st.name}"
        nxt = None
        for b in node.bases:
            bd = dotted(b) or ""
            if bd.split(".")[-1] in BUILTIN_VALUE_TYPES:
                derives = True
            else:
                m3, n3 = ctx.src.resolve_name(m2, bd.split(".")[0]) if bd else (None, None)
                if isinstance(n3, ast.ClassDef):
                    nxt = (m3, n3)
        if nxt is None:
            break
        m2, node = nxt
    return (d, dunder) if derives and dunder else None


def rule_plain_token_values(ctx, rid="C13.PLAIN-TOKEN-VALUES"):
    """The quoting argument (repr()/ascii() of a str is a Python literal of exactly that str) holds for built-in values.
    A token action that wraps the text in a package class deriving from str/int/... with its own __repr__/__str__/
    __format__ makes every later repr()/str()/f-string of the value run that code instead."""
    import ast
    lc = ctx.main
    n = 0
    for r in lc.rules:
        if r.func is None or r.kind == "trivia" or not r.emits:
            continue
        n += 1
        hit = None
        for c in ast.walk(r.func):
            if isinstance(c, ast.Call):
                hit = hit or _own_value_class(ctx, lc.mod, c)
        con = f"language/lexer.py:{lc.name}.{r.name}"
        ctx.rep.check(hit is None, rid, con, "the token value is built from built-in types only" if hit is None else
                      f"the token value is an instance of {hit[0]}, which derives from a built-in value type and defines {hit[1]}: "
                      "repr()/str()/format() of the value in the generator no longer produce the built-in quoting", site=r.site,
                      text=f"{r.name} value class {hit[0] if hit else '-'}")
    ctx.rep.floor("token actions inspected for value classes", n, 2)
    # the same wrapper introduced later on the way to the generator: grammar actions and model validators
    for rel in ("language/grammar.py", "data_structures/syntax_tree.py"):
        m = ctx.mod(rel)
        hits = []
        for fn in [x for x in ast.walk(m.tree) if isinstance(x, (ast.FunctionDef, ast.AsyncFunctionDef))]:
            for c in ast.walk(fn):
                if isinstance(c, ast.Call):
                    h = _own_value_class(ctx, m, c)
                    if h:
                        hits.append((fn, c, h))
        if hits:
            fn, c, h = hits[0]
            ctx.rep.bad(rid, f"{rel}:{fn.name}", f"constructs {h[0]}, which derives from a built-in value type and defines {h[1]}: if a "
                        "literal is wrapped in it, repr()/str()/format() in the generator run that code", site=m.site(c),
                        text=f"{fn.name} constructs {h[0]}")
        else:
            ctx.rep.ok(rid, rel, "no construction of a built-in-derived class with its own rendering")


def check(rep):
    from pyab_static.absint import ContentDependent
    from pyab_static.core import FloorError
    try:
        return _check(rep)
    except ContentDependent as e:
        rep.bad("C13.STRUCTURE-CONTENT-FREE", "language/grammar.py|codegen: literal text cut into pieces", f"{e}: the structure of the generated program (how many constants, which kinds) is decided by the characters of a literal", text=str(e)[:160])
        raise FloorError(f"stopped at a content-dependent operation on a literal: {e}")


def _check(rep):
    ctx = Ctx(rep)
    ctx.shape_options.add("overflow")      # "any other token": numbers whose value has no literal spelling of its own (inf)
    if rep.tier == "thorough":
        LR.validate_engine(ctx)
    rule_id_charset(ctx)
    rule_plain_token_values(ctx)
    LR.rule_string_delimiters(ctx, rid="C13.STRING-DELIMITERS")
    PR.rule_compiles(ctx, rid="C13.SHAPE-COMPILES", strict=False)
    # a literal must stay a constant whatever its value: a number too large for a float must not surface as the NAME `inf`
    PR.rule_names_bound(ctx, rid="C13.NO-NAME-FROM-LITERAL")
    # the characters of a literal reach the lexer as written: a rewriting of the text (unescaping, stripping, normalising) can turn
    # content into a delimiter
    ER.rule_text_unmodified(ctx, rid="C13.TEXT-UNMODIFIED")
    # whether a string literal stays a string must not depend on its characters: a Union that tries a numeric member first turns
    # "nan" into the name nan and "02134" into a number
    PR.rule_coercions(ctx, rid="C13.STRING-STAYS-STRING")
    PR.rule_renderers(ctx, rid="C13.TAINT", kinds=("str",), extra_safe=("json",))
    PR.rule_string_surface(ctx)
    n = PR.rule_placement(ctx)
    rep.floor("templates checked for hole placement", n, 180)
    PR.rule_constant_skeleton(ctx)
    PR.rule_one_generator(ctx, rid="C13.EXEC-FED-BY-GENERATOR", only=("recompile",))
    ER.rule_installed_function(ctx, rid="C13.EXEC", strict=True, facets=("exec-sites",))
    return ("Taint analysis from the lexer to the emitted text: the values of tokens whose pattern admits characters outside "
            "[A-Za-z0-9_] (strings) are followed through every production that mentions them (coverage sentences from the extracted "
            "grammar) and through the pydantic models into the generator's templates; each must enter the text through repr()/ascii() "
            "and land as exactly one plain constant (not inside an f-string, comment, name or call). The instantiated module "
            "contains only the fixed skeleton's calls and statement kinds; the package has one exec site, fed by the generator's "
            "output alone.", TRUSTED)

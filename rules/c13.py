"""C13 - source text is inert data."""
from . import evalrules as ER
from . import lexrules as LR
from . import piperules as PR
from .common import TRUSTED, Ctx


def rule_id_charset(ctx, rid="C13.ID-CHARSET"):
    lc = ctx.main
    L = ctx.lexicon(lc.name)
    i = LR.id_rule(ctx)
    atoms = L.used_atoms(i)
    bad = sorted(chr(a) for a in atoms if not (chr(a).isascii() and (chr(a).isalnum() or chr(a) == "_")))
    first = sorted(chr(a) for a in L.first_atoms(i) if chr(a).isdigit())
    ctx.rep.check(not bad and not first, rid, f"language/lexer.py:{lc.name}.{lc.rules[i].name}",
                  "identifier tokens consist of [A-Za-z0-9_] only and do not start with a digit: they are inert as Python names"
                  if not bad and not first else f"identifier tokens may contain {bad[:5]} / start with {first[:3]}",
                  site=lc.rules[i].site, text=lc.rules[i].pattern)


def check(rep):
    ctx = Ctx(rep)
    if rep.tier == "thorough":
        LR.validate_engine(ctx)
    rule_id_charset(ctx)
    LR.rule_string_delimiters(ctx, rid="C13.STRING-DELIMITERS")
    PR.rule_compiles(ctx, rid="C13.SHAPE-COMPILES", strict=False)
    PR.rule_renderers(ctx, rid="C13.TAINT", kinds=("str",), extra_safe=("json",))
    PR.rule_string_surface(ctx)
    n = PR.rule_placement(ctx)
    rep.floor("templates checked for hole placement", n, 180)
    PR.rule_constant_skeleton(ctx)
    PR.rule_one_generator(ctx, rid="C13.EXEC-FED-BY-GENERATOR", only=("recompile",))
    ER.rule_installed_function(ctx, rid="C13.EXEC", strict=True, facets=("exec-sites",))
    return ("Taint analysis from the lexer to the emitted text: the values of tokens whose pattern admits characters outside "
            "[A-Za-z0-9_] (strings) are followed through every production that mentions them (coverage sentences from the extracted "
            "grammar) and through the pydantic models into the generator's templates; each must enter the text through repr()/ascii() "
            "and land as exactly one plain constant (not inside an f-string, comment, name or call). The instantiated module "
            "contains only the fixed skeleton's calls and statement kinds; the package has one exec site, fed by the generator's "
            "output alone.", TRUSTED)

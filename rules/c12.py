"""C12 - the published bucketing scheme is pinned."""
from . import evalrules as ER
from . import piperules as PR
from .common import TRUSTED, Ctx


def check(rep):
    ctx = Ctx(rep)
    ER.rule_hash_descriptor(ctx)
    ER.rule_position_slice(ctx, rid="C12.POSITION-FROM-KEY", parts=("arg", "primitive"))
    PR.rule_compiles(ctx, rid="C12.SHAPE-COMPILES", strict=False)
    PR.rule_key(ctx)
    PR.rule_key_order_independent(ctx, rid="C12.ALPHABETICAL")
    PR.rule_locals_shadow_fields(ctx, "C12.FIELDS-NOT-SHADOWED", consequence="the key is then not salt + str() of the splitter values")
    PR.rule_renderers(ctx, rid="C12.SALT-EXACT", kinds=("str",), only_tags=("salt",))
    PR.rule_coercions(ctx, rid="C12.SALT-VALUE", fields={"salt", "splitting_fields"})
    # the salt that is hashed is the text between the quotes, untouched: the string rule's action only drops its delimiters
    from .c05 import rule_token_conv
    salt_tokens = {p.syms[-1] for p in ctx.grammar.prods[1:] if len(p.syms) == 3 and p.syms[-1] in ctx.grammar.terminals
                   and any(p.name in q.syms and q.name == ctx.grammar.by_name(ctx.grammar.start)[0].syms[0] for q in ctx.grammar.prods[1:])}
    rule_token_conv(ctx, rid="C12.SALT-TOKEN-EXACT", only_tokens=salt_tokens or {"STRING_LITERAL"}, floor=1)
    ER.rule_call_forwards(ctx, rid="C12.CALL-FORWARDS")
    ER.rule_installed_function(ctx, rid="C12.INSTALLED-FUNCTION", strict=False, facets=("installed",))
    # "the evaluator's" assignments: an evaluator that skips a recompile for a different text keeps answering for the old experiment
    ER.rule_skip_guard(ctx, rid="C12.SKIP-EXACT")
    # the salt hashed is the salt written: the characters of the text reach the lexer unchanged (a TAB inside a literal stays a TAB)
    ER.rule_text_unmodified(ctx, rid="C12.TEXT-UNMODIFIED")
    ER.rule_value_keyed_caches(ctx, rid="C12.NO-VALUE-KEYED-CACHE", modules={"binning/binning.py", "experiment_evaluator.py"})
    rep.assume("MD5 itself (hashlib) is trusted")
    return ("Abstract evaluation of the source to a canonical scheme descriptor compared with the published one: hash = md5, "
            "encoding utf-8 of the whole key, first 32 bits of the digest, divisor 2**32 (equivalent idioms recognised); key = "
            "salt constant (value-exact renderer, absent salt = '') followed by str() of each splitter in alphabetical order "
            "with the empty separator, None only without splitters; no value-keyed cache sits between the caller and the scheme.",
            TRUSTED)

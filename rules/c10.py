"""C10 - one hash position per unit."""
from . import evalrules as ER
from . import piperules as PR
from .common import TRUSTED, Ctx


def check(rep):
    ctx = Ctx(rep)
    ER.rule_position_slice(ctx)
    ER.rule_hash_pure(ctx, rid="C10.POSITION-FROM-KEY")
    from . import choicerules as CR
    if not CR.report(ctx, "C10", facets=("interior",)):
        ER.rule_choice_search(ctx, rid="C10.MONOTONE-LOCATE", parts=("locate", "prefix"))
    ER.rule_retained_arguments(ctx, rid="C10.NO-RETAINED-ARGUMENT", modules={"binning/binning.py"})
    PR.rule_compiles(ctx, rid="C10.SHAPE-COMPILES", strict=False)
    PR.rule_key(ctx, rid="C10.ONE-KEY", mode="position")
    PR.rule_locals_shadow_fields(ctx, "C10.FIELDS-NOT-SHADOWED", kinds=("assign",), consequence="the key then contains the repr of the chosen partial, i.e. the groups and weights of the branch")
    PR.rule_translation(ctx, rid="C10.DECLARED-ORDER", focus="order")
    rep.assume("the consequence 'no unit moves to a later group when no leading cumulative share decreases' follows from one "
               "position per unit + right bisection on prefix sums by arithmetic; that last step is an argument in DESIGN.md")
    return ("Backward slice of the hash argument at every deterministic_proba call site is the id parameter alone; no second "
            "position primitive in deterministic_choice; the generated module evaluates exactly one key expression, outside the "
            "helper, applied to whichever partial is returned; the key mentions splitters and salt only; groups keep their declared "
            "order; the position is located by bisect on prefix sums.", TRUSTED)

"""C09 - assignment depends only on salt, splitter values and the routed branch."""
from . import evalrules as ER
from . import piperules as PR
from .common import TRUSTED, Ctx


def check(rep):
    ctx = Ctx(rep)
    PR.rule_compiles(ctx, rid="C09.SHAPE-COMPILES", strict=False)
    PR.rule_signature(ctx)
    PR.rule_key(ctx, rid="C09.KEY-FREE-NAMES", mode="names")
    PR.rule_key_order_independent(ctx, rid="C09.ORDER-INDEPENDENT")
    PR.rule_locals_shadow_fields(ctx, "C09.FIELDS-NOT-SHADOWED", consequence="the assignment no longer varies with that splitter's value")
    ER.rule_call_forwards(ctx)
    PR.rule_recompile_like_fresh(ctx, "C09.RECOMPILED-LIKE-FRESH", consequence="a field of an earlier text (no splitter of the current "
                                 "one: a condition field or an extra keyword argument) then enters the key")
    ER.rule_value_keyed_caches(ctx, rid="C09.NO-VALUE-KEYED-CACHE", modules={"binning/binning.py", "experiment_evaluator.py"})
    ER.rule_installed_function(ctx, rid="C09.ID-ONLY-NAME", strict=False, facets=("namespace", "installed"))
    ER.rule_whole_key(ctx, rid="C09.WHOLE-KEY")
    # "does vary across salts": the salt hashed is the text between the quotes, so two salts written differently are two salts
    from .c05 import rule_token_conv
    salt_tokens = {p.syms[-1] for p in ctx.grammar.prods[1:] if len(p.syms) == 3 and p.syms[-1] in ctx.grammar.terminals
                   and any(p.name in q.syms and q.name == ctx.grammar.by_name(ctx.grammar.start)[0].syms[0] for q in ctx.grammar.prods[1:])}
    rule_token_conv(ctx, rid="C09.SALT-TOKEN-EXACT", only_tokens=salt_tokens or {"STRING_LITERAL"}, floor=1)
    ER.rule_position_slice(ctx, rid="C09.POSITION-FROM-KEY", parts=("arg",))
    rep.assume("NOT decided: that different salts/values give different groups (MD5's behaviour); decided: that they reach the hash")
    return ("Non-interference by def-use on the instantiated skeleton: free names of the key expression are exactly the sorted "
            "splitter parameters and the salt constant (no experiment id, no condition-only field, no kwargs); signature ends with "
            "an unread **kwargs and has no defaults; the helper takes exactly the condition fields; __call__ forwards **kwargs "
            "unchanged to the compiled function and returns its result; the experiment name is only the def name / lookup key; "
            "the whole key reaches the hash.", TRUSTED)

"""C15 - evaluation is total over field values (partial)."""
from . import evalrules as ER
from . import lexrules as LR
from . import piperules as PR
from .common import TRUSTED, Ctx


def check(rep):
    ctx = Ctx(rep)
    ER.rule_codec_total(ctx)
    LR.rule_literal_action_total(ctx)
    ER.rule_random_guarded(ctx, rid="C15.KEY-NEVER-RANDOM")
    PR.rule_compiles(ctx, rid="C15.SHAPE-COMPILES", strict=False)
    PR.rule_key(ctx, rid="C15.STR-ONLY", mode="str-only")
    PR.rule_renderers(ctx, rid="C15.SALT-EXACT", kinds=("str",), only_tags=("salt",))
    PR.rule_coercions(ctx, rid="C15.SALT-VALUE", fields={"salt", "splitting_fields"})
    ER.rule_value_keyed_caches(ctx, rid="C15.NO-VALUE-KEYED-CACHE", modules={"binning/binning.py", "experiment_evaluator.py"})
    ER.rule_call_forwards(ctx, rid="C15.CALL-FORWARDS")
    # "a salt of any characters": the characters of the text reach the lexer as they were written
    ER.rule_text_unmodified(ctx, rid="C15.TEXT-UNMODIFIED")
    ER.rule_digit_cap_restored(ctx)
    rep.assume("NOT decided: str(int) beyond CPython's 4300-digit conversion limit; lone surrogates (not in the statement)")
    return ("The codec on the hash path encodes every str; each splitter value enters the key through str() only with no type "
            "dispatch, filter or other operation that can raise on the listed types; an empty key is still hashed (the random "
            "branch needs `is None`); the salt is written value-exactly; nothing caches by ==/hash of the values (1, 1.0, True).",
            TRUSTED)

"""C11 - evaluator lifecycle: atomic, repeatable, instance-local."""
from . import evalrules as ER
from .common import TRUSTED, Ctx


def check(rep):
    ctx = Ctx(rep)
    ER.rule_commit_order(ctx)
    ER.rule_skip_guard(ctx)
    ER.rule_fingerprint_recorded(ctx)
    COMPILE_PATH = {"language/lexer.py", "language/grammar.py", "codegen/python/python_generator.py", "experiment_evaluator.py",
                    "data_structures/syntax_tree.py"}
    ER.rule_no_shared_state(ctx, rid="C11.NO-SHARED-COMPILE-STATE",
                            only=lambda m, fn: m.rel in COMPILE_PATH or (m.rel == "utils/wraper_functions.py" and fn.name == "parse_source"),
                            floor=20, accumulating_only=True)
    ER.rule_mutable_defaults(ctx, rid="C11.NO-SHARED-DEFAULTS", modules=COMPILE_PATH | {"utils/wraper_functions.py"}, accumulating_only=True)
    ER.rule_no_module_iterators(ctx, rid="C11.NO-ONE-SHOT-CONSTANTS")
    ER.rule_copy_protocol(ctx, rid="C11.COPY-IS-CURRENT")
    ER.rule_instance_only(ctx)
    ER.rule_installed_function(ctx)
    ER.rule_init_delegates(ctx)
    ER.rule_history_free(ctx)
    ER.rule_call_forwards(ctx, rid="C11.CALL-FORWARDS", aspects=("result",))
    ER.rule_fresh_per_parse(ctx, rid="C11.FRESH-LEXER-PER-PARSE", kinds=("Lexer",))
    ER.rule_value_keyed_caches(ctx, rid="C11.NO-VALUE-KEYED-CACHE", modules={"experiment_evaluator.py", "utils/wraper_functions.py"})
    from . import piperules as PR
    PR.rule_recompile_like_fresh(ctx, "C11.RECOMPILED-LIKE-FRESH")
    return ("Commit-point ordering by path enumeration of recompile(): on every path all may-raise statements precede all state "
            "writes (so a raising recompile has written nothing and raises again next time); the only skip is an exact fingerprint "
            "match of the whole argument text, and the stored fingerprint is only assigned that value after the swap; all writes "
            "are instance writes and class-level defaults immutable; exec runs in a fresh dict of the call and the installed "
            "function is read from it unwrapped; parse_source builds fresh lexer/parser objects; no ==-keyed cache in the "
            "evaluator or the parse wrapper.", TRUSTED)

"""parse_source decided by abstract interpretation: two consecutive calls are interpreted with the lexer and parser classes
replaced by stand-ins that remember which object tokenised which text.  Each call must build its own lexer and parser (their
position, state stack and parse stacks are instance state), hand the caller's text itself to `tokenize`, and return what
`parse` returned for exactly that token stream."""
from __future__ import annotations

from pyab_static import absint as A

from .common import Ctx

WF = "utils/wraper_functions.py"


def parse_semantics(ctx: Ctx):
    cached = ctx.__dict__.get("_parse_sem")
    if cached is not None:
        return cached
    res = {"undecided": None, "findings": {"fresh-lexer": [], "fresh-parser": [], "text": [], "result": []}, "facts": {}}
    wf = ctx.mod(WF)
    ps = wf.functions().get("parse_source")
    if ps is None:
        res["undecided"] = "parse_source not found"
        ctx.__dict__["_parse_sem"] = res
        return res
    lexer_names = set(ctx.lexers)
    parser_name = ctx.grammar.cls.name
    it = A.Interp(ctx.src)
    it.cache_globals = True
    serial = [0]
    made = []                  # (kind, serial, call index)
    call_ix = [0]

    def mk_lexer(name):
        def hook(it_, args, kwargs, site):
            serial[0] += 1
            me = A.Opaque("lexer", payload=(name, serial[0]))
            made.append(("lexer", me, call_ix[0]))

            def tokenize(it2, a_, k_, site2):
                text = a_[0] if a_ else k_.get("text")
                stream = A.Opaque("tokens", payload=(me, text))
                stream.methods["__iter__"] = lambda *_x: [A.Opaque("token-items", payload=stream)]
                return stream
            me.methods["tokenize"] = tokenize
            return me
        return hook

    def mk_parser(it_, args, kwargs, site):
        serial[0] += 1
        me = A.Opaque("parser", payload=(parser_name, serial[0]))
        made.append(("parser", me, call_ix[0]))

        def parse(it2, a_, k_, site2):
            toks = a_[0] if a_ else k_.get("tokens")
            return A.Opaque("parse-result", payload=(me, toks))
        me.methods["parse"] = parse
        return me
    it.class_hooks = {n: mk_lexer(n) for n in lexer_names}
    it.class_hooks[parser_name] = mk_parser
    texts = [A.Sym("str", "TEXT1"), A.Sym("str", "TEXT2")]
    results = []
    try:
        for i, t in enumerate(texts):
            call_ix[0] = i
            results.append(it.call(A.FuncVal(wf, ps), [t], {}))
    except (A.Unsupported, A.NeedChoice, A.RaiseSig) as e:
        res["undecided"] = str(e)
        ctx.__dict__["_parse_sem"] = res
        return res
    F = res["findings"]

    def stream_of(toks):
        """The (lexer, text) a token argument comes from: the stream itself, or a sequence drawn from it unchanged."""
        if isinstance(toks, A.Opaque) and toks.tag == "tokens":
            return toks.payload
        items = toks.items if isinstance(toks, A.AList) else None
        if items is not None and len(items) == 1 and isinstance(items[0], A.Opaque) and items[0].tag == "token-items":
            return items[0].payload.payload
        return None
    used = []
    for i, (t, r) in enumerate(zip(texts, results)):
        if not (isinstance(r, A.Opaque) and r.tag == "parse-result"):
            F["result"].append((f"parse_source[call {i + 1}]", f"parse_source returns {r!r}, not what the parser's parse() returned"))
            continue
        parser, toks = r.payload
        st = stream_of(toks)
        if st is None:
            F["result"].append((f"parse_source[call {i + 1}]", f"the parser is not fed the lexer's token stream as it is ({toks!r})"))
            continue
        lexer, text = st
        used.append((lexer, parser))
        if text is not t:
            F["text"].append(("parse_source[tokenize argument]", f"the lexer receives {text!r}, not the caller's text: characters are "
                              "rewritten before lexing (e.g. str.splitlines() also breaks at \\r, \\x0c, U+2028, which `//.*` does not treat as a line end)"))
        for kind, obj in (("lexer", lexer), ("parser", parser)):
            born = next((c_ for k_, o_, c_ in made if o_ is obj), None)
            if born != i:
                F[f"fresh-{kind}"].append((f"parse_source[{kind}]", f"call {i + 1} of parse_source uses a {kind} object that was not created "
                                           "during that call: one instance (with its mutable position, state stack or parse stacks) is shared "
                                           "by all parses and threads"))
    if len(used) == 2:
        if used[0][0] is used[1][0]:
            F["fresh-lexer"].append(("parse_source[lexer]", "two calls of parse_source tokenise with the same lexer object"))
        if used[0][1] is used[1][1]:
            F["fresh-parser"].append(("parse_source[parser]", "two calls of parse_source parse with the same parser object"))
    res["facts"]["objects_created"] = len(made)
    ctx.__dict__["_parse_sem"] = res
    return res


def decide(ctx: Ctx, rid: str, kinds, ok_text=""):
    sem = parse_semantics(ctx)
    if sem["undecided"]:
        note = f"abstract interpretation of parse_source undecided ({sem['undecided'][:120]}): syntactic rules used instead"
        if note not in ctx.rep.notes:
            ctx.rep.note(note)
        return False
    wf = ctx.mod(WF)
    ps = wf.functions()["parse_source"]
    bad = False
    for k in kinds:
        seen = set()
        for con, msg in sem["findings"][k]:
            if (con, msg) in seen:
                continue
            seen.add((con, msg))
            bad = True
            ctx.rep.bad(rid, f"{WF}:{con}", msg, site=wf.site(ps), text=f"{k}: {con}")
    if not bad:
        ctx.rep.ok(rid, f"{WF}:parse_source", ok_text or f"two abstract calls of parse_source: {', '.join(kinds)} hold", site=wf.site(ps))
    return True

"""Lexer-level rules shared by C02 / C05 / C06 / C07 / C08 / C13 (all decided on the rule tables
and automata extracted from language/lexer.py; see DESIGN.md E2/E3)."""
from __future__ import annotations

import ast

from pyab_static import flow
from pyab_static.core import AnalysisError
from pyab_static.rx import EOF, WORD
from pyab_static.srcmodel import dotted, norm

from .common import Ctx


def _lex_site(lc, r):
    return r.site


def operator_tokens(ctx: Ctx):
    """Comparison operator terminals = the alternatives of the non-terminal that sits between two
    operands in a 3-symbol production (X -> t OP t with OP deriving single terminals only), plus the
    terminals of the precedence table (boolean operators).  Independent of non-terminal names."""
    g = ctx.grammar
    ops = set()
    for p in g.prods[1:]:
        if len(p.syms) == 3 and p.syms[0] == p.syms[2] and p.syms[1] in g.nonterminals:
            alts = g.by_name(p.syms[1])
            if alts and all(len(a.syms) == 1 and a.syms[0] in g.terminals for a in alts):
                ops.update(a.syms[0] for a in alts)
    ops.update(g.precedence)
    # the boolean connectives, whether or not a precedence table lists them (a stratified grammar has none)
    try:
        from .gramrules import token_roles
        ops.update(token_roles(ctx).values())
    except AnalysisError:
        pass
    if not ops:
        raise AnalysisError("no operator tokens found in the grammar (comparison non-terminal / precedence)")
    return ops


def remapped_tokens(lc):
    """{token: (source rule, literal)} for tokens produced by sly's `RULE['lit'] = TOKEN` remap: the
    source rule matches first (a whole identifier), then the exact value selects the token type."""
    return {new: (rule, lit) for rule, lit, new in lc.remaps if new and new != rule and lit is not None}


def id_rule(ctx: Ctx):
    lc = ctx.main
    g = ctx.grammar
    # the terminal after KW_DEF in the start production's first symbol: `def <name>`
    first = g.by_name(g.start)[0].syms[0] if g.by_name(g.start) else None
    cands = [p.syms[1] for p in g.by_name(first) if len(p.syms) == 2 and p.syms[1] in g.terminals] if first else []
    name = cands[0] if cands else "ID"
    i = lc.index(name)
    if i < 0:
        raise AnalysisError(f"identifier token {name} has no lexer rule")
    return i


def munch_pairs(ctx: Ctx, state=None):
    lc = ctx.main if state is None else ctx.lexers[state]
    cache = ctx.__dict__.setdefault("_munch", {})
    if lc.name not in cache:
        cache[lc.name] = ctx.lexicon(lc.name).munch()
    return lc, cache[lc.name]


def silent(rule) -> bool:
    """A rule that can neither emit a token nor change lexer state."""
    if rule.kind == "trivia":
        a = rule.action
        return a is None or (not a.pushes and not a.begins and not a.pops and not a.type_rewrites)
    if rule.func is None:
        return False
    a = rule.action
    return (not a.returns_token and not a.returns_other and not a.pushes and not a.begins and not a.pops)


# ------------------------------------------------------------------ C02.OP-MUNCH
def rule_op_munch(ctx: Ctx, rid="C02.OP-MUNCH"):
    ctx.require_table_driven()
    lc, pairs = munch_pairs(ctx)
    ops = operator_tokens(ctx)
    n = 0
    for j, r in enumerate(lc.rules):
        if r.name not in ops:
            continue
        n += 1
        hits = [(i, w) for (i, jj, w) in pairs if jj == j and lc.rules[i].name in ops]
        if hits:
            i, w = hits[0]
            ctx.rep.bad(rid, f"language/lexer.py:{lc.name}[{lc.rules[i].name}<{r.name}]",
                        f"operator rule {lc.rules[i].name} ({lc.rules[i].pattern!r}) precedes {r.name} ({r.pattern!r}) in "
                        f"the master regex and wins on a proper prefix: {w!r} is lexed as {lc.rules[i].name}",
                        witness=w, site=lc.rules[i].site, text=f"{lc.rules[i].name} before {r.name}")
        else:
            ctx.rep.ok(rid, f"language/lexer.py:{lc.name}.{r.name}",
                       f"no earlier operator rule is selected on a proper prefix of a {r.name} match", site=r.site)
    for tok, (rule, lit) in remapped_tokens(lc).items():
        if tok in ops:
            n += 1
            ctx.rep.ok(rid, f"language/lexer.py:{lc.name}.{tok}", f"{tok} is the {rule} rule's match {lit!r} re-typed by exact value: it cannot "
                       "be selected on a prefix of a longer operator")
    ctx.rep.floor("operator token rules", n, 11)


# ------------------------------------------------------------------ C07 munch / wordsplit / dead
ALLOWED_MUNCH_REASON = "both rules are silent trivia of the same state: the remainder is again trivia, the token stream is unchanged"


def rule_all_munch(ctx: Ctx, rid="C07.MUNCH", only=None):
    """Every deviation from maximal munch must be on the allow-list."""
    ctx.require_table_driven()
    for state in ctx.states:
        lc, pairs = munch_pairs(ctx, state)
        bad_j = {}
        for i, j, w in pairs:
            ri, rj = lc.rules[i], lc.rules[j]
            if silent(ri) and silent(rj):
                continue  # allowed, reported under C08.TRIVIA-MUNCH
            if ri.action is not None and ri.action.pops and silent(rj):
                continue  # the terminator pre-empting comment content is the point of the state
            bad_j.setdefault(j, (i, w))
        for j, r in enumerate(lc.rules):
            if only is not None and not only(lc, r):
                continue
            if j in bad_j:
                i, w = bad_j[j]
                ri = lc.rules[i]
                ctx.rep.bad(rid, f"language/lexer.py:{lc.name}[{ri.name}<{r.name}]",
                            f"{ri.name} ({ri.pattern!r}) is tried before {r.name} ({r.pattern!r}) and is selected on a "
                            f"proper prefix of what {r.name} matches: {w!r} is lexed as {ri.name}+rest",
                            witness=w, site=ri.site, text=f"{ri.name} before {r.name}")
            else:
                ctx.rep.ok(rid, f"language/lexer.py:{lc.name}.{r.name}",
                           "no earlier rule pre-empts a longer match of this rule", site=r.site)


def rule_wordsplit(ctx: Ctx, rid="C07.KEYWORD-WORDSPLIT"):
    ctx.require_table_driven()
    lc = ctx.main
    L = ctx.lexicon(lc.name)
    idi = id_rule(ctx)
    # characters that continue an identifier = what the ID rule consumes after its first character
    cont_atoms = L.used_atoms(idi, skip_first=True)

    hits = dict(L.wordsplit(cont_atoms, {idi}))
    n = 0
    for i, r in enumerate(lc.rules):
        if i == idi or r.kind == "trivia":
            continue
        # only rules that can end in a letter/underscore are concerned
        last_letters = any(chr(a).isalpha() or chr(a) == "_" for a in L.used_atoms(i))
        if not last_letters:
            continue
        n += 1
        if i in hits:
            ctx.rep.bad(rid, f"language/lexer.py:{lc.name}.{r.name}",
                        f"{r.name} ({r.pattern!r}) can end between two identifier characters: in {hits[i]!r} the "
                        f"token ends inside a word (an identifier that merely begins with it is split)",
                        witness=hits[i], site=r.site, text=f"{r.name} = {r.pattern}")
        else:
            ctx.rep.ok(rid, f"language/lexer.py:{lc.name}.{r.name}", "cannot end inside a word", site=r.site)
    for tok, (rule, lit) in remapped_tokens(lc).items():
        if rule == lc.rules[idi].name:
            n += 1
            ctx.rep.ok(rid, f"language/lexer.py:{lc.name}.{tok}", f"{tok} is recognised as the whole identifier {lit!r} (remap): cannot end inside a word")
    ctx.rep.floor("alphabetic token rules", n, 13)


def rule_no_dead(ctx: Ctx, rid="C07.NO-DEAD-TOKEN"):
    ctx.require_table_driven()
    n = 0
    for state, lc in ctx.states.items():
        L = ctx.lexicon(state)
        sel = L.selectable()
        for i, r in enumerate(lc.rules):
            n += 1
            if i in sel:
                ctx.rep.ok(rid, f"language/lexer.py:{state}.{r.name}", f"selectable, e.g. on {sel[i]!r}", site=r.site,
                           witness=sel[i])
            else:
                ctx.rep.bad(rid, f"language/lexer.py:{state}.{r.name}",
                            f"rule {r.name} ({r.pattern!r}) can never be selected: every text it matches is taken by an "
                            "earlier rule", site=r.site, text=f"{r.name} = {r.pattern}")
        for tok, (rule, lit) in remapped_tokens(lc).items():
            n += 1
            r = L.select(lit)
            good = r is not None and lc.rules[r[0]].name == rule and r[1] == len(lit)
            ctx.rep.check(good, rid, f"language/lexer.py:{state}.{tok}", f"remapped from {rule} on the exact text {lit!r}, which {rule} selects" if good
                          else f"token {tok} is remapped from {rule}[{lit!r}] but {lit!r} is not lexed as {rule}: the token can never be produced",
                          text=f"{tok} <- {rule}[{lit}]")
    ctx.rep.floor("lexer rules", n, 30)


def rule_tokens_have_rules(ctx: Ctx, rid="C07.TOKEN-RULES"):
    """Every terminal the grammar uses is produced by some lexer rule that emits it."""
    lc = ctx.main
    emit = {r.name for r in lc.rules if r.emits and r.in_tokens}
    emit |= {tok for tok, (rule, lit) in remapped_tokens(lc).items() if lc.rule(rule) is not None and lc.rule(rule).emits}
    # an action may re-type its token (t.type = "OTHER")
    for r in lc.rules:
        if r.action and r.emits:
            emit |= {t_.strip("'\"") for t_ in r.action.type_rewrites}
    for t in sorted(set(ctx.grammar.terminals) - {"error"}):
        used = any(t in p.syms for p in ctx.grammar.prods)
        if not used:
            continue
        ctx.rep.check(t in emit, rid, f"language/lexer.py:{lc.name}.{t}",
                      "terminal used by the grammar is emitted by a lexer rule" if t in emit else
                      f"terminal {t} is used by the grammar but no lexer rule emits it", text=t)


def reference_tokens():
    """{token name: regex of its lexeme} from reference/tokens.txt (transcribed from the documented terminal table)."""
    from pyab_static.core import VERIF
    out = {}
    for line in (VERIF / "reference" / "tokens.txt").read_text().splitlines():
        if not line.strip() or line.startswith("#"):
            continue
        name, rx_ = line.split(None, 1)
        out[name] = rx_.strip()
    if len(out) < 20:
        raise AnalysisError("reference/tokens.txt: fewer than 20 documented tokens")
    return out


def rule_token_spelling(ctx: Ctx, rid="C06.TOKEN-SPELLING", directions=("lexer<=doc", "doc<=lexer")):
    """For every fixed-spelling terminal of the documented table, product of the lexer's master automaton with an
    automaton of the documented spelling:
      lexer<=doc  no input makes the lexer hand the parser this token with a text outside the documented spelling
                  (a lone '=' taken for '=='): every final match of an emitting rule is judged by the reference monitor;
      doc<=lexer  every documented spelling, given as the whole input, is taken as exactly this token."""
    ctx.require_table_driven()
    from pyab_static.rx import EOF, Lexicon, Matcher, _bfs, _path, _text, build_nfa
    import re as _re
    lc = ctx.main
    ref = reference_tokens()
    pats = [r.pattern for r in lc.rules]
    names = [r.name for r in lc.rules]
    remap_by_rule = {}
    for rule, lit, new in lc.remaps:
        if lit is not None and new:
            remap_by_rule.setdefault(rule, {})[lit] = new
    n = 0
    for tok, doc in ref.items():
        # emitting sources of this token: the rule of that name (minus remapped values) and remap entries
        # an action may hand its token out under another type (`t.type = "NON_NEG_INTEGER"` when there is no fraction): such a rule
        # emits several types, and which one depends on its code; what can be decided is that each of its lexemes is a documented
        # spelling of ONE of them
        def types_of(rule_):
            ts = {rule_.name}
            if rule_.action:
                ts |= {t_.strip("'\"") for t_ in rule_.action.type_rewrites}
            return ts
        sources = []
        r = lc.rule(tok)
        retyping = [x for x in lc.rules if x.emits and x.action and x.action.type_rewrites and tok in types_of(x) and x.name != tok]
        if r is not None and r.emits:
            sources.append((lc.index(tok), sorted(remap_by_rule.get(tok, {}))))
        for x in retyping:
            sources.append((lc.index(x.name), sorted(remap_by_rule.get(x.name, {}))))
        remap_lits = [(rule, lit) for rule, m_ in remap_by_rule.items() for lit, new in m_.items() if new == tok]
        con = f"language/lexer.py:{lc.name}.{tok}"
        if not sources and not remap_lits:
            raise AnalysisError(f"documented token {tok} has no emitting lexer rule (anchor vanished)")
        n += 1
        multi = set()
        for idx_, _ex in sources:
            multi |= types_of(lc.rules[idx_])
        doc_eff = doc if multi <= {tok} else "|".join(f"(?:{ref[t_]})" for t_ in sorted(multi) if t_ in ref)
        # one Lexicon whose alphabet also separates the character sets of all reference patterns
        cache = ctx.__dict__.setdefault("_spell_lex", {})
        if lc.name not in cache:
            cache[lc.name] = Lexicon(pats, names, extra_patterns=sorted(set(ref.values())))
        L = cache[lc.name]
        R = cache.setdefault((lc.name, doc_eff), Matcher(build_nfa([doc_eff]), L.alpha, cut=False))
        rstart = R.starts()[0]
        retyper_idx = {lc.index(x.name) for x in lc.rules if x.emits and x.action and x.action.type_rewrites}

        def accepts(q, a):
            return R.step(q, a)[1] is not None
        site = r.site if r is not None else (lc.rule(remap_lits[0][0]).site if remap_lits else lc.rules[sources[0][0]].site)
        if "lexer<=doc" in directions:
            bad = None
            for idx, excluded in sources:
                # excluded lexemes are emitted under another name: the monitor carries the set of excluded literals
                # the text read so far is still a prefix of (a bounded state: positions in those literals)
                def mon_step(q, a, excluded=excluded):
                    rq, alive, pos = q
                    if alive:
                        alive = frozenset(x for x in alive if pos < len(x) and x[pos] == chr(a))
                    rq2 = R.step((rq, None), a)[0][0]        # reference spellings have no assertions: threads suffice
                    return (rq2, alive, min(pos + 1, 64) if alive else 0)

                def judge(rule, q, q2, a, idx=idx, excluded=excluded):
                    if rule != idx:
                        return None
                    rq, alive, pos = q
                    if any(len(x) == pos for x in alive):
                        return None
                    return None if accepts((rq, None), a if a is not None else EOF) else "outside"
                found = L.monitor_search((rstart[0], frozenset(excluded), 0), mon_step, judge)
                if "outside" in found:
                    w = found["outside"]
                    m_ = L.select(w)
                    bad = (w, w[:m_[1]] if m_ else w)
                    break
            for rule, lit in remap_lits:
                if bad is None and R.run(lit) != (0, len(lit)):
                    m_ = L.select(lit)
                    if m_ is not None and lc.rules[m_[0]].name == rule and m_[1] == len(lit):
                        bad = (lit, lit)
            ctx.rep.check(bad is None, rid, con + "[lexer<=doc]",
                          f"every text the lexer emits as {tok} matches the documented spelling {doc!r}" if bad is None else
                          f"on input {bad[0]!r} the lexer hands the parser {tok} for the text {bad[1]!r}, which is not the documented "
                          f"spelling {doc!r}: a text outside the language is read as this token", witness=bad[0] if bad else None,
                          site=site, text=f"{tok} accepts more than {doc}")
        if "doc<=lexer" in directions and tok != lc.rules[id_rule(ctx)].name:
            M = L.M
            emitters = {idx for idx, _ in sources} | {lc.index(rule) for rule, _ in remap_lits}

            def succ(node):
                if node[0] == "end":
                    return
                st, rq, last, k = node
                if k > 24:
                    return
                for a in L.atoms:
                    rq2, _ = R.step(rq, a)
                    if Matcher.dead(rq2):
                        continue
                    st2, ev = (st, None) if Matcher.dead(st) else M.step(st, a)
                    yield a, (st2, rq2, (ev, False) if ev is not None else ((last[0], False) if last else None), k + 1)
                if k and accepts(rq, EOF):
                    ev = None if Matcher.dead(st) else M.step(st, EOF)[1]
                    yield EOF, ("end", (ev, True) if ev is not None else last)
            parent = _bfs([(s0, rstart, None, 0) for s0 in M.starts()], succ)
            miss = None
            nwords = 0
            for node in parent:
                if node[0] != "end":
                    continue
                nwords += 1
                fin = node[1]
                w = _text(_path(parent, node))
                okk = fin is not None and fin[1] and fin[0] in emitters
                if okk and fin[0] not in retyper_idx:
                    # the final type after remapping must be this token (a re-typing action decides by its own code)
                    rn = names[fin[0]]
                    typ = remap_by_rule.get(rn, {}).get(w, rn)
                    okk = typ == tok
                if not okk and (miss is None or len(w) < len(miss[0])):
                    got = "no token" if fin is None else (names[fin[0]] + ("" if fin[1] else " on a shorter prefix"))
                    miss = (w, got)
            if not nwords:
                raise AnalysisError(f"reference spelling {doc!r} of {tok} derives no word")
            ctx.rep.check(miss is None, rid, con + "[doc<=lexer]",
                          f"every documented spelling {doc!r} is taken whole as {tok}" if miss is None else
                          f"the documented spelling {miss[0]!r} of {tok} is lexed as {miss[1]}", witness=miss[0] if miss else None,
                          site=site, text=f"{tok} accepts less than {doc}")
    ctx.rep.floor("documented fixed-spelling tokens compared with the lexer", n, 20)


def rule_literal_action_total(ctx: Ctx, rid="C15.LITERAL-ACTION-TOTAL", tokens=("STRING_LITERAL",)):
    """Every text the pattern of a literal rule matches becomes a token: neither the action nor a helper of the lexer
    module it calls has a `raise`, nor looks the text (or a piece of it) up in a module-level table with `[...]`
    outside a try/`in` guard (a lookup table without a fallback rejects the characters it does not list)."""
    lc = ctx.main
    m = lc.mod
    tables = {}
    for st in m.tree.body:
        if isinstance(st, (ast.Assign, ast.AnnAssign)) and isinstance(getattr(st, "value", None), (ast.Dict, ast.DictComp)):
            for t in (st.targets if isinstance(st, ast.Assign) else [st.target]):
                if isinstance(t, ast.Name):
                    tables[t.id] = st
    n = 0
    for r in lc.rules:
        if r.name not in tokens or r.func is None:
            continue
        n += 1
        seen, todo, probs = set(), [r.func], []
        while todo:
            f = todo.pop()
            if id(f) in seen:
                continue
            seen.add(id(f))
            guarded = set()
            for t in ast.walk(f):
                if isinstance(t, ast.Try) and t.handlers:
                    guarded |= {id(x) for b_ in t.body for x in ast.walk(b_)}
                if isinstance(t, (ast.If, ast.IfExp)) and any(isinstance(o_, (ast.In, ast.NotIn)) for c_ in ast.walk(t.test)
                                                             if isinstance(c_, ast.Compare) for o_ in c_.ops):
                    guarded |= {id(x) for x in ast.walk(t)}
            for x in ast.walk(f):
                if isinstance(x, ast.Raise) and id(x) not in guarded:
                    probs.append((x, f"`{norm(x)[:60]}` in {getattr(f, 'name', 'lambda')}"))
                if isinstance(x, ast.Subscript) and isinstance(x.ctx, ast.Load) and isinstance(x.value, ast.Name) \
                        and x.value.id in tables and not isinstance(x.slice, ast.Constant) and id(x) not in guarded:
                    probs.append((x, f"`{norm(x)[:60]}` looks a piece of the text up in the table {x.value.id} without a fallback"))
                if isinstance(x, ast.Call):
                    d = dotted(x.func)
                    if d and d in m.functions():
                        todo.append(m.functions()[d])
        con = f"language/lexer.py:{lc.name}.{r.name}"
        if probs:
            x, why = probs[0]
            ctx.rep.bad(rid, con, f"the action of {r.name} can reject a text its pattern matched: {why}", site=m.site(x), text=norm(x)[:100])
        else:
            ctx.rep.ok(rid, con, f"no raise and no unguarded table lookup in the action of {r.name} or the helpers it calls", site=r.site)
    if not n:
        raise AnalysisError(f"no literal rule among {tokens} has an action (anchor vanished)")


def rule_id_total(ctx: Ctx, rid="C07.ID-TOTAL"):
    lc = ctx.main
    r = lc.rules[id_rule(ctx)]
    if r.func is None:
        ctx.rep.ok(rid, f"language/lexer.py:{lc.name}.{r.name}", "identifier rule has no action: every identifier is a token",
                   site=r.site)
        return
    a = r.action
    ok = a.returns_token and not a.returns_none and not a.raises and not a.returns_other and not a.type_rewrites \
        and not a.value_rewrites
    ctx.rep.check(ok, rid, f"language/lexer.py:{lc.name}.{r.name}",
                  "identifier action returns every identifier unchanged" if ok else
                  f"the identifier rule's action can drop, reject or rewrite identifiers "
                  f"(raises={a.raises}, returns_none={a.returns_none}, rewrites={a.value_rewrites + a.type_rewrites})",
                  site=r.site, text=norm(r.func)[:200])


# ------------------------------------------------------------------ C06 lexer error
def all_paths_raise(fn: ast.FunctionDef):
    """(ok, offending path description)"""
    paths = flow.enumerate_paths(fn)
    for p in paths:
        if p.exit != "raise":
            how = "falls off the end" if p.exit == "fall" else f"returns at line {p.exit_node.lineno}"
            conds = [("" if e[2] else "not ") + norm(e[1]) for e in p.events if isinstance(e, tuple) and e[0] == "test"]
            return False, f"a path {how}" + (f" when {' and '.join(conds)}" if conds else ""), len(paths)
    return True, "", len(paths)


def rule_lex_error_raises(ctx: Ctx, rid="C06.LEX-ERROR-RAISES"):
    n = 0
    for state, lc in ctx.states.items():
        L = ctx.lexicon(state)
        fail = L.failing_input()
        n += 1
        con = f"language/lexer.py:{state}.error"
        if fail is None:
            ctx.rep.ok(rid, con, f"state {state} is total (some rule matches at every position): error() is unreachable")
            continue
        if lc.error_func is None:
            ctx.rep.ok(rid, con, f"unmatched input such as {fail!r} reaches sly's default error(), which raises LexError "
                       "(anchored in sly/lex.py)", witness=fail)
            continue
        ok, why, npaths = all_paths_raise(lc.error_func)
        ctx.rep.unit(f"paths of {lc.error_owner}.error: {npaths}")
        if ok:
            ctx.rep.ok(rid, con, f"every path of {lc.error_owner}.error raises ({npaths} paths)", site=lc.mod.site(lc.error_func))
        else:
            ctx.rep.bad(rid, con, f"{lc.error_owner}.error can return normally ({why}); sly then resumes lexing at "
                        f"self.index, so input such as {fail!r} is skipped instead of rejected",
                        witness=fail, site=lc.mod.site(lc.error_func), text=norm(lc.error_func)[:300])
    ctx.rep.floor("lexer states", n, 2)


# ------------------------------------------------------------------ C08
def _atoms_of(L, pred):
    return {a for a in L.atoms if pred(a)}


def rule_comment_end(ctx: Ctx, rid="C08.COMMENT-END"):
    """In every state entered by push_state, the lexer leaves exactly at the end of the first
    '*/' (reference monitor), whatever precedes and follows it."""
    ctx.require_table_driven()
    pushes = [(lc, r) for lc in ctx.lexers.values() for r in lc.rules if r.action and r.action.pushes]
    n = 0
    for owner, opener in pushes:
        for target in opener.action.pushes:
            tname = target.split(".")[-1]
            if tname not in ctx.lexers:
                raise AnalysisError(f"pushed lexer state {target} not found")
            st = ctx.lexers[tname]
            L = ctx.lexicon(tname)
            pops = {i for i, r in enumerate(st.rules) if r.action and r.action.pops}
            other_state = {i for i, r in enumerate(st.rules) if r.action and (r.action.pushes or r.action.begins)}
            emits = {i for i, r in enumerate(st.rules) if r.emits}
            STAR, SLASH = ord("*"), ord("/")

            # monitor: 0 = before first terminator, last char not '*'; 1 = last char '*';
            #          2 = first '*/' just completed; 3 = beyond it
            def mon(q, a):
                if q == 0:
                    return 1 if a == STAR else 0
                if q == 1:
                    return 2 if a == SLASH else (1 if a == STAR else 0)
                return 3

            def judge(rule, q, q2, nxt):
                if rule in pops:
                    if q == 2:
                        return None
                    if q in (0, 1):
                        return "pops before any '*/'"
                    return "pops after the first '*/' (the match runs on past the terminator)"
                if q in (2, 3):
                    return "consumes the first '*/' as comment content (the comment does not end there)"
                if q == 1 and q2 == 2:
                    return "splits the first '*/' between two matches"
                return None

            res = L.monitor_search(0, mon, judge, judge_fail=lambda q: "no rule matches inside the comment")
            n += 1
            con = f"language/lexer.py:{tname}"
            if res:
                for reason, w in res.items():
                    ctx.rep.bad(rid, con, f"in state {tname} the lexer {reason}: on {w!r}", witness="/*" + w,
                                site=st.rules[min(pops)].site if pops else st.mod.site(st.node),
                                text="; ".join(f"{r.name}={r.pattern}" for r in st.rules))
            else:
                ctx.rep.ok(rid, con, "for every text, the state is left exactly at the end of the first '*/' "
                           "(product-automaton search over all texts)", site=st.mod.site(st.node))
            # silent: nothing in the state emits a token or enters another state
            for i, r in enumerate(st.rules):
                good = i not in emits and i not in other_state
                ctx.rep.check(good, "C08.STATE-SILENT", f"language/lexer.py:{tname}.{r.name}",
                              "emits no token and enters no other state" if good else
                              "a rule of the comment state emits a token or changes to another state",
                              site=r.site, text=norm(r.node)[:200])
            # opener itself
            a = opener.action
            good = not a.returns_token and not a.returns_other and len(a.pushes) == 1 and not a.pops and not a.begins \
                and not a.value_rewrites
            ctx.rep.check(good, "C08.STATE-SILENT", f"language/lexer.py:{owner.name}.{opener.name}",
                          "the opener only pushes the comment state and emits nothing" if good else
                          "the comment opener emits a token or does more than push one state",
                          site=opener.site, text=norm(opener.node)[:200])
    ctx.rep.floor("pushed lexer states", n, 1)


def rule_trivia_start(ctx: Ctx, rid="C08.TRIVIA-START"):
    """At a token boundary of the main state: '/*' always opens a comment (2 chars), '//' always
    takes the rest of the line and nothing more, white space is skipped and nothing more."""
    ctx.require_table_driven()
    lc = ctx.main
    L = ctx.lexicon(lc.name)
    pushers = {i for i, r in enumerate(lc.rules) if r.action and r.action.pushes}
    sil = {i for i, r in enumerate(lc.rules) if silent(r)}
    SL, ST, NL = ord("/"), ord("*"), 10

    # --- block comment opener: inputs '/*' z
    def mon_b(q, a):
        if q == 0:
            return 1 if a == SL else None
        if q == 1:
            return 2 if a == ST else None
        return 3  # beyond

    def judge_b(rule, q, q2, nxt):
        if rule in pushers and q == 2:
            return None
        if rule in pushers:
            return "opens the comment state at the wrong position"
        return f"'/*' is not taken by the comment opener but by {lc.rules[rule].name}"
    res = L.monitor_search(0, mon_b, judge_b, judge_fail=lambda q: "'/*' matches no rule" if q is not None and q >= 2 else None)
    con = f"language/lexer.py:{lc.name}['/*']"
    if res:
        for reason, w in res.items():
            ctx.rep.bad(rid, con, f"{reason}: on {w!r}", witness=w, text="block comment opener")
    else:
        ctx.rep.ok(rid, con, "every text starting with '/*' is taken by the rule that pushes the comment state, for exactly 2 characters")

    # --- line comment: inputs '//' w '\n' z   (w without newline) or '//' w EOF
    def mon_l(q, a):
        if q == 0:
            return 1 if a == SL else None
        if q == 1:
            return 2 if a == SL else None
        if q == 2:
            return 3 if a == NL else 2
        return 3

    def judge_l(rule, q, q2, nxt):
        if rule not in sil:
            return f"a '//' comment is lexed as {lc.rules[rule].name}, which is not silent trivia"
        if q == 2 and (nxt == NL or nxt == EOF):
            return None
        if q == 2:
            return "a '//' comment ends before the end of its line"
        if q == 3:
            return "a '//' comment runs on past the end of its line"
        return "a '//' comment is cut inside its opener"
    res = L.monitor_search(0, mon_l, judge_l, judge_fail=lambda q: "'//' matches no rule" if q is not None and q >= 2 else None)
    con = f"language/lexer.py:{lc.name}['//']"
    if res:
        for reason, w in res.items():
            ctx.rep.bad(rid, con, f"{reason}: on {w!r}", witness=w, text="line comment")
    else:
        ctx.rep.ok(rid, con, "every text starting with '//' is silent trivia up to, and not including, the end of the line")

    # --- white space: inputs ws+ z with z not starting with white space
    def is_ws(a):
        return a != EOF and chr(a).isspace()

    def mon_w(q, a):
        if q == 0:
            return 1 if is_ws(a) else None
        if q == 1:
            return 1 if is_ws(a) else 2
        return 2

    def judge_w(rule, q, q2, nxt):
        if rule not in sil:
            return f"white space is lexed as {lc.rules[rule].name}, which is not silent trivia"
        if q == 2:
            return "a white-space rule consumes non-space characters"
        return None
    res = L.monitor_search(0, mon_w, judge_w, judge_fail=lambda q: "white space matches no rule" if q is not None and q >= 1 else None)
    con = f"language/lexer.py:{lc.name}[whitespace]"
    if res:
        for reason, w in res.items():
            ctx.rep.bad(rid, con, f"{reason}: on {w!r}", witness=w, text="white space")
    else:
        ctx.rep.ok(rid, con, "every white-space run is consumed by silent trivia rules only and nothing beyond it")


def rule_trivia_silent(ctx: Ctx, rid="C08.TRIVIA-SILENT"):
    ctx.require_table_driven()
    n = 0
    for state, lc in ctx.states.items():
        for r in lc.rules:
            if r.kind != "trivia":
                continue
            n += 1
            a = r.action
            ok = a is None or (not a.pushes and not a.pops and not a.begins and not a.type_rewrites
                               and set(a.self_writes) <= {"lineno"} and not a.raises)
            ctx.rep.check(ok, rid, f"language/lexer.py:{state}.{r.name}",
                          "ignored rule has no action, or one that only maintains the line count" if ok else
                          f"ignored rule changes lexer state: writes={a.self_writes} pushes={a.pushes} pops={a.pops} "
                          f"raises={a.raises}", site=r.site, text=norm(r.node)[:200])
    ctx.rep.floor("ignore_ rules", n, 4)


def rule_silent_only_trivia(ctx: Ctx, rid="C06.SILENT-ONLY-TRIVIA"):
    """What the lexer skips without telling the parser is white space or a comment and nothing else: a silent rule (an `ignore_`
    rule, sly's `ignore` characters, an action that returns nothing) whose match can begin with another character removes that
    character from every text, so texts that contain it where no token allows it are accepted."""
    ctx.require_table_driven()
    lc = ctx.main
    L = ctx.lexicon(lc.name)
    n = 0
    for i, r in enumerate(lc.rules):
        if not silent(r):
            continue
        n += 1
        odd = sorted(a for a in L.first_atoms(i) if isinstance(a, int) and a >= 0 and not chr(a).isspace() and chr(a) != "/")
        ctx.rep.check(not odd, rid, f"language/lexer.py:{lc.name}.{r.name}",
                      "skips only text that begins with white space or a comment opener" if not odd else
                      f"silently skips text beginning with {[chr(a) for a in odd[:4]]!r} (U+{odd[0]:04X}): that character is neither white "
                      "space nor part of a comment, yet a text with it between tokens is accepted", site=r.site,
                      text=f"{r.name} {r.pattern}")
    ctx.rep.floor("silent lexer rules", n, 2)


def rule_trivia_munch(ctx: Ctx, rid="C08.TRIVIA-MUNCH"):
    ctx.require_table_driven()
    for state in ctx.states:
        lc, pairs = munch_pairs(ctx, state)
        for i, j, w in pairs:
            ri, rj = lc.rules[i], lc.rules[j]
            if silent(ri) and silent(rj):
                ctx.rep.ok(rid, f"language/lexer.py:{state}[{ri.name}<{rj.name}]",
                           f"allowed deviation from maximal munch on {w!r}: {ALLOWED_MUNCH_REASON}", witness=w,
                           nontrivial=False)


def rule_trivia_shield(ctx: Ctx, rid="C08.TRIVIA-SHIELD"):
    """Quoted strings and trivia openers cannot pre-empt each other: their first characters are
    disjoint, and a string body / comment body consumes the other's opener."""
    ctx.require_table_driven()
    lc = ctx.main
    L = ctx.lexicon(lc.name)
    strs = [i for i, r in enumerate(lc.rules) if r.name == "STRING_LITERAL"]
    if not strs:
        raise AnalysisError("anchor vanished: STRING_LITERAL rule")
    si = strs[0]
    sf = L.first_atoms(si)
    for i, r in enumerate(lc.rules):
        if silent(r) or (r.action and r.action.pushes):
            common = sf & L.first_atoms(i)
            ctx.rep.check(not common, rid, f"language/lexer.py:{lc.name}[{lc.rules[si].name}|{r.name}]",
                          "first characters disjoint" if not common else
                          f"a string and trivia rule {r.name} can start with the same character {chr(min(common))!r}",
                          site=r.site, text=f"{r.name}={r.pattern}")
    # inside a string the comment openers are plain content
    sl = ord("/")
    ctx.rep.check(sl in L.used_atoms(si, skip_first=True) and ord("*") in L.used_atoms(si, skip_first=True), rid,
                  f"language/lexer.py:{lc.name}.{lc.rules[si].name}",
                  "a string body may contain '/' and '*': comment openers inside a literal are content",
                  site=lc.rules[si].site, text=lc.rules[si].pattern)


def rule_string_minimal(ctx: Ctx, rid="C05.STRING-MINIMAL"):
    ctx.require_table_driven()
    lc = ctx.main
    L = ctx.lexicon(lc.name)
    for i, r in enumerate(lc.rules):
        if r.name != "STRING_LITERAL":
            continue
        w = L.not_shortest(i)
        ctx.rep.check(w is None, rid, f"language/lexer.py:{lc.name}.{r.name}",
                      "a quoted literal ends at the first closing quote" if w is None else
                      f"the string rule {r.pattern!r} runs past the first closing quote: {w!r} is one literal",
                      witness=w, site=r.site, text=r.pattern)
        return
    raise AnalysisError("anchor vanished: STRING_LITERAL rule")


# ------------------------------------------------------------------ engine model validation (thorough tier)
def validate_engine(ctx: Ctx, n=20000):
    """Cross-check the leftmost-first automaton model against the stdlib `re` engine on the master
    regex rebuilt from the extracted patterns (this runs `re`, not pyab_experiment): a seeded sample
    of strings assembled from token fragments and separators.  A disagreement means the model is
    wrong -> ANALYSIS-ERROR, never a verdict."""
    import os
    import random
    import re
    rnd = random.Random(int(os.environ.get("VERIF_SEED", "0") or 0))
    total = 0
    for state, lc in ctx.states.items():
        L = ctx.lexicon(state)
        master = re.compile("|".join(f"(?P<{r.name}>{r.pattern})" for r in lc.rules))
        names = [r.name for r in lc.rules]
        frags = ["if", "in", "not", "not in", "not  in", "and", "or", "else", "else if", "elseif", "def", "salt", "splitters",
                 "weighted", "return", "order_id", "index", "x", "_", "A", "9", "1", "12", "1.5", ".", "..", "=", "==", ">", ">=",
                 "<", "<=", "!", "!=", "-", ",", ":", "{", "}", "(", ")", '"', "'", '"a"', "'b'", '"a\'b"', "/", "//", "/*", "*/",
                 "*", " ", "  ", "\n", "\t", "\r", "é", "٣", " ", "→", "#", "@", ";", "\\"]
        for _ in range(n):
            s = "".join(rnd.choice(frags) for _ in range(rnd.randint(1, 6)))
            total += 1
            m = master.match(s)
            want = (names.index(m.lastgroup), m.end()) if m and m.end() > 0 else None
            got = L.select(s)
            if got != want:
                raise AnalysisError(f"regex engine model disagrees with stdlib re in state {state} on {s!r}: model {got}, re {want}")
    ctx.rep.note(f"engine model validated against stdlib re on {total} seeded strings (no disagreement)")
    ctx.rep.extra["engine_model_validation_strings"] = total


def rule_string_delimiters(ctx: Ctx, rid="C05.STRING-DELIMITERS"):
    """A quoted literal that opens with one kind of quote ends at the next quote OF THE SAME KIND
    (the other kind is content), whatever follows."""
    lc = ctx.main
    L = ctx.lexicon(lc.name)
    strs = [i for i, r in enumerate(lc.rules) if r.name == "STRING_LITERAL"]
    if not strs:
        raise AnalysisError("anchor vanished: STRING_LITERAL rule")
    si = strs[0]
    DQ, SQ, NL = ord('"'), ord("'"), 10

    # monitor: 0 start; ('in', q) inside a literal opened by q; ('done', q) just closed; 'past' beyond
    def mon(q, a):
        if q == 0:
            return ("in", a) if a in (DQ, SQ) else None
        if q[0] == "in":
            if a == NL:
                return None        # a literal does not span lines ('.' excludes newline): outside this family
            return ("done", q[1]) if a == q[1] else q
        return ("past", q[1])

    def judge(rule, q, q2, nxt):
        if rule != si:
            return f"text opening with a quote is lexed as {lc.rules[rule].name}"
        if q != 0 and q[0] == "done":
            return None
        if q != 0 and q[0] == "in":
            return "a quoted literal ends before its closing quote (at the other kind of quote, which is content)"
        return "a quoted literal runs past its closing quote"
    res = L.monitor_search(0, mon, judge)
    con = f"language/lexer.py:{lc.name}.{lc.rules[si].name}[delimiters]"
    if res:
        for reason, w in res.items():
            ctx.rep.bad(rid, con, f"{reason}: on {w!r}", witness=w, site=lc.rules[si].site, text=lc.rules[si].pattern)
    else:
        ctx.rep.ok(rid, con, "a literal opened by \" or ' ends exactly at the next quote of the same kind", site=lc.rules[si].site)


MULTIWORD_REASON = ("is a documented multi-word token (white space inside it belongs to the token): the shorter keyword followed by "
                    "white space and the second word IS the longer token")


def rule_token_end_stable(ctx: Ctx, rid="C08.TOKEN-END-STABLE"):
    """A token that is complete at end of input stays the same token, with the same end, when trivia
    (white space, a line break, or the '/' of a comment) and anything else follow it."""
    ctx.require_table_driven()
    lc = ctx.main
    L = ctx.lexicon(lc.name)
    followers = {a for a in L.atoms if a == ord("/") or chr(a).isspace()}
    res = L.unstable_ends(followers)
    emitting = {i for i, r in enumerate(lc.rules) if r.emits}
    # multi-word tokens: rule B's pattern contains white space and starts with the text of rule A
    n = 0
    reported = set()
    for (a, b, how), w in sorted(res.items(), key=lambda kv: str(kv[0])):
        if a not in emitting:
            continue       # trivia followed by trivia may merge (\n+ then \s+): the token stream is unchanged
        ra = lc.rules[a]
        rb = lc.rules[b] if b is not None else None
        n += 1
        multi = rb is not None and ("\\s" in rb.pattern or " " in rb.pattern) and rb.emits
        con = f"language/lexer.py:{lc.name}[{ra.name} then trivia -> {rb.name if rb else 'no token'}]"
        if con in reported:
            continue
        reported.add(con)
        if multi:
            ctx.rep.ok(rid, con, f"allowed: {rb.name} ({rb.pattern!r}) {MULTIWORD_REASON}; e.g. {w!r}", witness=w, nontrivial=False)
        else:
            ctx.rep.bad(rid, con, f"the token {ra.name} complete at end of input {how} when trivia follows: on {w!r} the lexer takes "
                        f"{rb.name if rb else 'nothing'}", witness=w, site=ra.site, text=f"{ra.name} / {rb.name if rb else None} {how}")
    ctx.rep.ok(rid, f"language/lexer.py:{lc.name}", f"every other token keeps its identity and end when white space or a comment opener follows "
               f"({len(res)} candidate deviations examined)")


def rule_string_alphabet(ctx: Ctx, rid="C05.STRING-ALPHABET"):
    """Every character except a line break and the literal's own delimiter can occur inside a string
    literal (the other quote, backslash, digits, non-ASCII, '/' and '*'), and the empty literal exists."""
    lc = ctx.main
    L = ctx.lexicon(lc.name)
    si = next((i for i, r in enumerate(lc.rules) if r.name == "STRING_LITERAL"), None)
    if si is None:
        raise AnalysisError("anchor vanished: STRING_LITERAL rule")
    inside = L.used_atoms(si, skip_first=True)
    missing = [a for a in L.atoms if a != 10 and a not in inside]
    ctx.rep.check(not missing, rid, f"language/lexer.py:{lc.name}.STRING_LITERAL[content]",
                  f"all {len(L.atoms) - 1} character classes other than the line break can occur inside a literal" if not missing else
                  f"characters such as {[chr(a) for a in missing[:5]]} cannot be written inside a string literal", site=lc.rules[si].site,
                  text=lc.rules[si].pattern)
    empties = [q for q in ('""', "''") if L.select(q) == (si, 2)]
    ctx.rep.check(len(empties) == 2, rid, f"language/lexer.py:{lc.name}.STRING_LITERAL[empty]",
                  "the empty literal is a string token in both quote styles" if len(empties) == 2 else f"only {empties} lex as empty literals",
                  site=lc.rules[si].site, text="empty literal")

"""C18 - confidence-interval helpers (partial: formulas and refusal, not the analytic inequalities)."""
from . import evalrules as ER
from .common import TRUSTED, Ctx


def check(rep):
    ctx = Ctx(rep)
    from . import statrules as SR
    # probit and confidence_interval interpreted with symbolic numbers (any helper, table, data class or dispatch the code
    # uses is followed); the path/idiom reading of evalrules.rule_stats is the fallback when the interpreter cannot follow
    if not SR.report(ctx):
        ER.rule_stats(ctx)
    rep.assume("NOT decided: z >= true normal quantile, narrowing in n, widening in confidence, radicand >= 0 on [0,1] "
               "(analytic facts about real functions, not shapes of code)")
    return ("Abstract interpretation of probit and confidence_interval with symbolic numbers (forking on comparisons the assumptions do not "
            "decide; method names concrete: the documented ones in two spellings, and unknown names / substrings / the empty string, which "
            "must raise); the resulting expressions are compared with the textbook formulas on a rational grid and by CAS normal form. "
            "Fallback: path enumeration of confidence_interval (each known method, and the no-method path must raise; a membership test "
            "against a string constant is a substring test); expression trees of both methods and of probit converted to sympy and "
            "compared with the textbook Agresti-Coull / Wald formulas with the module's own z (CAS normal form, cross-checked on a "
            "rational grid); endpoints are exactly c -/+ one non-negative half-width; probit symmetric about 1/2.",
            TRUSTED + ["sympy simplification as a normal-form engine"])

"""C05 - literals reach run time with their exact value and type."""
import ast

from pyab_static.srcmodel import norm

from . import lexrules as LR
from . import piperules as PR
from .common import TRUSTED, Ctx

ACCEPTED_CONVERSIONS = {
    "int": {"int(t.value)"},
    "float": {"float(t.value)"},
    "str": {"t.value[1:-1]", "str(t.value[1:-1])"},
}


def rule_token_conv(ctx: Ctx, rid="C05.TOKEN-CONV", only_tokens=None, floor=2):
    lc = ctx.main
    kinds = ctx.pipeline.token_kinds
    n = 0
    for r in lc.rules:
        k = kinds.get(r.name)
        if r.func is None or r.kind == "trivia" or not r.emits:
            continue
        if only_tokens is not None and r.name not in only_tokens:
            continue
        # identifier rules (also fallback rules re-typed to the identifier token) carry no literal
        idname = lc.rules[LR.id_rule(ctx)].name
        if r.name == idname or (r.action and r.action.type_rewrites and all(t_.strip("'\"") == idname for t_ in r.action.type_rewrites)):
            continue
        n += 1
        con = f"language/lexer.py:{lc.name}.{r.name}"
        a = r.action
        tok = r.func.args.args[1].arg if len(r.func.args.args) > 1 else "t"
        rew = [x.replace(f"{tok}.value", "t.value") for x in a.value_rewrites]
        kind = k[1] if k and k[0] == "value" else None
        note = ctx.pipeline.token_kind_notes.get(r.name)
        if note or (k and k[0] == "raises"):
            ctx.rep.bad(rid, con, f"the token action transforms the literal in a way that is not a plain conversion: {note or k[1]}",
                        site=r.site, text=norm(r.func)[:200])
            continue
        retyped_ok = all(t_.strip("'\"") in lc.tokens for t_ in a.type_rewrites)
        # every rewrite of the value is a plain conversion of (a piece cut out of) the matched text: int(...), float(...),
        # str(...), or the slice [1:-1]; pieces may come from partition()/split tests, which do not alter characters
        def plain(x):
            x = x.strip()
            if x in ("t.value[1:-1]", "str(t.value[1:-1])"):
                return True
            m_ = __import__("re").fullmatch(r"(int|float)\((\w+(\.value)?)\)", x)
            return bool(m_)
        ok = bool(rew) and all(plain(x) for x in rew) and a.returns_token and not a.returns_none and retyped_ok
        harmless = ("partition", "rpartition", "isdigit", "isdecimal", "startswith", "endswith", "count", "find", "index")
        extra_calls = [c for c in a.other_calls if c not in ("int", "float", "str", "len") and c.split(".")[-1] not in harmless]
        ok = ok and not extra_calls
        if not ok and a.returns_token and not a.returns_none and retyped_ok and \
                ctx.pipeline.token_value_src.get(r.name) == f"{r.name}[1:-1]":
            # whatever the spelling (slices, removeprefix/removesuffix of the token's own delimiter), the interpreted action yields
            # the matched text without its first and last character
            ok = True
            rew = [f"{r.name}[1:-1] (interpreted)"]
        ctx.rep.check(ok, rid, con, f"value = {rew[0]} (exact conversion of the matched text)" if ok else
                      f"the literal's token value is produced by {rew} with calls {a.other_calls}: more than the conversion / "
                      "delimiter stripping (literal content is rewritten)", site=r.site, text=f"{r.name}: {rew} {sorted(set(a.other_calls))}")
    ctx.rep.floor("literal token actions", n, floor)
    # the string rule strips exactly its two delimiters: every alternative of the pattern starts and ends with a quote
    L = ctx.lexicon(lc.name)
    for i, r in enumerate(lc.rules):
        if r.name == "STRING_LITERAL":
            firsts = {chr(a) for a in L.first_atoms(i)}
            ctx.rep.check(firsts <= {'"', "'"}, rid, f"language/lexer.py:{lc.name}.{r.name}[delimiters]",
                          f"string literals start with one of {sorted(firsts)}; [1:-1] strips exactly the delimiters",
                          site=r.site, text=r.pattern)


def rule_number_order(ctx: Ctx, rid="C05.NUMBER-ORDER"):
    lc, pairs = LR.munch_pairs(ctx)
    nums = {"NON_NEG_FLOAT", "NON_NEG_INTEGER"}
    bad = [(i, j, w) for i, j, w in pairs if lc.rules[j].name in nums and lc.rules[i].name in nums]
    ctx.rep.check(not bad, rid, f"language/lexer.py:{lc.name}[numbers]",
                  "a decimal literal is never split at its point (float rule precedes int rule)" if not bad else
                  f"{lc.rules[bad[0][0]].name} is tried before {lc.rules[bad[0][1]].name}: {bad[0][2]!r} loses its fraction",
                  witness=bad[0][2] if bad else None, text="number rule order")


def rule_grammar_literals(ctx: Ctx, rid="C05.GRAMMAR-LITERAL"):
    """literal -> MINUS X returns -p.X; other literal/weight productions return the token value."""
    g = ctx.grammar
    n = 0
    for p in g.by_name("literal") + g.by_name("weight"):
        n += 1
        r = p.ret
        toks = [s for s in p.syms if s != "MINUS"]
        want = f"p.{toks[0]}" if len(toks) == 1 else None
        if r is None or want is None:
            ctx.rep.bad(rid, f"language/grammar.py:{p}", "literal production action is not a single return of the token value",
                        site=p.site, text=str(p))
            continue
        got = norm(r)
        # p[i] names the same value as p.<symbol i>
        pn = p.func.args.args[1].arg if p.func is not None and len(p.func.args.args) > 1 else "p"
        for i_, s_ in enumerate(p.syms):
            if list(p.syms).count(s_) == 1:
                got = got.replace(f"{pn}[{i_}]", f"p.{s_}").replace(f"{pn}[{i_ - len(p.syms)}]", f"p.{s_}")
        got = got.replace(f"{pn}.", "p.") if pn != "p" else got
        exp = f"-{want}" if "MINUS" in p.syms else want
        core = r.operand if isinstance(r, ast.UnaryOp) and isinstance(r.op, ast.USub) else r
        if got != exp and isinstance(core, ast.Call):
            # the token's conversion (or part of it) is applied here instead of in the lexer: what value comes out is decided
            # end to end by LITERAL-VALUES / TOKEN-CONV on the real actions, not by the spelling of this return
            ctx.rep.note(f"language/grammar.py:{p} returns {got[:60]}: a call on the token value, left to LITERAL-VALUES")
            continue
        ctx.rep.check(got == exp, rid, f"language/grammar.py:{p}", f"returns {got}" if got == exp else f"returns {got}, expected {exp}",
                      site=p.site, text=f"{p} -> {got}")
    if n < 5:
        # the grammar names its literal productions differently: the per-production reading does not apply; what the
        # productions return is still decided end to end by LITERAL-VALUES (abstract values through the real actions)
        ctx.rep.note(f"only {n} productions named literal/weight: GRAMMAR-LITERAL decided on those; LITERAL-VALUES covers the rest")
    else:
        ctx.rep.floor("literal/weight productions", n, 5)


def check(rep):
    from pyab_static.absint import ContentDependent
    from pyab_static.core import FloorError
    try:
        return _check(rep)
    except ContentDependent as e:
        rep.bad("C05.LITERAL-NOT-CUT", "language/grammar.py|codegen: literal text cut into pieces", f"{e}: the literal does not reach run time as the one value that was written", text=str(e)[:160])
        raise FloorError(f"stopped at a content-dependent operation on a literal: {e}")


def _check(rep):
    ctx = Ctx(rep)
    ctx.shape_options.add("overflow")      # decimals too large for a float (the lexer's float() gives inf)
    if rep.tier == "thorough":
        LR.validate_engine(ctx)
    rule_token_conv(ctx)
    rule_number_order(ctx)
    LR.rule_string_minimal(ctx)
    LR.rule_string_delimiters(ctx)
    LR.rule_string_alphabet(ctx)
    rule_grammar_literals(ctx)
    PR.rule_compiles(ctx, rid="C05.SHAPE-COMPILES", strict=False)
    # a literal of extreme magnitude must reach run time like any other: a compile step that raises on it loses the literal
    n_big = 0
    for o in ctx.outcomes():
        if o.status == "raises" and ("beyond the float range" in o.prog.label or "overflowing decimal" in o.prog.label):
            n_big += 1
            if n_big <= 3:
                rep.bad("C05.EXTREME-LITERALS-COMPILE", f"codegen|models <- {o.prog.label}",
                        f"compiling an experiment with this literal raises ({o.error[:160]}): integers of any magnitude and decimals beyond "
                        "the float range are values of the language", text=f"{o.error.split(' at ')[0]}|{o.prog.label}")
    from . import evalrules as ER_
    # the literal that reaches run time is the literal written: the text is lexed as it was given
    ER_.rule_text_unmodified(ctx, rid="C05.TEXT-UNMODIFIED")
    # two literals of different types that compare equal (1 and 1.0, 0 and False) are two values: a step that treats them as one
    # (a dict or set keyed by the literals, a duplicate check) and then refuses or merges them loses one of them
    n_eq = 0
    for o in ctx.outcomes():
        if o.status == "raises" and any("equal literals" in a_ and a_.endswith("=True") for a_ in o.assumptions):
            n_eq += 1
            if n_eq <= 3:
                rep.bad("C05.EQUAL-LITERALS-DISTINCT", f"language/grammar.py|models <- {o.prog.label}",
                        f"compiling raises when two literals compare equal ({[a_ for a_ in o.assumptions if 'equal literals' in a_][0][:120]}): "
                        f"{o.error[:160]} - literals of different types that are == (1, 1.0) are distinct values of the language",
                        text=f"{o.error.split(' at ')[0]}|equal literals")
    from . import evalrules as ER
    ER.rule_value_keyed_caches(ctx, rid="C05.NO-VALUE-KEYED-CACHE",
                               modules={"codegen/python/python_generator.py", "language/grammar.py", "language/lexer.py",
                                        "data_structures/syntax_tree.py", "utils/wraper_functions.py"})
    PR.rule_coercions(ctx, skip_validators_on=("group_weight",), skip_fields=("splitting_fields", "id"))
    PR.rule_renderers(ctx, skip_tags=("w",))
    PR.rule_literal_terms(ctx)
    PR.rule_placement(ctx, rid="C05.PLACEMENT")
    # at run time the choice function must hand back the declared item itself, not another item that merely compares equal
    # to it (0 and 0.0, 1 and True): abstract runs with items of alternating kinds
    from . import choicerules as CR
    CR.report(ctx, "C05", facets=("interior",), names={"interior": "RETURNED-ITEM-EXACT"})
    rep.assume("a decimal literal beyond double range is read as inf by float(); it must still reach the generated code as a literal (D13)")
    rep.assume("repr()/str() of int and float round-trip exactly (CPython)")
    return ("Decides that no stage between token and emitted constant can change a literal: token actions are exact conversions "
            "(int/float/strip two delimiters); float rule precedes int rule and a string ends at its first closing quote (automaton "
            "queries); literal productions return the token value (negated for MINUS); pydantic Union fields keep each literal's "
            "type (abstract model of v1 validation, smart_union); every literal enters the generated text through a value-exact "
            "renderer (repr for strings) and lands as exactly one constant; tuple members are rendered recursively (IR equality "
            "of every literal leaf over the shape family).", TRUSTED)

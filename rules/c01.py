"""C01 - assignment is a pure, process-independent function (DESIGN.md section 3, C01)."""
from . import evalrules as ER
from . import piperules as PR
from .common import TRUSTED, Ctx


def check(rep):
    ctx = Ctx(rep)
    ER.rule_no_module_iterators(ctx, rid="C01.NO-ONE-SHOT-CONSTANTS")
    ER.rule_random_guarded(ctx)
    ER.rule_no_entropy(ctx)
    ER.rule_union_order_stable(ctx)
    ER.rule_hash_pure(ctx, rid="C01.HASH-PRIMITIVE")
    ER.rule_value_keyed_caches(ctx, rid="C01.NO-VALUE-KEYED-CACHE", modules={"binning/binning.py", "experiment_evaluator.py"})
    ER.rule_retained_arguments(ctx, rid="C01.NO-RETAINED-ARGUMENT")
    ER.rule_call_forwards(ctx, rid="C01.CALL-FORWARDS", aspects=("result",))
    ER.rule_skip_guard(ctx, rid="C01.SKIP-GUARD")
    ER.rule_fingerprint_recorded(ctx, rid="C01.FINGERPRINT-RECORDED")
    ER.rule_copy_protocol(ctx, rid="C01.COPY-IS-CURRENT")
    ER.rule_installed_function(ctx, rid="C01.INSTALLED-FUNCTION", strict=False, facets=("namespace", "installed"))
    # state that survives a compilation and is never reset can make the same text compile differently the next time
    COMPILE_PATH = {"language/lexer.py", "language/grammar.py", "codegen/python/python_generator.py", "experiment_evaluator.py",
                    "data_structures/syntax_tree.py"}
    ER.rule_no_shared_state(ctx, rid="C01.NO-SHARED-COMPILE-STATE",
                            only=lambda m, fn: m.rel in COMPILE_PATH or (m.rel == "utils/wraper_functions.py" and fn.name == "parse_source"),
                            floor=20, accumulating_only=True)
    PR.rule_compiles(ctx, rid="C01.SHAPE-COMPILES", strict=False)
    n = PR.rule_key_order_independent(ctx)
    rep.floor("templates checked for set-order dependence", n, 180)
    PR.rule_key(ctx, rid="C01.KEY-NONE-IFF-NO-SPLITTERS", mode="none-iff")
    PR.rule_locals_shadow_fields(ctx, "C01.FIELDS-NOT-SHADOWED", consequence="the key contains the repr of a function object, whose address differs from process to process")
    PR.rule_constant_skeleton(ctx, rid="C01.SKELETON-STATELESS")
    PR.rule_recompile_like_fresh(ctx, "C01.RECOMPILED-LIKE-FRESH", consequence="the same field values are then assigned differently by "
                                 "evaluators built from the same source text, depending on what each compiled before")
    rep.assume("str() of str/int/float/bool/None is locale- and process-independent (CPython)")
    rep.assume("the sly runtime is excluded from the entropy rule: it iterates the `tokens` set and keys position maps by id() "
               "while building/using tables, which changes state numbering per process but not the parse of a conflict-free grammar")
    return ("Decides the structural conditions under which the returned group is a function of (source text, field values) only: "
            "the random branch is guarded by `key is None` on every path; the key template is None only without splitters; the hash "
            "position is hashlib over the key's encoding; no entropy/ambient source is called anywhere in the package (outside sly); "
            "no ==-keyed cache sits on a value path and no caller argument is retained in shared storage; every set reaches generated text through sorted(); "
            "__call__ only forwards to the function object compiled from the text; the generated skeleton is stateless.", TRUSTED)

"""Rules decided on the templates extracted by abstract interpretation of the compile pipeline
(grammar actions -> pydantic models -> PythonCodeGen), see pyab_static/pipeline.py."""
from __future__ import annotations

import ast
import builtins
import keyword
import re

from pyab_static import absint as A
from pyab_static import pipeline as PL
from pyab_static.core import AnalysisError
from pyab_static.srcmodel import dotted, norm

from .common import Ctx

GEN = "codegen/python/python_generator.py"


def _label(o):
    return f"{o.prog.label} [{'exposed' if o.expose else 'nested'} helper]" + (
        f" assuming {', '.join(o.assumptions)}" if o.assumptions else "")


def usable(ctx: Ctx, o, rid):
    """Outcome produced parsable text?  Failures are reported once under C07 (they are the
    'compiles and evaluates' property); other rules skip such outcomes silently unless rid given."""
    return o.status == "ok" and not o.syntax_error and o.tree is not None


def irs(ctx: Ctx):
    cache = ctx.__dict__.setdefault("_irs", None)
    if cache is None:
        cache = []
        for o in ctx.outcomes():
            if not usable(ctx, o, None):
                cache.append((o, None, None))
                continue
            try:
                ir = PL.module_ir(o.tree, o.prog.name.name)
                cache.append((o, ir, None))
            except PL.ModuleShapeError as e:
                cache.append((o, None, str(e)))
        ctx.__dict__["_irs"] = cache
    return cache


def _erase_kinds(x):
    """Drop literal kinds/signs from an IR (C02 compares structure and operators; C05 the literals)."""
    if isinstance(x, tuple):
        if len(x) == 4 and x[0] == "const":
            return ("const", x[2])
        return tuple(_erase_kinds(y) for y in x)
    return x


def _first_diff(a, b, path="body"):
    if type(a) is not type(b):
        return path, a, b
    if isinstance(a, tuple):
        if len(a) != len(b):
            return path, a, b
        if a and isinstance(a[0], str) and isinstance(b[0], str) and a[0] != b[0]:
            return path, a, b
        for i, (x, y) in enumerate(zip(a, b)):
            d = _first_diff(x, y, f"{path}.{a[0] if a and isinstance(a[0], str) else ''}[{i}]")
            if d:
                return d
        return None
    return None if a == b else (path, a, b)


def _short(x, n=160):
    s = repr(x)
    return s if len(s) <= n else s[:n] + "..."


# ------------------------------------------------------------------ C07: every shape compiles
def rule_compiles(ctx: Ctx, rid="C07.SHAPE-COMPILES", strict=True, layouts=None, text_only=False):
    """text_only (C14): only the validity of the generated TEXT is judged; a shape whose compilation raises before any text
    exists fails in the evaluator and in the stand-alone module alike."""
    """strict: C07/C14 own 'every shape compiles'.  Other properties only need enough shapes to
    decide their own rules: shapes that do not compile are skipped there (and counted)."""
    if not strict:
        tot = len(irs(ctx))
        good = sum(1 for o, ir, err in irs(ctx) if ir is not None)
        ctx.rep.floor("shape x layout instances", tot, 180)
        ev_tot = sum(1 for o, ir, err in irs(ctx) if not o.expose)
        ev_good = sum(1 for o, ir, err in irs(ctx) if not o.expose and ir is not None)
        if good * 2 < tot or ev_good * 2 < ev_tot:
            raise AnalysisError(f"only {good} of {tot} shapes compile to the evaluation skeleton: the template rules cannot be "
                                "decided (see C07 for the reason)")
        ctx.rep.ok(rid, f"{GEN}:PythonCodeGen.generate", f"{good} of {tot} shape instances compile to the evaluation skeleton and "
                   "are analysed" + ("" if good == tot else f"; {tot - good} do not compile and are skipped here (reported by C07)"),
                   nontrivial=False)
        return
    n = 0
    unknown_skeleton = []
    irs(ctx)
    fails_ = ctx.pipeline.entry_point_failures
    if fails_:
        # reported at the end of the check: the rules that do not depend on it still run
        ctx.defer(f"the library's entry point ({fails_[0][0]}) does steps around parsing and generating that the analyser cannot "
                         f"follow for {len(fails_)} shape runs ({fails_[0][1][:160]}): what the evaluator executes for those shapes is not known")
    for o, ir, err in irs(ctx):
        if layouts is not None and o.expose not in layouts:
            continue
        n += 1
        con = f"{GEN}:PythonCodeGen.generate <- {_label(o)}"
        if o.status == "syntax-error":
            ctx.rep.bad("C07.GRAMMAR-ACCEPTS", f"language/grammar.py:ExperimentParser <- {o.prog.label}",
                        "a sentence of the documented grammar is rejected by the LALR table built from the extracted "
                        "productions", witness=" ".join(t.type for t in PL.prog_tokens(o.prog)), text=o.prog.label)
        elif o.status == "raises" and text_only:
            continue
        elif o.status == "raises":
            ctx.rep.bad(rid, con, f"compiling this grammatical shape raises inside the pipeline: {o.error}",
                        witness=" ".join(t.type for t in PL.prog_tokens(o.prog)), text=o.error.split(":")[0] + o.prog.label)
        elif o.status != "ok":
            ctx.rep.bad(rid, con, f"generate() does not produce text: {o.error}", text=o.prog.label)
        elif o.syntax_error:
            ctx.rep.bad(rid, con, f"the generated module is not valid Python: {o.syntax_error}",
                        witness=" ".join(t.type for t in PL.prog_tokens(o.prog)),
                        text=f"{o.prog.label}|{o.syntax_error.split('(')[0]}", facts={"generated": o.text})
        elif err:
            # valid Python of another build than the one the template rules read: that is not a verdict on the property
            unknown_skeleton.append((con, err))
        else:
            ctx.rep.ok(rid, con, "parses as a Python module with the expected skeleton")
    ctx.rep.floor("shape x layout instances", n, 180 if layouts is None else 90)
    if unknown_skeleton:
        ctx.defer(f"{len(unknown_skeleton)} of {n} generated modules are valid Python but do not have the evaluation skeleton the "
                         f"analyser models ({unknown_skeleton[0][1][:160]}): the template rules cannot be decided")


def unbound_names(ir, dsl=()):
    imported = {a for _, _, a in ir["imports"]}
    top = set(ir["defs"])
    b = set(dir(builtins)) - set(dsl)      # a field of the experiment must be bound as a field, not found as a builtin
    main_params = set(ir["main_params"]) | ({ir["main_kwargs"]} if ir["main_kwargs"] else set())
    helper_scope = imported | top | b | (main_params if ir["helper_nested"] else set())
    return (ir["helper_free"] - helper_scope) | (ir["main_free"] - (imported | top | b))


def rule_layout_names(ctx: Ctx, rid="C14.NAMES-BOUND"):
    """A name must not be bound in one layout (through the closure of the nested helper) and
    unbound in the other (helper at module level)."""
    by_prog = {}
    for o, ir, err in irs(ctx):
        if ir is not None:
            by_prog.setdefault((id(o.prog), tuple(o.assumptions)), {})[o.expose] = (o, ir)
    n = 0
    for d in by_prog.values():
        if len(d) != 2:
            continue
        n += 1
        (o1, ir1), (o2, ir2) = d[False], d[True]
        u1, u2 = unbound_names(ir1), unbound_names(ir2)
        con = f"{GEN}:PythonCodeGen.generate <- {o1.prog.label}"
        if u1 == u2:
            ctx.rep.ok(rid, con, "both layouts bind the same names")
        else:
            ctx.rep.bad(rid, con, f"names {sorted(u1 ^ u2)} are bound in one layout only (nested helper unbound: {sorted(u1)}, "
                        f"exposed helper unbound: {sorted(u2)}): the stand-alone module raises NameError where the evaluator does not",
                        text=f"{o1.prog.label}|{sorted(u1 ^ u2)}", facts={"exposed": o2.text})
    ctx.rep.floor("programs compared across layouts", n, 90)


def _evaluator_postpones_annotations(ctx: Ctx) -> bool:
    ev = ctx.mod("experiment_evaluator.py")
    return any(isinstance(st, ast.ImportFrom) and st.module == "__future__" and any(a.name == "annotations" for a in st.names)
               for st in ev.tree.body)


def rule_names_bound(ctx: Ctx, rid="C07.NAMES-BOUND", layouts=None):
    """Every name the generated functions read is a parameter, a closure variable of the
    enclosing generated function, an import of the header, or a builtin."""
    for o, ir, err in irs(ctx):
        if ir is None:
            continue
        if layouts is not None and o.expose not in layouts:
            continue
        imported = {a for _, _, a in ir["imports"]}
        top = set(ir["defs"])
        dsl = {h.sym.name for h in o.holes() if h.sym.kind == "ident"}
        b = set(dir(builtins)) - dsl
        main_params = set(ir["main_params"]) | ({ir["main_kwargs"]} if ir["main_kwargs"] else set())
        helper_scope = imported | top | b | (main_params if ir["helper_nested"] else set())
        # the evaluator compiles the text itself: compile() inherits `from __future__ import annotations` of the evaluator's module,
        # and the annotations of the generated functions are then never evaluated
        sfx = "_postponed" if (not o.expose and _evaluator_postpones_annotations(ctx)) else ""
        missing_h = ir["helper_free" + sfx] - helper_scope
        missing_m = ir["main_free" + sfx] - (imported | top | b)
        con = f"{GEN}:PythonCodeGen.generate <- {_label(o)}"
        if missing_h or missing_m:
            ctx.rep.bad(rid, con, f"generated code reads names that nothing binds: helper {sorted(missing_h)}, "
                        f"main {sorted(missing_m)} (NameError at evaluation)", text=f"{o.prog.label}|{sorted(missing_h | missing_m)}",
                        facts={"generated": o.text})
        else:
            ctx.rep.ok(rid, con, "all names read are bound")


def rule_generator_total(ctx: Ctx, rid="C07.GENERATOR-TOTAL"):
    bad = [o for o in ctx.outcomes() if o.status == "raises"]
    ctx.rep.check(not bad, rid, f"{GEN}:PythonCodeGen",
                  "no `raise` of the generator or of a grammar action is reachable for any shape of the family" if not bad else
                  f"reachable raise: {bad[0].error} for {bad[0].prog.label}", text=bad[0].error if bad else "")


# ------------------------------------------------------------------ C02: translation
def _choices(x, out):
    """The return_choice leaves of a body IR in order."""
    if isinstance(x, tuple):
        if x and x[0] == "return_choice":
            out.append(x)
            return
        for y in x:
            _choices(y, out)


def _control_view(got, exp):
    """For C02: a return statement is identified by WHICH declared groups it can return (a non-empty
    subset of the reference statement's groups); order, weights and merged duplicates are C03's."""
    if isinstance(got, tuple) and isinstance(exp, tuple):
        if got and exp and got[0] == "return_choice" and exp[0] == "return_choice":
            gs, es = set(got[1]), set(exp[1])
            return exp if gs and gs <= es else got
        if len(got) == len(exp):
            return tuple(_control_view(a, b) for a, b in zip(got, exp))
    return got


def rule_translation(ctx: Ctx, rid="C02.TRANSLATION", select=None, focus="all"):
    n = 0
    for o, ir, err in irs(ctx):
        if select and not select(o):
            continue
        if ir is None:
            continue        # reported by C07.SHAPE-COMPILES
        n += 1
        ref = PL.ref_module(o.prog)
        got, exp = _erase_kinds(ir["body"]), _erase_kinds(ref["body"])
        if focus in ("groups", "order"):
            g, e = [], []
            _choices(got, g)
            _choices(exp, e)
            got, exp = tuple(g), tuple(e)
            if focus == "order" and len(g) == len(e):
                # one slot per declared group, in declared order, per return statement (the weights' values are C03's)
                if all(tuple(x[1]) == tuple(y[1]) for x, y in zip(g, e)):
                    got = exp
        elif focus == "control":
            got = _control_view(got, exp)
        con = f"{GEN}:PythonCodeGen <- {_label(o)}"
        if got == exp:
            ctx.rep.ok(rid, con, "generated control flow and predicates equal the reference translation" if focus == "all" else
                       "each return statement's population and weights are the declared groups, in order, position-aligned")
        else:
            d = _first_diff(got, exp)
            ctx.rep.bad(rid, con, f"generated code differs from the reference reading at {d[0]}: generated {_short(d[1])}, "
                        f"expected {_short(d[2])}", witness=" ".join(t.type for t in PL.prog_tokens(o.prog)),
                        text=f"{o.prog.label}|{_short(d[1], 80)}|{_short(d[2], 80)}", facts={"generated": o.text})
    return n


def rule_trailing_raise(ctx: Ctx, rid="C02.TRAILING-RAISE"):
    exc_mod = ctx.mod("codegen/python/custom_exceptions.py")
    exc_ok = "ExperimentConditionalFailedError" in exc_mod.classes()
    for o, ir, err in irs(ctx):
        if ir is None:
            continue
        body = ir["body"]
        con = f"{GEN}:PythonCodeGen._generate_exception <- {_label(o)}"
        last = body[-1] if body else None
        ok = last == ("raise", "ExperimentConditionalFailedError") and exc_ok
        # every other exit is a return of a partial(...)
        def exits(stmts):
            for s in stmts:
                if s[0] == "if":
                    yield from exits(s[2])
                    yield from exits(s[3])
                elif s[0] in ("return", "stmt"):
                    yield s
        odd = list(exits(body))
        if ok and not odd:
            ctx.rep.ok(rid, con, "helper ends with `raise ExperimentConditionalFailedError()` at body level; all other exits "
                       "return a partial(deterministic_choice, ...)")
        else:
            ctx.rep.bad(rid, con, f"helper's last statement is {_short(last)}; non-choice exits: {_short(odd)}",
                        text=f"{o.prog.label}|{_short(last, 60)}", facts={"generated": o.text})


def rule_operator_table(ctx: Ctx, rid="C02.OP-TABLE"):
    """Sibling-table agreement, purely structural: every member of both operator enums has a
    case in _generate_op returning a constant; the lexer pattern of the token, the enum member the
    production returns and the emitted text denote the same operator."""
    gm = ctx.mod(GEN)
    fn = gm.get_method("PythonCodeGen", "_generate_op", required=False)
    table = {}
    if fn is None:
        # operators are rendered some other way (templates, a table, a helper object): the exhaustive operator shapes of the
        # translation rule decide that every member is rendered, and as the right operator
        ctx.rep.note("no PythonCodeGen._generate_op: operator table decided by the translation rule only")
    for st in (ast.walk(fn) if fn is not None else ()):
        if isinstance(st, ast.Match):
            for case in st.cases:
                if isinstance(case.pattern, ast.MatchValue):
                    key = dotted(case.pattern.value)
                    ret = [s for s in case.body if isinstance(s, ast.Return)]
                    if ret and isinstance(ret[0].value, ast.Constant):
                        table[key] = ret[0].value.value
    tree = ctx.mod("data_structures/syntax_tree.py")
    members = []
    for en in ("LogicalOperatorEnum", "BooleanOperatorEnum"):
        c = tree.get_class(en)
        for st in c.body:
            if isinstance(st, ast.Assign):
                for t in st.targets:
                    if isinstance(t, ast.Name):
                        members.append(f"{en}.{t.id}")
    if table:
        for m in members:
            ctx.rep.check(m in table, rid, f"{GEN}:PythonCodeGen._generate_op[{m}]",
                          f"renders as {table.get(m)!r}" if m in table else "enum member has no case in _generate_op",
                          site=gm.site(fn), text=m)
    elif fn is not None:
        ctx.rep.note("_generate_op is not a match over enum members with constant returns: operator table decided by the "
                     "translation rule only")
    return len(members)


# ------------------------------------------------------------------ C05 literals
ALLOWED_COERCIONS = {
    # (field, coercion): reason
    ("group_weight", "int->float"): "a weight's type is not observable and int->float is value-exact up to 2**53",
}
SAFE_RENDER = {
    "str": {"repr", "ascii"},
    "ident": {"str", "repr", "ascii", "str|repr-inner", "repr|repr-inner", "ascii|repr-inner"},   # [A-Za-z0-9_] is unchanged inside quotes
    "int": {"str", "repr", "ascii", "json"},
    "float": {"str", "repr", "ascii", "json"},
}


def rule_literal_terms(ctx: Ctx, rid="C05.LITERAL-VALUES"):
    """Literal leaves (value identity, kind, sign, tuple nesting) of the generated code equal
    those of the source shape."""
    for o, ir, err in irs(ctx):
        if ir is None:
            continue
        ref = PL.ref_module(o.prog)

        def leaves(x, out, path=()):
            if isinstance(x, tuple):
                if x and x[0] == "weight":
                    return      # a weight's value/type is C03's, not a literal the program can observe
                if x and x[0] in ("const", "pyconst", "name", "call", "expr"):
                    # a literal written inside tuples is part of a tuple value: the enclosing tuple displays (and their
                    # sizes) belong to what reaches run time
                    out.append(x + (("in",) + path,) if path else x)
                    return
                if x and x[0] in ("tuple", "list"):
                    out.append((x[0], len(x[1])))
                    if x[0] == "tuple":
                        path = path + (len(x[1]),)
                for y in x:
                    leaves(y, out, path)
        g, e = [], []
        leaves(ir["body"], g)
        leaves(ref["body"], e)
        con = f"{GEN}:PythonCodeGen._generate_term <- {_label(o)}"
        # every literal/identifier leaf of the generated code must be one of the source's leaves with the same kind and
        # sign (a leaf that is merged away or reordered is not an altered literal: other properties judge that)
        pool = list(e)
        alien = []
        for x in g:
            if x in pool:
                pool.remove(x)
            else:
                alien.append(x)
        if not alien:
            ctx.rep.ok(rid, con, f"{len(g)} literal/identifier leaves reach the generated code with their kind and sign")
        else:
            twin = next((y for y in e if len(y) > 2 and len(alien[0]) > 2 and y[2] == alien[0][2]), None)
            ctx.rep.bad(rid, con, f"a literal reaches the generated code altered: generated {_short(alien[0])}" +
                        (f", source {_short(twin)}" if twin else " has no counterpart in the source"),
                        text=f"{o.prog.label}|{_short(alien[0], 60)}|{_short(twin, 60)}", facts={"generated": o.text})


def rule_coercions(ctx: Ctx, rid="C05.NO-LOSSY-UNION", fields=None, skip_validators_on=(), skip_fields=()):
    seen = {}
    for o in ctx.outcomes():
        for what, where, fsite, srcsym in o.interp.pyd_events:
            seen.setdefault((where, what), (fsite, srcsym, o.prog.label))
    st = ctx.mod("data_structures/syntax_tree.py")
    n = 0
    # one obligation per Union field of a model (structural listing) + the observed coercions
    for cname, c in st.classes().items():
        for s in c.body:
            if isinstance(s, ast.AnnAssign) and isinstance(s.target, ast.Name):
                ann = s.annotation
                for _ in range(3):     # follow module-level type aliases (Term = float | int | str | ...)
                    if isinstance(ann, ast.Name):
                        _m2, _node = ctx.src.resolve_name(st, ann.id)
                        if isinstance(_node, ast.Assign) and not isinstance(_node.value, ast.Call):
                            ann = _node.value
                            continue
                    break
                members = [A._ann_name(m) for m in A._union_members(ann)]
                scalar = [m for m in members if m in ("int", "float", "str", "NonNegativeFloat", "NonNegativeInt",
                                                       "PositiveInt", "PositiveFloat", "bool", "StrictInt", "StrictFloat", "StrictStr")]
                if len(scalar) < 2:
                    continue
                if fields is not None and s.target.id not in fields:
                    continue
                n += 1
                where = f"{st.rel}:{cname}.{s.target.id}"
                hits = [(w, v) for (wh, w), v in seen.items() if wh == where]
                bad = [(w, v) for w, v in hits if (s.target.id, w) not in ALLOWED_COERCIONS]
                con = f"data_structures/syntax_tree.py:{cname}.{s.target.id}"
                if bad:
                    w, (fsite, srcsym, label) = bad[0]
                    ctx.rep.bad(rid, con, f"pydantic validates Union[{', '.join(members)}] left to right here: a {w} coercion "
                                f"changes the literal from {srcsym} (shape: {label})", site=fsite,
                                text=f"{cname}.{s.target.id}: {norm(s.annotation)} {w}")
                else:
                    why = "; ".join(f"{w} allowed: {ALLOWED_COERCIONS[(s.target.id, w)]}" for w, _ in hits) or "no coercion observed"
                    ctx.rep.ok(rid, con, f"Union[{', '.join(members)}] keeps each literal's own type ({why})", site=st.site(s))
    # coercions on fields that are not multi-scalar Unions (e.g. Config.anystr_strip_whitespace on a str field)
    listed = {o_.construct for o_ in ctx.rep.obs if o_.rule == rid}
    for (where, what), (fsite, srcsym, label) in sorted(seen.items(), key=lambda kv: str(kv[0])):
        if what == "validator-rewrite" or not isinstance(where, str):
            continue
        fname = where.split(".")[-1]
        con = f"data_structures/syntax_tree.py:{where.split(':')[-1]}"
        if con in listed or (fname, what) in ALLOWED_COERCIONS:
            continue
        if (fields is not None and fname not in fields) or fname in skip_fields:
            continue
        listed.add(con)
        ctx.rep.bad(rid, con, f"the model changes the literal on its way into the AST: {what} applied to {srcsym} (shape: {label})",
                    site=fsite, text=f"{where} {what}")
    # validators that rewrite values
    for o in ctx.outcomes():
        for what, where, fsite, srcsym in o.interp.pyd_events:
            if what == "validator-rewrite" and not any(f in where.split(".")[-1].split("/") for f in tuple(skip_validators_on) + tuple(skip_fields)) and (fields is None or any(where.endswith("." + f) or f in where.split(".")[-1].split("/") for f in fields)):
                k = ("validator", where)
                if k not in seen:
                    seen[k] = 1
                    ctx.rep.bad(rid, f"data_structures/syntax_tree.py:{where.split(':')[-1]}[validator {srcsym}]",
                                f"a pydantic validator ({srcsym}) returns something other than the value it was given: the literal "
                                "stored in the AST can differ from the one written", site=fsite, text=f"validator {srcsym} on {where}")
    if fields is None or "group_weight" in fields:
        ctx.rep.floor("model fields with a multi-scalar Union", n, 3 if fields is None else 1)
    elif not any(o_.rule == rid for o_ in ctx.rep.obs):
        ctx.rep.ok(rid, "data_structures/syntax_tree.py", f"no coercion, Config option or validator alters the fields {sorted(fields)}")


def rule_renderers(ctx: Ctx, rid="C05.TERM-RENDER", kinds=("str", "int", "float", "ident"), taint_only=False, extra_safe=(),
                   only_tags=None, skip_tags=()):
    """only_tags / skip_tags select holes by the role tag of their symbol (w = weight, g = group literal, salt, ...)."""
    """Every opaque value enters the generated text through a value-exact renderer."""
    seen = {}
    for o in ctx.outcomes():
        for h in o.holes():
            k = h.sym.kind
            if k not in kinds:
                continue
            tag = h.sym.src.split(":")[-1].rstrip("0123456789")
            if (only_tags is not None and tag not in only_tags) or tag in skip_tags:
                continue
            key = (k, h.render, h.origin)
            if key not in seen:
                seen[key] = (h, o)
    n = 0
    for (k, render, origin), (h, o) in sorted(seen.items(), key=lambda kv: kv[0]):
        n += 1
        ok = render in SAFE_RENDER.get(k, set()) or render in extra_safe
        field = h.sym.src.split(":")[0]
        con = f"{GEN}:{origin.split('/')[-1]} [{k} via {render}]"
        if ok:
            ctx.rep.ok(rid, con, f"{k} values from {field} are rendered with {render}()", site=origin)
        else:
            how = "bare interpolation / str()" if render == "str" else render
            ctx.rep.bad(rid, con, f"a {k} value from {field} is written into the generated source through {how}: quotes, "
                        "backslashes or code in the literal become part of the program text"
                        if k == "str" else f"{k} value rendered through {how}", site=origin,
                        text=f"{k} via {render} at {_stmt_text(ctx, origin)}", witness=o.prog.label)
    ctx.rep.floor("distinct (kind, renderer, site) hole classes", n, 4 if "ident" in kinds else (1 if only_tags else 2))
    if any(h.sym.kind == "rawtoken" for o in ctx.outcomes() for h in o.holes()):
        ctx.rep.bad(rid, f"{GEN}:PythonCodeGen", "raw (unconverted) token text reaches the generated source", text="rawtoken")


def _stmt_text(ctx: Ctx, origin: str) -> str:
    """Normalised text of the innermost statement at file:line (finding key, line-number free)."""
    try:
        path, line = origin.rsplit(":", 1)
        rel = path.split("pyab_experiment/", 1)[1]
        m = ctx.src.modules[rel]
        best = None
        for n in ast.walk(m.tree):
            if isinstance(n, ast.stmt) and n.lineno <= int(line) <= getattr(n, "end_lineno", n.lineno):
                if best is None or (n.end_lineno - n.lineno) <= (best.end_lineno - best.lineno):
                    best = n
        return norm(best)[:160] if best is not None else origin
    except Exception:  # noqa: BLE001
        return origin


# ------------------------------------------------------------------ C13 placement / skeleton
PLACE_RE = re.compile(r"S(\d+)x")


def rule_placement(ctx: Ctx, rid="C13.PLACEMENT"):
    """After instantiation every string-literal hole is exactly one plain `ast.Constant` (not
    part of an f-string, a comment, a name or a call), identifiers are names/parameters only."""
    n = 0
    for o, ir, err in irs(ctx):
        if not usable(ctx, o, None):
            continue
        str_holes = [h for h in o.holes() if h.sym.kind == "str"]
        want = {}
        for h in str_holes:
            want[h.sym.uid] = want.get(h.sym.uid, 0) + 1
        got = {}
        problems = []
        parents = {}
        for node in ast.walk(o.tree):
            for ch in ast.iter_child_nodes(node):
                parents[ch] = node
        for node in ast.walk(o.tree):
            if isinstance(node, ast.Constant) and isinstance(node.value, str):
                for m in PLACE_RE.finditer(node.value):
                    uid = int(m.group(1))
                    got[uid] = got.get(uid, 0) + 1
                    if isinstance(parents.get(node), ast.JoinedStr):
                        problems.append(f"string literal content lands inside an f-string ({norm(parents[node])[:60]}): "
                                        "braces in the literal are evaluated")
                    elif m.group(0) != node.value:
                        # embedded in a larger string constant of the generated text (a docstring, a message).  With the harmless
                        # placeholder this parses; but the value was quoted for standing alone, not for sitting between the
                        # delimiters of that outer literal: a content that contains the outer delimiter (three double quotes in a
                        # docstring) ends the outer literal and continues as code
                        outer = ast.get_source_segment(o.text, node) or ""
                        delim = outer[:3] if outer[:3] in ('\'\'\'', '"""') else outer[:1]
                        problems.append(f"string literal content is embedded inside another string literal of the generated module "
                                        f"(delimiter {delim}): its own quoting does not protect that delimiter, a content containing it "
                                        "ends the outer literal and the rest is code")
            elif isinstance(node, ast.Name) and PLACE_RE.fullmatch(node.id or ""):
                problems.append(f"string literal content is used as a name: {node.id}")
        for uid, k in want.items():
            if got.get(uid, 0) != k:
                problems.append(f"{k} occurrence(s) of a string literal were rendered but {got.get(uid, 0)} reach the "
                                "module as constants (the rest is code, a comment or lost)")
        n += 1
        con = f"{GEN}:PythonCodeGen.generate <- {_label(o)}"
        if problems:
            ctx.rep.bad(rid, con, problems[0], text=f"{o.prog.label}|{problems[0][:80]}", facts={"generated": o.text})
        else:
            ctx.rep.ok(rid, con, f"{sum(want.values())} string-literal occurrences are plain constants")
    return n


DYNAMIC_CALLS = {"exec", "eval", "compile", "__import__", "getattr", "setattr", "globals", "locals", "vars", "open",
                 "importlib.import_module", "os.system", "subprocess.run", "subprocess.Popen"}


def rule_constant_skeleton(ctx: Ctx, rid="C13.CONSTANT-SKELETON"):
    """Which functions the generated module calls does not depend on the source text: no callee
    (or attribute chain) is derived from a token value, and the skeleton contains no dynamic
    execution / reflection call, no global statement and no default argument."""
    for o, ir, err in irs(ctx):
        if ir is None:
            continue
        idents = {h.sym.name for h in o.holes() if h.sym.kind == "ident"}
        problems = []
        for c in ir["calls"]:
            head = c.split("(")[0].split(".")[0]
            if head in idents and head != ir["helper_name"] and head != o.prog.name.name:
                problems.append(f"a DSL identifier is called as a function: {c[:40]}")
            if PLACE_RE.search(c.split("(")[0]):
                problems.append(f"literal content appears in a callee: {c[:40]}")
            if c in DYNAMIC_CALLS:
                problems.append(f"the generated code calls {c}")
        if ir["has_global"]:
            problems.append("the generated code contains a global/nonlocal statement")
        con = f"{GEN}:PythonCodeGen.generate <- {_label(o)}"
        if problems:
            ctx.rep.bad(rid, con, problems[0], text=f"{o.prog.label}|{problems[0][:80]}", facts={"generated": o.text})
        else:
            ctx.rep.ok(rid, con, f"callees are fixed names ({', '.join(sorted(set(x.split('(')[0] for x in ir['calls']))[:6])}), "
                       "none derived from a token value; no dynamic execution or global statement")


def rule_string_surface(ctx: Ctx, rid="C13.TAINT-COVERAGE"):
    """Every production through which a non-identifier token value (a string) can enter the AST
    is exercised: a minimal sentence using it is run through the pipeline and its holes judged."""
    pl = ctx.pipeline
    tainted = {t for t, k in pl.token_kinds.items() if k == ("value", "str")}
    if not tainted:
        raise AnalysisError("no string-valued token found (STRING_LITERAL rule vanished?)")
    n = 0
    for prod, toks in PL.cover_sentences(pl):
        if not (set(prod.syms) & tainted):
            continue
        n += 1
        con = f"language/grammar.py:ExperimentParser[{prod}]"
        if toks is None:
            ctx.rep.ok(rid, con, "production is unreachable from the start symbol", nontrivial=False)
            continue
        prog = PL.Prog(next((t.value for t in toks if t.type == pl.ident_token), A.Sym("ident", "ID:none", name="none")),
                       None, [], ("groups", []), f"cover {prod}")
        bad = None
        for expose in (False, True):
            for o in pl.run(prog, expose, toks=toks):
                if o.status == "syntax-error":
                    raise AnalysisError(f"coverage sentence for `{prod}` is rejected by the LALR table")
                if o.status != "ok":
                    bad = f"compiling a sentence that uses this production raises: {o.error}"
                    continue
                for h in o.holes():
                    if h.sym.kind in ("str", "rawtoken") and h.render not in SAFE_RENDER["str"] | {"json"}:
                        bad = (f"the string token of this production reaches the generated source through "
                               f"{'bare interpolation' if h.render == 'str' else h.render} at {h.origin}")
                if o.syntax_error and not bad:
                    bad = f"generated module for this production's sentence does not parse: {o.syntax_error}"
        if bad:
            ctx.rep.bad(rid, con, bad, site=prod.site, text=str(prod), witness=" ".join(t.type for t in toks))
        else:
            ctx.rep.ok(rid, con, "string values entering through this production are quoted by repr()/ascii() everywhere",
                       site=prod.site)
    ctx.rep.floor("productions with a string-valued terminal", n, 2)


# ------------------------------------------------------------------ C09 / C12 key and signature
def _key_names(pieces):
    out = []
    for p in pieces or []:
        if p[0] == "str":
            out.append(p[1])
        elif p[0] == "conditional":
            out += _key_names(p[2])
    return out


def rule_key(ctx: Ctx, rid="C12.KEY-DESCRIPTOR", mode="exact"):
    """mode: exact (C12: the published descriptor) | names (C09: depends on exactly salt+splitters)
    | position (C10: no condition field / label / weight in the key) | none-iff (C01, C15: the key is
    None exactly when there are no splitters) | str-only (C15: every value enters through str())."""
    for o, ir, err in irs(ctx):
        if ir is None:
            continue
        ref = PL.ref_module(o.prog)
        con = f"{GEN}:PythonCodeGen.generate_key_definition <- {_label(o)}"
        got, exp = ir["key"], ref["key"]
        if mode != "exact":
            problem = None
            if (got is None) != (exp is None):
                problem = ("the key is None although splitters are declared: assignment is a random draw" if got is None else
                           "a key is computed although no splitter is declared")
            elif got is not None and mode in ("names", "position", "str-only"):
                names = _key_names(got)
                split = {p[1] for p in exp if p[0] == "str"}
                extra = [n for n in names if n not in split]
                unknown = [p for p in got if p[0] in ("expr", "pyconst")]
                if extra:
                    problem = f"the key depends on {extra}, which are not splitter fields"
                elif unknown and mode != "position":
                    problem = f"part of the key is not understood as str() of a splitter or a constant: {unknown[0][1][:80]}"
                elif mode in ("names", "str-only") and set(names) != split:
                    problem = f"splitter(s) {sorted(split - set(names))} do not enter the key"
                elif mode == "names" and names != sorted(names) and len(set(names)) == len(names):
                    problem = (f"the key lists the splitters as {names}, not in an order that is independent of how they were "
                               f"declared (alphabetical: {sorted(names)})")
                elif mode == "names":
                    salt_exp = [p for p in exp if p[0] == "const" and p[1] != ""]
                    salt_got = [p for p in got if p[0] == "const" and isinstance(p[1], tuple)]
                    other_const = [p for p in got if p[0] == "const" and isinstance(p[1], str) and p[1] not in ("",)]
                    if salt_exp and not salt_got:
                        problem = "the declared salt does not enter the key"
                    elif other_const and o.prog.name.name in "".join(p[1] for p in other_const):
                        problem = "the experiment's name is part of the key"
                if mode == "str-only" and any(p[0] == "conditional" for p in got):
                    problem = f"a splitter value enters the key only conditionally ({[p[1] for p in got if p[0] == 'conditional'][0]})"
            if problem:
                ctx.rep.bad(rid, con, problem, text=f"{o.prog.label}|{problem[:90]}",
                            facts={"generated": o.text, "key_expr": norm(ir["key_expr"])})
            else:
                ctx.rep.ok(rid, con, {"names": "key depends on exactly the salt and the splitter fields",
                                      "position": "key mentions no condition field, label or weight",
                                      "none-iff": "key is None exactly when no splitter is declared",
                                      "str-only": "every splitter enters the key through str() unconditionally"}[mode])
            continue
        if ir["key"] == ref["key"]:
            desc = "None (no splitters: random assignment)" if ref["key"] is None else \
                "salt constant + str() of each splitter in alphabetical order, no separator"
            ctx.rep.ok(rid, con, f"key = {desc}")
        else:
            ctx.rep.bad(rid, con, f"hash key differs from the published scheme: generated {_short(ir['key'])}, "
                        f"published {_short(ref['key'])}", text=f"{o.prog.label}|{_short(ir['key'], 100)}",
                        facts={"generated": o.text, "key_expr": norm(ir["key_expr"])})


def rule_key_order_independent(ctx: Ctx, rid="C01.SORTED-SETS"):
    """No text of the generated module depends on the iteration order of a set."""
    n = 0
    for o in ctx.outcomes():
        if o.tmpl is None:
            continue
        n += 1
        con = f"{GEN}:PythonCodeGen <- {_label(o)}"
        if o.tmpl.nondet:
            site = o.tmpl.nondet[0]
            ctx.rep.bad(rid, con, f"generated text depends on set iteration order (PYTHONHASHSEED) at {site}: "
                        f"{_stmt_text(ctx, site)}", site=site, text=_stmt_text(ctx, site))
        else:
            ctx.rep.ok(rid, con, "every set reaches the text through sorted()")
    return n


def rule_signature(ctx: Ctx, rid="C09.SIGNATURE"):
    for o, ir, err in irs(ctx):
        if ir is None:
            continue
        ref = PL.ref_module(o.prog)
        con = f"{GEN}:PythonCodeGen.generate <- {_label(o)}"
        problems = []
        split = {sp.name for sp in o.prog.splitters}
        if not split <= set(ir["main_params"]):
            problems.append(f"splitter field(s) {sorted(split - set(ir['main_params']))} are not parameters of the generated function")
        if not ir["main_kwargs"]:
            problems.append("the generated function does not end with **kwargs: an extra field is a TypeError")
        if ir["main_defaults"]:
            problems.append("a declared field has a default: a missing field is silently defaulted")
        if ir["main_vararg"] or ir["main_posonly"] or ir["main_decorators"]:
            problems.append("unexpected *args / positional-only parameters / decorator on the generated function")
        kw = ir["main_kwargs"]
        if kw:
            reads = [n for n in ast.walk(ir["main_node"]) if isinstance(n, ast.Name) and n.id == kw]
            if reads:
                problems.append(f"{kw} is read by the generated code: extra fields can influence the result")
        for p, v in ir["helper_call_binding"].items():
            if v != ("name", p):
                problems.append(f"helper parameter {p} is bound to {v}, not to the field of the same name")
            elif p not in ir["main_params"]:
                problems.append(f"the condition field `{p}` is handed to the helper but is not a parameter of the generated function: "
                                "it is taken from the enclosing scope (a builtin or module global of that name) and the caller's value "
                                "disappears into **kwargs")
        if set(ir["helper_call_binding"]) != set(ir["helper_params"]):
            problems.append("helper call does not bind exactly the helper's parameters")
        # experiment id only as def name
        nm = o.prog.name.name
        uses = [n for n in ast.walk(o.tree) if (isinstance(n, ast.Name) and n.id == nm)
                or (isinstance(n, ast.Constant) and n.value == nm) or (isinstance(n, ast.arg) and n.arg == nm)]
        if uses and nm not in ref["params"]:
            problems.append("the experiment's name is used inside the generated code, not only as the def name")
        if problems:
            ctx.rep.bad(rid, con, problems[0], text=f"{o.prog.label}|{problems[0][:90]}", facts={"generated": o.text})
        else:
            ctx.rep.ok(rid, con, "signature = sorted splitters + condition-only fields + **kwargs (unread), no defaults; "
                       "helper takes exactly the condition fields; the experiment name is only the def name")


def rule_fields_reach_predicates(ctx: Ctx, rid="C02.FIELDS-REACH-PREDICATES", only_other_field=False):
    """The predicates are evaluated inside the helper on its parameters: each must be bound, at the helper call, to the caller's
    field of the same name as passed in - not to a value derived from it (`str(field)`, a re-bound local of that name)."""
    n = 0
    for o, ir, err in irs(ctx):
        if ir is None:
            continue
        con = f"{GEN}:PythonCodeGen.generate <- {_label(o)}"
        own = _prog_ident_names(o.prog)
        bad = [(p, v) for p, v in ir["helper_call_binding"].items() if p in own and v != ("name", p)]
        rebound = [nme for nme in ir.get("main_locals", []) if nme in own and nme in ir["helper_call_binding"]]
        if only_other_field:
            # C07: a predicate written for one field is evaluated on the value of ANOTHER field, whose type the source says nothing
            # about: an ordering comparison or a membership test between values of unrelated types raises TypeError
            bad = [(p, v) for p, v in bad if v[0] == "name" and v[1] in own]
            rebound = []
        n += 1
        if bad or rebound:
            what = (f"the condition field `{bad[0][0]}` reaches the predicates as {_short(bad[0][1], 80)}, not as the caller's value" if bad and not only_other_field
                    else f"the predicates on `{bad[0][0]}` are evaluated on the value of the field `{bad[0][1][1]}` (type-compatible inputs for `{bad[0][0]}` then raise TypeError in an ordering comparison)" if bad
                    else f"the field `{rebound[0]}` is re-bound inside the generated function before the predicates read it")
            ctx.rep.bad(rid, con, what + ": comparisons on it (==, in, >=, ...) are made on another value or type",
                        text=f"{o.prog.label}|{what[:90]}", facts={"generated": o.text})
        else:
            ctx.rep.ok(rid, con, "every condition field is handed to the predicates as the caller passed it")
    return n


def rule_recompile_like_fresh(ctx: Ctx, rid="C11.RECOMPILED-LIKE-FRESH", consequence=""):
    """Two-text histories through the evaluator's own entry point, interpreted as written: an evaluator constructed from one text
    and given a second one through recompile() must hand to compile/exec the same text as a fresh evaluator of the second text.
    The first text has more splitters and condition fields than the second, and the other way round (anything the generator or
    the evaluator keeps from the earlier compilation shows as a difference).  Histories that cannot be followed are notes."""
    fam = PL.Family("quick", ())
    b = fam.b
    big = lambda: fam.prog(("if", [("cmp", "KW_EQ", ("id", b.ident("cond_a")), ("lit", b.integer(), False))], fam.groups(2),    # noqa: E731
                           ("else", fam.groups(1))), True, ("zeta_s", "alpha_s", "extra_s"), "three splitters and a condition field")
    small = lambda: fam.prog(fam.groups(2), True, ("alpha_s",), "one splitter, no condition")                                     # noqa: E731
    other = lambda: fam.prog(("if", [("cmp", "KW_IN", ("id", b.ident("cond_b")), ("tuple", [("lit", b.string(), False), ("lit", b.string(), False)]))],   # noqa: E731
                             fam.groups(1), ("else", fam.groups(2))), False, ("alpha_s", "beta_s"), "no salt, two splitters, another condition field")
    con = f"{GEN}:PythonCodeGen.generate <- ExperimentEvaluator.recompile"
    n = followed = 0
    pairs = [(big(), small()), (small(), big()), (big(), other()), (other(), small())]
    if ctx.rep.tier == "thorough":
        # every shape of the family as the earlier text (each recursive position of the generator has then run once before), and as
        # the later text after the largest one
        for prog in PL.Family("quick", ()).programs():
            pairs.append((prog, small()))
            pairs.append((big(), prog))
    for prev, nxt in pairs:
        try:
            outs = PL.run_history(ctx.pipeline, prev, nxt)
        except (A.Unsupported, AnalysisError) as e:
            ctx.rep.note(f"history `{prev.label}` -> `{nxt.label}` could not be followed ({str(e)[:100]})")
            continue
        for assumptions, after, fresh in outs:
            n += 1
            if after is None or fresh is None:
                continue
            followed += 1
            label = f"construct({prev.label}); recompile({nxt.label})"
            def _code(t):
                try:
                    return ast.dump(ast.parse(t))
                except SyntaxError:
                    return t
            if after != fresh and _code(after) != _code(fresh):        # comments and layout of the text are not behaviour
                import difflib
                d = [l for l in difflib.unified_diff(fresh.splitlines(), after.splitlines(), lineterm="", n=0) if l[:1] in "+-" and l[:3] not in ("+++", "---")]
                ctx.rep.bad(rid, con + f"[{label}]", "a recompiled evaluator does not compile the text a fresh evaluator of the same source compiles: "
                            f"fresh `{(d[0][1:] if d else '')[:90].strip()}` / after the history `{(d[1][1:] if len(d) > 1 else '')[:90].strip()}` "
                            "(something of the earlier compilation is kept)" + (f": {consequence}" if consequence else ""),
                            text=f"history|{prev.label}|{nxt.label}", witness={"history": label, "fresh": fresh[:600], "recompiled": after[:600]})
            else:
                ctx.rep.ok(rid, con + f"[{label}]", "the text compiled after the history equals the text a fresh evaluator compiles")
    if not followed:
        fails = getattr(ctx.pipeline, "history_failures", [])
        ctx.rep.note(f"two-text histories through recompile() could not be followed ({(fails[0] if fails else 'no text captured')[:120]}): "
                     "the lifecycle rules alone decide")
    return followed


# ------------------------------------------------------------------ C14 layouts
def rule_layouts_agree(ctx: Ctx, rid="C14.LAYOUTS-AGREE"):
    by_prog = {}
    for o, ir, err in irs(ctx):
        by_prog.setdefault((id(o.prog), tuple(o.assumptions)), {})[o.expose] = (o, ir, err)
    n = 0
    for (_, _), d in by_prog.items():
        if True not in d or False not in d:
            continue
        (o1, ir1, e1), (o2, ir2, e2) = d[False], d[True]
        if ir1 is None or ir2 is None:
            continue
        n += 1
        con = f"{GEN}:PythonCodeGen.generate <- {o1.prog.label}"
        keys = ["main_params", "main_kwargs", "helper_params", "helper_call_binding", "key", "body", "imports"]
        diff = [k for k in keys if ir1[k] != ir2[k]]
        shape = ir1["helper_nested"] and not ir2["helper_nested"]
        if diff:
            ctx.rep.bad(rid, con, f"the two layouts differ in {diff}", text=f"{o1.prog.label}|{diff}")
        elif not shape:
            ctx.rep.bad(rid, con, f"layout switch has no effect on helper placement: nested={ir1['helper_nested']} "
                        f"(expose=False), nested={ir2['helper_nested']} (expose=True)", text=f"{o1.prog.label}|placement")
        else:
            ctx.rep.ok(rid, con, "identical signature, helper, key and body; only the helper's nesting differs")
    ctx.rep.floor("programs compared across layouts", n, 90)


def rule_header_imports(ctx: Ctx, rid="C14.HEADER-COVERS-FREE-NAMES"):
    """Free names of the generated module are imported by its header, the imports resolve to
    definitions in the repo / stdlib, and the evaluator module binds the same names."""
    ev = ctx.mod("experiment_evaluator.py")
    done = set()
    for o, ir, err in irs(ctx):
        if ir is None:
            continue
        b = set(dir(builtins))
        dsl = {h.sym.name for h in o.holes() if h.sym.kind == "ident"}
        free = (ir["helper_free"] | ir["main_free"]) - b - set(ir["defs"]) - set(ir["main_params"]) - {ir["main_kwargs"]} - dsl
        imported = {a: (m, n) for m, n, a in ir["imports"]}
        key = (tuple(sorted(free)), tuple(sorted(imported.items())))
        if key in done:
            continue
        done.add(key)
        for name in sorted(free):
            con = f"{GEN}:PythonCodeGen.render_topline[{name}]"
            if name not in imported:
                ctx.rep.bad(rid, con, f"generated code reads {name} but the header does not import it "
                            f"(shape: {o.prog.label})", text=f"{name}|not imported")
                continue
            m, n = imported[name]
            target = ctx.src.by_dotted(m)
            if target is not None:
                m2, node = ctx.src.resolve_name(target, n)
                good = node is not None
                ctx.rep.check(good, rid, con, f"imported from {m}, defined at {m2.site(node) if good and hasattr(node, 'lineno') else m}"
                              if good else f"{m} does not define {n}", text=f"{name}|{m}.{n}")
            else:
                import sys as _sys
                ctx.rep.check(m.split(".")[0] in getattr(_sys, "stdlib_module_names", ("functools", "math", "itertools", "operator")), rid, con,
                              f"imported from stdlib module {m}" if m.split(".")[0] in getattr(_sys, "stdlib_module_names", ()) else
                              f"imported from {m}, which is neither in the package nor in the standard library",
                              text=f"{name}|{m}.{n}")
            # evaluator globals: exec(..., None, code_holder) gives the function the evaluator module's globals
            src2, attr2 = ev.imports.get(name, (None, None))
            same = (src2, attr2) == (m, n)
            if not same and src2 is not None:
                # the same object reached through a re-exporting module: compare where the two names are defined
                def _origin(modname, attr):
                    t_ = ctx.src.by_dotted(modname)
                    if t_ is None:
                        return ("ext", modname, attr)
                    m3, nd = ctx.src.resolve_name(t_, attr)
                    if m3 is None:
                        return nd if isinstance(nd, tuple) else None
                    return (m3.rel, getattr(nd, "lineno", None)) if nd is not None else None
                o1, o2 = _origin(m, n), _origin(src2, attr2)
                same = o1 is not None and o1 == o2
            ctx.rep.check(same, "C14.EVALUATOR-GLOBALS", f"experiment_evaluator.py[{name}]",
                          f"the evaluator module binds {name} to the same object ({m}.{n})" if same else
                          f"the evaluator module binds {name} to {src2}.{attr2}, the generated header to {m}.{n}",
                          text=f"{name}|{src2}.{attr2}")


# ------------------------------------------------------------------ C07 identifiers in Python positions (D7)
def rule_depth_unbounded(ctx: Ctx, rid="C14.DEPTH-UNBOUNDED"):
    """The generator keeps a nesting-depth counter (an attribute it increments and decrements).  Text that depends on
    it must grow with it without a ceiling: cutting it out of a fixed-size string, or clamping the counter, makes every
    level beyond the ceiling come out at the same indentation (the block structure of the generated module is lost)."""
    gm = ctx.mod(GEN)
    cls = gm.classes().get("PythonCodeGen")
    if cls is None:
        raise AnalysisError("anchor vanished: class PythonCodeGen")
    counters = set()
    for n in ast.walk(cls):
        if isinstance(n, ast.AugAssign) and isinstance(n.op, (ast.Add, ast.Sub)) and isinstance(n.target, ast.Attribute) \
                and dotted(n.target.value) == "self":
            counters.add(n.target.attr)
    if not counters:
        ctx.rep.ok(rid, f"{GEN}:PythonCodeGen", "no depth counter attribute (nothing is incremented/decremented on self)", nontrivial=False)
        return

    def mentions_counter(e):
        return any(isinstance(x, ast.Attribute) and x.attr in counters and dotted(x.value) == "self" for x in ast.walk(e))
    bad = []
    for n in ast.walk(cls):
        if isinstance(n, ast.Subscript) and isinstance(n.slice, ast.Slice) and isinstance(n.ctx, ast.Load):
            bounds = [b for b in (n.slice.lower, n.slice.upper) if b is not None]
            if any(mentions_counter(b) for b in bounds):
                bad.append((n, f"`{norm(n)[:70]}` cuts a per-depth text out of a fixed string: beyond its length every level gets the same text"))
        if isinstance(n, ast.Call) and dotted(n.func) in ("min",) and any(mentions_counter(a) for a in n.args) and len(n.args) > 1:
            bad.append((n, f"`{norm(n)[:70]}` clamps the depth counter"))
    for n, why in bad:
        ctx.rep.bad(rid, f"{GEN}:PythonCodeGen[{sorted(counters)[0]}]", why, site=gm.site(n), text=norm(n)[:100])
    if not bad:
        ctx.rep.ok(rid, f"{GEN}:PythonCodeGen[{', '.join(sorted(counters))}]", "the depth counter is never used as a slice bound nor clamped")


def rule_locals_shadow_fields(ctx: Ctx, rid, kinds=("def", "assign"), consequence=""):
    """Field names are written verbatim as parameters of the generated function.  Every other name that function binds in its
    own body - the nested helper's `def`, a local such as `key = ...` - overwrites a field of the same name before it is used:
    the key then hashes (or the predicate then compares) the repr of a function or partial instead of the field's value."""
    bound = {}
    for o, ir, err in irs(ctx):
        if ir is None or o.expose:
            continue          # the layout the evaluator compiles
        own = _prog_ident_names(o.prog)
        if "def" in kinds and ir.get("helper_nested"):
            for nme in [ir["helper_name"]] + list(ir.get("extra_nested_defs", [])):
                if nme not in own:
                    bound.setdefault(nme, "the nested function definition")
        if "assign" in kinds:
            for nme in ir.get("main_locals", []):
                if nme not in own:
                    bound.setdefault(nme, "a local assignment")
    base = f"{GEN}:PythonCodeGen.generate"
    # a name the lexer never delivers as an identifier (a keyword of the DSL: salt, splitters, weighted, ...) is no field's name
    from .lexrules import id_rule
    L_ = ctx.lexicon(ctx.main.name)
    idi_ = id_rule(ctx)
    bound = {nme: how for nme, how in bound.items() if L_.select(nme) == (idi_, len(nme))}
    for nme, how in sorted(bound.items()):
        ctx.rep.bad(rid, base + f"[generated local {nme}]", f"a field named `{nme}` is overwritten by {how} of the same name inside the "
                    f"generated function before it is used{': ' + consequence if consequence else ''}",
                    witness=f"def e{{ splitters: {nme} return \"A\" weighted 1, \"B\" weighted 1 }}", text=f"generated local {nme}")
    if not bound:
        ctx.rep.ok(rid, base + "[generated locals]", "the generated function binds no name of its own that a field could carry")


def _prog_ident_names(prog) -> set:
    """Names of all DSL identifiers of a shape program (they are never skeleton names, whatever route they take
    through the generator)."""
    out = set()

    def walk(x):
        if isinstance(x, A.Sym):
            if x.kind == "ident":
                out.add(x.name)
        elif isinstance(x, (list, tuple)):
            for y in x:
                walk(y)
    walk([prog.name, prog.salt, prog.splitters, prog.body])
    return out


def rule_ident_positions(ctx: Ctx, rid="C07.IDENT-POSITIONS"):
    lc = ctx.main
    L = ctx.lexicon(lc.name)
    from .lexrules import id_rule
    idi = id_rule(ctx)
    sinks = set()
    skeleton = set()
    for o, ir, err in irs(ctx):
        if ir is None:
            continue
        idents = {h.sym.name for h in o.holes() if h.sym.kind == "ident"} | _prog_ident_names(o.prog)
        # the annotations of a module-level function are evaluated at module level, where no field is bound: a field of the same
        # name shadows nothing there
        outer_ann = set()
        postponed = any(isinstance(st, ast.ImportFrom) and st.module == "__future__" and any(a.name == "annotations" for a in st.names)
                        for st in o.tree.body)
        for st in (ast.walk(o.tree) if postponed else o.tree.body):      # postponed annotations are never evaluated, anywhere
            if isinstance(st, ast.FunctionDef):
                anns = [a.annotation for a in st.args.posonlyargs + st.args.args + st.args.kwonlyargs + [st.args.vararg, st.args.kwarg]
                        if a is not None and a.annotation is not None] + ([st.returns] if st.returns is not None else [])
                outer_ann |= {id(n) for e in anns for n in ast.walk(e)}
        for node in ast.walk(o.tree):
            if id(node) in outer_ann:
                continue
            if isinstance(node, ast.FunctionDef):
                (sinks if node.name in idents else skeleton).add(("def-name", node.name) if node.name in idents else node.name)
            elif isinstance(node, ast.arg):
                (sinks.add(("parameter", node.arg)) if node.arg in idents else skeleton.add(node.arg))
            elif isinstance(node, ast.keyword) and node.arg:
                if node.arg in idents:      # a keyword name binds nothing: only identifier sinks matter here
                    sinks.add(("keyword-argument", node.arg))
            elif isinstance(node, ast.Name):
                (sinks.add(("expression-name", node.id)) if node.id in idents else skeleton.add(node.id))
        comp_bound = {n.id for c in ast.walk(o.tree) if isinstance(c, ast.comprehension) for n in ast.walk(c.target)
                      if isinstance(n, ast.Name)}
        skeleton -= {x for x in comp_bound if isinstance(x, str)}
    kinds = sorted({k for k, _ in sinks if isinstance(k, str)})
    skeleton = {s for s in skeleton if isinstance(s, str)}

    def lexes_as_id(name):
        r = L.select(name)
        return r is not None and r == (idi, len(name))
    kw_hits = sorted(n for n in PY_KEYWORDS if lexes_as_id(n))
    sk_hits = sorted(n for n in skeleton - PY_KEYWORDS if lexes_as_id(n))
    base = f"{GEN}:PythonCodeGen.generate"
    if not kinds:
        raise AnalysisError("no identifier sink found in the generated skeleton")
    if kw_hits:
        ctx.rep.bad(rid, base + "[python keywords]", f"DSL identifiers are emitted verbatim as Python {', '.join(kinds)}; the lexer "
                    f"accepts identifiers that are Python keywords ({', '.join(kw_hits[:8])}, ...): the generated module does not compile",
                    witness=f"def e{{ splitters: {kw_hits[0]} return \"A\" weighted 1 }}", text="identifier may be a Python keyword")
    else:
        ctx.rep.ok(rid, base + "[python keywords]", "no lexable identifier is a Python keyword")
    for nme in sk_hits:
        ctx.rep.bad(rid, base + f"[skeleton name {nme}]", f"a field named `{nme}` is emitted verbatim and shadows or duplicates the "
                    f"name `{nme}` that the generated skeleton itself uses", witness=f"def e{{ splitters: {nme} return \"A\" weighted 1 }}",
                    text=f"identifier may equal skeleton name {nme}")
    if not sk_hits:
        ctx.rep.ok(rid, base + "[skeleton names]", "no lexable identifier equals a name used by the skeleton")


# frozen: the keyword list of Python 3.7 - 3.13 (soft keywords are valid identifiers)
PY_KEYWORDS = frozenset("""False None True and as assert async await break class continue def del elif else except finally for
from global if import in is lambda nonlocal not or pass raise return try while with yield""".split())


# ------------------------------------------------------------------ entry points share one generator
def _entry_point_followed(ctx: Ctx, label: str) -> bool:
    """The pipeline obtained the generated text of every shape through this entry point (recompile / generate_code), interpreted
    as written, and never had to fall back to calling the generator directly."""
    irs(ctx)
    pl_ = ctx.pipeline
    return pl_.through_entry_point > 0 and pl_.direct_generator == 0 and not any(k == label for k, _ in pl_.entry_point_failures)


def rule_one_generator(ctx: Ctx, rid="C14.ONE-GENERATOR", only=None):
    """recompile() and generate_code() both obtain their text from PythonCodeGen(<parse_source
    result>, expose_experiment_variant_function=<flag>).generate(); the evaluator passes exactly
    that text to compile()/exec(); generate_code only post-processes with black.format_str."""
    ev = ctx.mod("experiment_evaluator.py")
    wf = ctx.mod("utils/wraper_functions.py")
    rec = ev.get_method("ExperimentEvaluator", "recompile")
    gc = wf.get_function("generate_code")
    out = {}
    for mod, fn, label in ((ev, rec, "recompile"), (wf, gc, "generate_code")):
        if only and label not in only:
            continue
        if label == "recompile":
            # decided by the abstract runs of recompile when they can follow the code: what exec receives is the generator's
            # output for the AST parsed from this call's text, in the nested layout
            from . import liferules as LF
            life = LF.lifecycle(ctx)
            if not life["undecided"]:
                LF.decide(ctx, rid, ("fed",), construct=f"{mod.rel}:{fn.name}",
                          ok_text=f"exec receives PythonCodeGen(parse_source(<text>), expose={life['facts'].get('expose')}).generate() and nothing else")
                out[label] = {"problems": [m_ for _c, m_ in life["findings"]["fed"]], "expose": life["facts"].get("expose"), "wrappers": []}
                continue
        info = trace_generated_text(ctx, mod, fn)
        out[label] = info
        con = f"{mod.rel}:{fn.name}"
        if info["problems"] and all("no PythonCodeGen" in p_ for p_ in info["problems"]) and _entry_point_followed(ctx, label):
            # the backward trace found no constructor next to .generate() (a generator object obtained some other way: borrowed,
            # reset, injected), but the entry point itself was interpreted as written for every shape and what it handed to
            # compile/exec is the text the template rules analyse: nothing to report from the trace
            ctx.rep.note(f"{con}: the syntactic trace found no PythonCodeGen(...).generate() expression; the text was followed through "
                         f"the entry point itself for every shape instead")
            info["problems"] = []
            if label == "recompile" and info.get("expose") is None:
                # the layout the evaluator compiles, read off the text it handed to exec
                nested_ = [ir["helper_nested"] for o, ir, err in irs(ctx) if ir is not None and not o.expose]
                if nested_:
                    info["expose"] = "False" if all(nested_) else "True"
            ctx.rep.ok(rid, con, "text followed through the entry point as written (abstract interpretation) for every shape", site=mod.site(fn))
            continue
        if info["problems"]:
            ctx.rep.bad(rid, con, info["problems"][0], site=mod.site(fn), text=info["problems"][0][:120])
        else:
            ctx.rep.ok(rid, con, f"text = PythonCodeGen(parse_source(<text>), expose={info['expose']}).generate()"
                       f"{' -> ' + ' -> '.join(info['wrappers']) if info['wrappers'] else ''}", site=mod.site(fn))
    return out


def trace_generated_text(ctx: Ctx, mod, fn, _depth=0, bindings=None):
    """Backward trace of the generated text inside `fn`."""
    problems, wrappers = [], []
    assigns = {}
    for st in ast.walk(fn):
        if isinstance(st, ast.Assign) and len(st.targets) == 1 and isinstance(st.targets[0], ast.Name):
            assigns.setdefault(st.targets[0].id, []).append(st.value)

    inlined = {}

    def inline(e):
        """f(a, k=b) where f is a function of the module whose body is `return <expression>` (a construction helper):
        that expression with the parameters replaced by the arguments"""
        if id(e) in inlined:
            return inlined[id(e)]
        out = e
        if isinstance(e, ast.Call) and dotted(e.func) in mod.functions() and dotted(e.func) != "parse_source" \
                and not any(isinstance(a_, ast.Starred) for a_ in e.args) and all(k_.arg for k_ in e.keywords):
            callee = mod.functions()[dotted(e.func)]
            body = [st for st in callee.body if not (isinstance(st, ast.Expr) and isinstance(st.value, ast.Constant))]
            a = callee.args
            if callee is not fn and len(body) == 1 and isinstance(body[0], ast.Return) and body[0].value is not None \
                    and not (a.vararg or a.kwarg or a.posonlyargs or a.defaults or a.kwonlyargs or callee.decorator_list):
                ps = [x.arg for x in a.args]
                bind = dict(zip(ps, e.args))
                bind.update({k_.arg: k_.value for k_ in e.keywords if k_.arg in ps})
                if set(bind) == set(ps):
                    import copy as _copy

                    class _S(ast.NodeTransformer):
                        def visit_Name(self, n_):
                            return bind[n_.id] if isinstance(n_.ctx, ast.Load) and n_.id in bind else n_
                    out = _S().visit(_copy.deepcopy(body[0].value))
        inlined[id(e)] = out
        return out

    def resolve(e, depth=0):
        if isinstance(e, ast.Name) and e.id in assigns and depth < 6:
            vals = assigns[e.id]
            if len(vals) == 1:
                return resolve(vals[0], depth + 1)
        if isinstance(e, ast.Name) and bindings and e.id in bindings:
            return bindings[e.id]
        if isinstance(e, ast.Call) and depth < 6:
            e2 = inline(e)
            if e2 is not e:
                return resolve(e2, depth + 1)
        return e

    gens = [n for n in ast.walk(fn) if isinstance(n, ast.Call) and isinstance(n.func, ast.Attribute)
            and n.func.attr == "generate"]
    ctor = None
    gen_call = None
    for g in gens:
        recv = resolve(g.func.value)
        if isinstance(recv, ast.Call) and dotted(recv.func) == "PythonCodeGen":
            ctor, gen_call = recv, g
    if ctor is None and _depth < 2:
        # look into the helpers this function calls (methods of the same class, functions of the module)
        for c in ast.walk(fn):
            if isinstance(c, ast.Call) and dotted(c.func):
                d = dotted(c.func)
                callee = None
                if d.split(".")[0] in ("self", "cls") and len(d.split(".")) == 2:
                    for cls in mod.classes().values():
                        if fn in cls.body:
                            callee = mod.get_method(cls, d.split(".")[1], required=False)
                elif d in mod.functions():
                    callee = mod.functions()[d]
                if callee is not None and callee is not fn:
                    ps = [a.arg for a in callee.args.args if a.arg not in ("self", "cls")]
                    b2 = {p_: resolve(a_) for p_, a_ in zip(ps, c.args)}
                    sub = trace_generated_text(ctx, mod, callee, _depth + 1, b2)
                    if sub["expose"] is not None or not any("no PythonCodeGen" in p_ for p_ in sub["problems"]):
                        sub["problems"] = [p_ for p_ in sub["problems"] if not p_.startswith("returns something other")]
                        return sub
    if ctor is None:
        problems.append("no PythonCodeGen(...).generate() call found: the text comes from somewhere else")
        return {"problems": problems, "wrappers": wrappers, "expose": None}
    a0 = resolve(ctor.args[0]) if ctor.args else None
    if not (isinstance(a0, ast.Call) and dotted(a0.func) == "parse_source"):
        problems.append(f"PythonCodeGen is not fed by parse_source(...) directly: {norm(ctor.args[0]) if ctor.args else '?'}")
    expose = None
    for k in ctor.keywords:
        if k.arg == "expose_experiment_variant_function":
            expose = norm(k.value)
    # names that carry the experiment text or anything computed from it (the parsed tree, the generator, its output)
    params = [a.arg for a in fn.args.args + fn.args.kwonlyargs if a.arg not in ("self", "cls")]
    tainted = set(params[:1])
    changed_ = True
    while changed_:
        changed_ = False
        for nm_, vals_ in assigns.items():
            if nm_ not in tainted and any(isinstance(x, ast.Name) and x.id in tainted for v_ in vals_ for x in ast.walk(v_)):
                tainted.add(nm_)
                changed_ = True

    def clean(e):
        return not any(isinstance(x, ast.Name) and x.id in tainted for x in ast.walk(e))

    def gen_like(e, seen=()):
        """the generator's output, possibly with text in front of / behind it that is computed from none of the tainted names
        (a banner from a separate parameter): the experiment's own text and tokens reach the module through the generator only"""
        if e is gen_call or resolve(e) is gen_call:
            return True
        if isinstance(e, ast.BinOp) and isinstance(e.op, ast.Add):
            return (gen_like(e.left, seen) and clean(e.right)) or (clean(e.left) and gen_like(e.right, seen))
        if isinstance(e, ast.Name) and e.id in assigns:
            if e.id in seen:
                return True
            return all(gen_like(v_, seen + (e.id,)) for v_ in assigns[e.id])
        return False
    sinks = [n for n in ast.walk(fn) if isinstance(n, ast.Call) and dotted(n.func) in ("compile", "format_str", "black.format_str")]
    for s in sinks:
        name = dotted(s.func)
        arg = resolve(s.args[0]) if s.args else None
        if arg is not gen_call and not (s.args and name != "compile" and gen_like(s.args[0])):
            problems.append(f"the text passed to {name}() is not the generator's output alone: {norm(s.args[0])[:100] if s.args else '?'}")
        else:
            wrappers.append(name)
    def is_formatter(f_expr, depth=0):
        """format_str itself, functools.partial(format_str, ...), or a call of a module function that returns one of those"""
        if depth > 3:
            return False
        f_expr = resolve(f_expr)
        if dotted(f_expr) in ("format_str", "black.format_str"):
            return True
        if isinstance(f_expr, ast.Call) and dotted(f_expr.func) in ("partial", "functools.partial") and f_expr.args:
            return is_formatter(f_expr.args[0], depth + 1)
        if isinstance(f_expr, ast.Call) and dotted(f_expr.func) in mod.functions():
            callee = mod.functions()[dotted(f_expr.func)]
            rets = [x.value for x in ast.walk(callee) if isinstance(x, ast.Return) and x.value is not None]
            loc = {}
            for st_ in ast.walk(callee):
                if isinstance(st_, ast.ImportFrom) and st_.module == "black":
                    for al in st_.names:
                        loc[al.asname or al.name] = al.name
            def fm(e, d2=0):
                if isinstance(e, ast.Name) and loc.get(e.id) == "format_str":
                    return True
                if dotted(e) in ("format_str", "black.format_str"):
                    return True
                if isinstance(e, ast.Call) and dotted(e.func) in ("partial", "functools.partial") and e.args and d2 < 3:
                    return fm(e.args[0], d2 + 1)
                return False
            return bool(rets) and all(fm(x) for x in rets)
        return False
    for r in [n for n in ast.walk(fn) if isinstance(n, ast.Return) and n.value is not None]:
        v = resolve(r.value)
        if v is gen_call or gen_like(r.value):
            continue
        if isinstance(v, ast.Call) and dotted(v.func) in ("format_str", "black.format_str"):
            continue
        if isinstance(v, ast.Call) and v.args and is_formatter(v.func) and gen_like(v.args[0]):
            wrappers.append("format_str (through a helper)")
            continue
        problems.append(f"returns something other than the (formatted) generator output: {norm(r.value)[:100]}")
    return {"problems": problems, "wrappers": wrappers, "expose": expose}


def rule_exhaustive_predicates(ctx: Ctx, rid="C02.TRANSLATION-EXHAUSTIVE", max_leaves=4, kinds=("translation", "compile")):
    """Thorough tier: EVERY predicate token sequence with up to 4 comparisons (binary and/or, prefix not, optional
    parentheses) in both layouts, in parallel worker processes."""
    from pyab_static.exhaustive import sweep
    total, fails = sweep(ctx.rep.root, max_leaves)
    fails = [f for f in fails if f[1] in kinds]
    con = f"{GEN}:PythonCodeGen._generate_predicate[all predicates with <= {max_leaves} comparisons]"
    ctx.rep.extra["exhaustive_predicate_instances"] = total
    if fails:
        for label, kind, detail in fails[:5]:
            ctx.rep.bad(rid, con + f" <- {label}", f"{kind}: {detail}", text=f"{label}|{kind}|{detail[:80]}")
    else:
        ctx.rep.ok(rid, con, f"{total} template instances (every predicate shape x 2 layouts) equal the reference reading")
    ctx.rep.floor("exhaustive predicate instances", total, 40000 if max_leaves >= 4 else 1000)

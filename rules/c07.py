"""C07 - every grammatical experiment compiles and evaluates."""
from . import gramrules as GR
from . import lexrules as LR
from . import piperules as PR
from .common import TRUSTED, Ctx


def check(rep):
    ctx = Ctx(rep)
    ctx.shape_options.add("overflow")      # decimals too large for a float (the lexer's float() gives inf)
    if rep.tier == "thorough":
        LR.validate_engine(ctx)
    LR.rule_all_munch(ctx, rid="C07.KEYWORD-MUNCH")
    LR.rule_wordsplit(ctx)
    LR.rule_no_dead(ctx)
    LR.rule_tokens_have_rules(ctx)
    LR.rule_id_total(ctx)
    LR.rule_token_spelling(ctx, rid="C07.TOKEN-SPELLING", directions=("doc<=lexer",))
    # white space of any kind between tokens is part of a grammatical text: it must be skipped, not refused
    LR.rule_trivia_start(ctx, rid="C07.WHITESPACE-SKIPPED")
    from . import evalrules as ER
    # a lexer kept between compilations stays in whatever state the previous text left it (e.g. inside a comment)
    ER.rule_fresh_per_parse(ctx, rid="C07.FRESH-LEXER-PER-PARSE", kinds=("Lexer",))
    GR.rule_conflicts(ctx)
    GR.rule_precedence(ctx, rid="C07.PRECEDENCE-ASSOC", only_errors=True)
    GR.rule_grammar_agrees(ctx, rid="C07.GRAMMAR-ACCEPTS", directions=("ref<=ext",))
    # the evaluator compiles the nested-helper layout (the exposed one is C14's)
    PR.rule_compiles(ctx, layouts=(False,))
    PR.rule_names_bound(ctx, layouts=(False,))
    PR.rule_generator_total(ctx)
    PR.rule_fields_reach_predicates(ctx, "C07.FIELDS-BOUND-BY-NAME", only_other_field=True)
    PR.rule_depth_unbounded(ctx, rid="C07.DEPTH-UNBOUNDED")
    if rep.tier == "thorough":
        PR.rule_exhaustive_predicates(ctx, rid="C07.COMPILES-EXHAUSTIVE", kinds=("compile",))
    PR.rule_trailing_raise(ctx, rid="C07.ENDS-IN-GROUP-OR-UNROUTABLE")
    # what the caller passes reaches the compiled function as it is (a filtered or renamed field is a TypeError/NameError there)
    ER.rule_call_forwards(ctx, rid="C07.CALL-FORWARDS", aspects=("args",))
    PR.rule_literal_terms(ctx, rid="C07.TERM-RENDER")
    PR.rule_ident_positions(ctx)
    # a function whose globals are the dict it is defined in looks its helpers up where `def <experiment name>` rebinds names
    ER.rule_installed_function(ctx, rid="C07.FRESH-NAMESPACE", strict=False, facets=("namespace",))
    # the evaluator execs the text with separate globals/locals: a helper defined at the module level of the generated text
    # lands in the locals dict, where the generated function (whose globals are the evaluator module's) cannot see it
    from . import liferules as LF
    life = LF.lifecycle(ctx)
    if not life["undecided"]:
        info = {"expose": life["facts"].get("expose"), "problems": []}
    else:
        info = PR.trace_generated_text(ctx, ctx.mod("experiment_evaluator.py"),
                                       ctx.mod("experiment_evaluator.py").get_method("ExperimentEvaluator", "recompile"))
    nested_ = [ir["helper_nested"] for o, ir, err in PR.irs(ctx) if ir is not None and not o.expose]
    if life["undecided"] and PR._entry_point_followed(ctx, "recompile") and nested_:
        # what recompile hands to exec was obtained by interpreting recompile itself for every shape: the layout is read off that text
        info = {"expose": "False" if all(nested_) else "True", "problems": []}
    if info.get("expose") is None:
        import ast as _ast
        init = ctx.mod("codegen/python/python_generator.py").get_method("PythonCodeGen", "__init__")
        names = [a.arg for a in init.args.args]
        dflt = dict(zip(names[len(names) - len(init.args.defaults):], init.args.defaults))
        d = dflt.get("expose_experiment_variant_function")
        info["expose"] = repr(d.value) if isinstance(d, _ast.Constant) else None
    rep.check(info.get("expose") in ("False",) and not [p_ for p_ in info["problems"] if "no PythonCodeGen" in p_],
              "C07.EVALUATOR-LAYOUT", "experiment_evaluator.py:ExperimentEvaluator.recompile[layout]",
              "recompile compiles the nested-helper layout (the helper is a closure of the generated function)"
              if info.get("expose") in ("False",) else
              f"recompile compiles the layout expose={info.get('expose')}: the helper is defined at the top level of the exec'd text, "
              "i.e. in the exec locals, and is not visible from the generated function (NameError at evaluation)",
              text=f"expose={info.get('expose')}")
    rep.assume("NOT decided: interpreter limits (recursion depth, CPython's nesting limits) for sizes beyond the explored family; "
               "run-time TypeError from type-incompatible inputs")
    ctx.raise_deferred()
    return ("Decides that no sentence of the grammar can be mis-tokenised (every deviation from maximal munch and every token "
            "boundary inside a word is found by product-automaton search with a witness; no dead rule; every terminal has an "
            "emitting rule), that the LALR table has no conflict left to default resolution and accepts every reference sentence "
            "up to N tokens, and that every shape of the family (shared splitter/condition fields, identifiers and tuples inside "
            "tuples, all operators, chains, nesting) compiles to a module that parses, binds every name it reads, and whose terms "
            "equal the source's. Identifiers colliding with Python keywords/skeleton names are a recorded known finding.", TRUSTED)

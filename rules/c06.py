"""C06 - text outside the grammar is rejected, never silently repaired."""
from . import evalrules as ER
from . import gramrules as GR
from . import lexrules as LR
from .common import TRUSTED, Ctx


def check(rep):
    ctx = Ctx(rep)
    if rep.tier == "thorough":
        LR.validate_engine(ctx)
    LR.rule_lex_error_raises(ctx)
    ctx.check_error_anchors()
    GR.rule_accept_needs_end(ctx)
    ER.rule_tokens_truthy(ctx)
    ER.rule_no_swallow(ctx)
    ER.rule_text_unmodified(ctx, rid="C06.TEXT-UNMODIFIED")
    GR.rule_parse_error_raises(ctx)
    GR.rule_no_error_productions(ctx)
    ER.rule_none_is_error(ctx)
    GR.rule_grammar_agrees(ctx)
    LR.rule_token_spelling(ctx, directions=("lexer<=doc",))
    LR.rule_silent_only_trivia(ctx)
    ER.rule_skip_guard(ctx, rid="C06.SKIP-EXACT")
    ER.rule_commit_order(ctx, rid="C06.NO-ACCEPT-ON-FAILURE", parse_only=True)
    rep.assume("NOT claimed: an unterminated /* at end of input (sly ends tokenising in whatever state)")
    return ("Decides that neither lexer nor parser has a path that drops input and continues (all-paths-raise on both error() "
            "methods, the lexer's reachable because the main state is not total - witness computed; the vendored runtime's "
            "resume/recovery statements are anchored), that no production resynchronises on `error`, that a None parse result "
            "raises, that recompile's only skip is an exact fingerprint match of the whole text and a failed compile records "
            "nothing, and that the extracted grammar equals the documented one on all sentences up to N tokens both ways plus "
            "token-level mutations (LALR table vs an independent Earley recogniser of the reference BNF).", TRUSTED)

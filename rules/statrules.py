"""utils/stats.py decided by abstract interpretation with symbolic numbers.

`probit(alpha)` and `confidence_interval(n, p, confidence, method)` are interpreted (pyab_static.absint) with sympy unknowns for
the numeric arguments; a comparison the unknowns' assumptions do not decide forks the run, and each fork keeps the conditions
it assumed.  The resulting expressions are compared with the documented formulas (CAS normal form, cross-checked on a rational
grid restricted to the points that satisfy the fork's conditions).  The method names are concrete strings: the documented
names, and names that must be refused (unknown ones, substrings of the documented ones, the empty string)."""
from __future__ import annotations

from pyab_static import absint as A

from .common import Ctx

ST = "utils/stats.py"


class Undecided(Exception):
    pass


def _explore(ctx: Ctx, fn_name, make_args, hooks=None, max_runs=64):
    """Runs of one function under every outcome of undecided numeric comparisons.  [(conditions, ('value', v)|('raise', cls))]"""
    import sympy as sp
    m = ctx.mod(ST)
    fn = m.functions().get(fn_name)
    if fn is None:
        raise Undecided(f"{fn_name} not found")
    outs, pending = [], [()]
    while pending:
        ch = pending.pop()
        it = A.Interp(ctx.src, ch)
        it.cache_globals = True
        conds = []

        def oracle(op, ea, eb, it=it, conds=conds):
            d = sp.simplify(ea - eb)
            sign = 1 if d.is_positive else (-1 if d.is_negative else (0 if d.is_zero else None))
            if sign is not None:
                return {"Lt": sign < 0, "LtE": sign <= 0, "Gt": sign > 0, "GtE": sign >= 0, "Eq": sign == 0, "NotEq": sign != 0}[op]
            if d.is_nonnegative and op in ("GtE", "Lt"):
                return op == "GtE"
            if d.is_nonpositive and op in ("LtE", "Gt"):
                return op == "LtE"
            rel = {"Lt": sp.Lt, "LtE": sp.Le, "Gt": sp.Gt, "GtE": sp.Ge, "Eq": sp.Eq, "NotEq": sp.Ne}[op](ea, eb)
            ans = it.choose(f"{rel}")
            conds.append(rel if ans else sp.Not(rel))
            return ans
        it.num_oracle = oracle
        it.num_fact = lambda kind, e: {"isfinite": True, "isinf": False, "isnan": False}[kind]
        it.num_nonnegative = lambda e: bool(e.is_nonnegative)
        if hooks:
            it.call_hooks = hooks(it)
        args, kwargs = make_args()
        try:
            v = it.call(A.FuncVal(m, fn), args, kwargs)
            outs.append((list(conds), ("value", v)))
        except A.NeedChoice:
            pending.append(ch + (True,))
            pending.append(ch + (False,))
        except A.RaiseSig as e:
            outs.append((list(conds), ("raise", e.exc_name)))
        except A.Unsupported as e:
            raise Undecided(str(e))
        if len(outs) + len(pending) > max_runs:
            raise Undecided("too many undecided comparisons")
    return outs


def stats_semantics(ctx: Ctx):
    cached = ctx.__dict__.get("_stats_sem")
    if cached is not None:
        return cached
    import sympy as sp
    res = {"undecided": None}
    a = sp.Symbol("alpha", positive=True)
    n, p, conf = sp.Symbol("n", positive=True), sp.Symbol("p", nonnegative=True), sp.Symbol("confidence", positive=True)
    z = sp.Symbol("z", nonnegative=True)
    try:
        res["probit"] = _explore(ctx, "probit", lambda: ([A.Num(a)], {}))
        zargs = []

        def hooks(it):
            def probit_hook(it_, args, kw, site):
                arg = args[0] if args else kw.get("alpha")
                zargs.append(arg.e if isinstance(arg, A.Num) else arg)
                return A.Num(z)
            return {f"{ST}:probit": probit_hook}
        res["ci"] = {}
        for name in ("wald", "agresti-coull", "Wald", "AGRESTI-COULL"):
            res["ci"][name] = _explore(ctx, "confidence_interval",
                                       lambda name=name: ([A.Num(n), A.Num(p), A.Num(conf)], {"method": A.Tmpl.lit(name)}), hooks)
        res["zargs"] = list(zargs)
        res["unknown"] = {}
        for name in ("no-such-method", "w", "wal", "", "agresti", "coull", "wald ", "a"):
            res["unknown"][name] = _explore(ctx, "confidence_interval",
                                            lambda name=name: ([A.Num(n), A.Num(p), A.Num(conf)], {"method": A.Tmpl.lit(name)}), hooks)
        res["default"] = _explore(ctx, "confidence_interval", lambda: ([A.Num(n), A.Num(p), A.Num(conf)], {}), hooks)
    except Undecided as e:
        res["undecided"] = str(e)
    res["symbols"] = (a, n, p, conf, z)
    ctx.__dict__["_stats_sem"] = res
    return res


def report(ctx: Ctx):
    """Emit the C18 obligations from the abstract runs.  False when undecided (the idiom rule is used instead)."""
    import sympy as sp
    sem = stats_semantics(ctx)
    if sem["undecided"]:
        ctx.rep.note(f"abstract interpretation of utils/stats.py undecided ({sem['undecided'][:140]}): idiom rule used instead")
        return False
    m = ctx.mod(ST)
    a, n, p, conf, z = sem["symbols"]
    site_p = m.site(m.functions()["probit"])
    site_c = m.site(m.functions()["confidence_interval"])
    ctx.rep.unit(f"{ST}:probit (abstract runs: {len(sem['probit'])})")
    ctx.rep.unit(f"{ST}:confidence_interval (abstract runs per method name)")

    def holds(conds, pt):
        try:
            return all(bool(c.subs(pt)) for c in conds)
        except Exception:  # noqa: BLE001
            return True

    # ---- probit
    ref = sp.sqrt(sp.pi / 8) * sp.Abs(sp.log(a / (1 - a)))
    grid = [{a: sp.Rational(k, 40)} for k in range(1, 40)]
    bad = None
    symm_bad = None
    neg = None
    vals = {}
    for pt in grid:
        for conds, (kind, v) in sem["probit"]:
            if not holds(conds, pt):
                continue
            if kind != "value" or not isinstance(v, A.Num):
                bad = bad or (pt[a], f"{kind} {v}")
                continue
            try:
                got = complex(sp.N(v.e.subs(pt)))
                want = complex(sp.N(ref.subs(pt)))
            except Exception:  # noqa: BLE001
                bad = bad or (pt[a], "not a number")
                continue
            vals[pt[a]] = got
            if abs(got - want) > 1e-12:
                bad = bad or (pt[a], f"{got.real:.6g} instead of {want.real:.6g}")
            if got.real < -1e-15 or abs(got.imag) > 1e-15:
                neg = neg or pt[a]
    for k_, v_ in vals.items():
        if (1 - k_) in vals and abs(vals[1 - k_] - v_) > 1e-12:
            symm_bad = symm_bad or k_
    exprs = [v.e for _c, (k_, v) in sem["probit"] if k_ == "value" and isinstance(v, A.Num)]
    cas = len(exprs) == 1 and (sp.simplify(exprs[0] - ref) == 0)
    con = f"{ST}:probit"
    ctx.rep.check(bad is None, "C18.FORMULA", con, "probit(alpha) == sqrt(pi/8) * |ln(alpha/(1-alpha))|" + (" (CAS normal form)" if cas else
                  " (on the rational grid k/40)") if bad is None else
                  f"probit computes {exprs[0] if exprs else '?'}, which differs from the documented sqrt(pi/8)*|ln(alpha/(1-alpha))| "
                  f"(at alpha={float(bad[0]):g}: {bad[1]})", site=site_p, text=f"probit = {exprs[0] if exprs else '?'}")
    ctx.rep.check(symm_bad is None, "C18.SYMMETRIC", con, "probit(alpha) == probit(1-alpha)" if symm_bad is None else
                  f"probit is not symmetric about 1/2 (alpha={float(symm_bad):g})", site=site_p, text="probit symmetry")
    ctx.rep.check(neg is None, "C18.ORDERED-ENDPOINTS", con + "[z >= 0]", "the z-score is non-negative on (0,1)" if neg is None else
                  f"the z-score is negative or not real for some alpha (e.g. {float(neg):g})", site=site_p, text="probit sign")

    # ---- z = probit((1-confidence)/2)
    zbad = [e for e in sem["zargs"] if not (hasattr(e, "free_symbols") and sp.simplify(e - (1 - conf) / 2) == 0)]
    ctx.rep.check(not zbad, "C18.FORMULA", f"{ST}:confidence_interval[z]", "z = probit((1-confidence)/2)" if not zbad else
                  f"z = probit({zbad[0]})", site=site_c, text=f"z arg {zbad[0] if zbad else '(1-confidence)/2'}")

    # ---- the documented methods
    refs = {
        "agresti-coull": ((p * n + z ** 2 / 2) / (n + z ** 2),
                          z * sp.sqrt(((p * n + z ** 2 / 2) / (n + z ** 2)) * (1 - (p * n + z ** 2 / 2) / (n + z ** 2)) / (n + z ** 2))),
        "wald": (p, z * sp.sqrt(p * (1 - p) / n)),
    }
    pts = [{n: nn, p: sp.Rational(pp, 10), z: sp.Rational(zz, 4), conf: sp.Rational(9, 10)} for nn in (1, 7, 1000) for pp in range(0, 11, 2)
           for zz in (1, 8, 13)]
    seen = 0
    for name, runs in sem["ci"].items():
        key = name.lower()
        c_ref, h_ref = refs[key]
        con = f"{ST}:confidence_interval[{key}{'' if name == key else ' as ' + repr(name)}]"
        problem = None
        for pt in pts:
            for conds, (kind, v) in runs:
                if not holds(conds, pt):
                    continue
                if kind == "raise":
                    if name != key:
                        problem = problem or f"the spelling {name!r} is refused ({v}) although method names are matched case-insensitively"
                    else:
                        problem = problem or f"raises {v} for a valid sample (n={pt[n]}, p={pt[p]})"
                    continue
                if not (isinstance(v, A.AList) and len(v.items) == 2 and all(isinstance(x, A.Num) for x in v.items)):
                    problem = problem or f"returns {v!r}, not a pair of numbers"
                    continue
                lo, hi = (x.e for x in v.items)
                try:
                    glo, ghi = complex(sp.N(lo.subs(pt))), complex(sp.N(hi.subs(pt)))
                    wlo, whi = complex(sp.N((c_ref - h_ref).subs(pt))), complex(sp.N((c_ref + h_ref).subs(pt)))
                except Exception:  # noqa: BLE001
                    problem = problem or "the result is not a number on the grid"
                    continue
                if abs(glo - wlo) > 1e-9 or abs(ghi - whi) > 1e-9:
                    problem = problem or (f"returned ({lo}, {hi}) is not (c-h, c+h) of the textbook formula "
                                          f"(n={pt[n]}, p={pt[p]}, z={pt[z]}: ({glo.real:.6g}, {ghi.real:.6g}) instead of ({wlo.real:.6g}, {whi.real:.6g}))")
        seen += 1 if name == key else 0
        ctx.rep.check(problem is None, "C18.FORMULA", con, f"{key}: interval == textbook centre -/+ half-width with the module's z"
                      if problem is None else f"{key}: {problem}", site=site_c, text=f"{key} interval")
        if name == key:
            ctx.rep.check(problem is None, "C18.ORDERED-ENDPOINTS", con, "returns (c - h, c + h) with h = z * sqrt(...) >= 0, so lower <= upper"
                          if problem is None else "endpoints are not c -/+ the same non-negative half-width", site=site_c, text=f"{key} endpoints")
    # ---- names that must be refused
    accepted = [nm for nm, runs in sem["unknown"].items() if any(k_ == "value" for _c, (k_, _v) in runs)]
    ctx.rep.check(not accepted, "C18.UNKNOWN-REFUSED", f"{ST}:confidence_interval[no known method]",
                  "a method name matching none of the known ones raises (unknown names, substrings of the known ones, the empty string)"
                  if not accepted else f"the method name {accepted[0]!r} is not refused: the call returns an interval", site=site_c,
                  text="unknown method names")
    ctx.rep.floor("documented interval methods analysed", seen, 2)
    ctx.rep.floor("unknown-method paths", len(sem["unknown"]), 1)
    return True

"""C16 - the choice function's random.choices-style contract (partial)."""
from . import evalrules as ER
from .common import TRUSTED, Ctx


def check(rep):
    ctx = Ctx(rep)
    ER.rule_args_unmodified(ctx)
    ER.rule_returns_element(ctx)
    ER.rule_guards(ctx)
    ER.rule_unweighted(ctx)
    ER.rule_choice_search(ctx, rid="C16.SHARED-TAIL", parts=("prefix", "clamp"))
    ER.rule_random_guarded(ctx, rid="C16.RANDOM-DELEGATES")
    ER.rule_retained_arguments(ctx, rid="C16.NO-RETAINED-ARGUMENT", modules={"binning/binning.py"})
    ER.rule_value_keyed_caches(ctx, rid="C16.NO-VALUE-KEYED-CACHE", modules={"binning/binning.py"},
                               functions={"deterministic_choice", "deterministic_proba"})
    rep.assume("NOT decided: floor(u*n) == bisect on equal integer weights in floating point")
    rep.assume("random.choices' own contract (never a zero-weight item) is trusted")
    return ("Parameters never mutated (alias-aware); every return is an element read of the population or random.choices(...)[0] "
            "with the three arguments forwarded by keyword; on every path that returns while weights of either kind may be present "
            "the three documented guards were evaluated and the both-kinds case raises TypeError (path enumeration with None-facts); "
            "weights and cum_weights share one tail; the function retains no caller argument and no ==-keyed cache between calls.", TRUSTED)

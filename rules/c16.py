"""C16 - the choice function's random.choices-style contract (partial)."""
from . import evalrules as ER
from .common import TRUSTED, Ctx


def check(rep):
    ctx = Ctx(rep)
    ER.rule_args_unmodified(ctx)
    from . import choicerules as CR
    # abstract interpretation of the function over every ordering class of (prefix sums, u*total) for n <= 4, every malformed
    # argument class and the unweighted call; the syntactic idiom rules are the fallback when it cannot follow the code
    if not CR.report(ctx, "C16"):
        ER.rule_returns_element(ctx)
        ER.rule_guards(ctx)
        ER.rule_unweighted(ctx)
        ER.rule_choice_search(ctx, rid="C16.SHARED-TAIL", parts=("prefix", "clamp"))
    ER.rule_random_guarded(ctx, rid="C16.RANDOM-DELEGATES")
    ER.rule_retained_arguments(ctx, rid="C16.NO-RETAINED-ARGUMENT", modules={"binning/binning.py"})
    ER.rule_value_keyed_caches(ctx, rid="C16.NO-VALUE-KEYED-CACHE", modules={"binning/binning.py"},
                               functions={"deterministic_choice", "deterministic_proba"})
    rep.assume("NOT decided: floor(u*n) == bisect on equal integer weights in floating point")
    rep.assume("random.choices' own contract (never a zero-weight item) is trusted")
    return ("Abstract interpretation of deterministic_choice over the finite domain of orderings (n <= 4 groups, every set of zero weights, "
            "u*total strictly inside a slice / exactly on a boundary / rounded up to the total; weights or running totals; every "
            "malformed-argument class; the unweighted call) - each class must yield the declared group resp. the documented error and "
            "leave the arguments untouched. Fallback when the code leaves that domain: the syntactic rules - "
            "parameters never mutated (alias-aware); every return is an element read of the population or random.choices(...)[0] "
            "with the three arguments forwarded by keyword; on every path that returns while weights of either kind may be present "
            "the three documented guards were evaluated and the both-kinds case raises TypeError (path enumeration with None-facts); "
            "weights and cum_weights share one tail; the function retains no caller argument and no ==-keyed cache between calls.", TRUSTED)

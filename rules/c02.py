"""C02 - compiled routing equals if / else-if / else and operator semantics."""
from . import gramrules as GR
from . import lexrules as LR
from . import piperules as PR
from .common import TRUSTED, Ctx


def check(rep):
    ctx = Ctx(rep)
    if rep.tier == "thorough":
        LR.validate_engine(ctx)
    LR.rule_op_munch(ctx)
    GR.rule_precedence(ctx)
    n = PR.rule_operator_table(ctx)
    rep.floor("operator enum members", n, 11)
    PR.rule_compiles(ctx, rid="C02.SHAPE-COMPILES", strict=False)
    n = PR.rule_translation(ctx, focus="control")
    PR.rule_locals_shadow_fields(ctx, "C02.FIELDS-NOT-SHADOWED", consequence="a predicate on that field compares the function object, not the caller's value")
    PR.rule_fields_reach_predicates(ctx)
    rep.floor("shapes translated and compared with the reference reading", n, 180 if rep.tier == "quick" else 1000)
    PR.rule_trailing_raise(ctx)
    if rep.tier == "thorough":
        PR.rule_exhaustive_predicates(ctx)
    rep.assume("Python's own semantics of if/elif/else, comparison and boolean operators on type-compatible values")
    return ("Translation validation on program shapes: for every shape of a systematic family (all 8 comparison and 3 boolean "
            "operators, literal-first operands, else-if chains, nesting in every position, predicates with minimal and redundant "
            "parentheses; thorough: every predicate token sequence up to 4 comparisons) the token sequence is parsed with the LALR "
            "table built from the extracted productions, the production actions and PythonCodeGen are evaluated abstractly into a "
            "template, the template is parsed by ast.parse, and its control-flow/predicate IR must equal the reference reading "
            "(independent precedence-climbing parser: not > and > or). Plus: operator token order in the master regex (automaton "
            "query), the LALR shift/reduce decisions among not/and/or, exhaustiveness of the operator table, trailing raise.", TRUSTED)

"""Lazily built, shared analysis context for the property rules."""
from __future__ import annotations

import ast
from functools import cached_property

from pyab_static import pipeline as PL
from pyab_static.core import PKG, AnalysisError, Report
from pyab_static.gramspec import SLY_YACC_ANCHORS, SLY_YACC_ERROR_ANCHORS
from pyab_static.lexspec import SLY_LEX_ANCHORS, check_sly_anchors, extract_lexers
from pyab_static.rx import Lexicon
from pyab_static.srcmodel import Source, dotted, norm

TRUSTED = [
    "CPython semantics of the constructs emitted into generated code (if/elif/else, comparison and boolean operators, str(), repr())",
    "stdlib re alternation semantics (first alternative that matches; greedy/lazy quantifiers), modelled by the leftmost-first matcher",
    "the vendored sly runtime as read and anchored (rule order = class-body order; master regex alternation; LALR tables with yacc precedence resolution)",
    "pydantic 1.10 Union validation (left-to-right coercion unless Config.smart_union)",
    "hashlib / bisect / itertools / math / functools behave as documented",
]


class Ctx:
    def __init__(self, rep: Report):
        self.rep = rep
        self.src = Source(rep.root, rep)
        self.shape_options: set = set()     # extra shape groups a property asks for (e.g. "overflow")

    @cached_property
    def lexers(self):
        n = check_sly_anchors(self.src, SLY_LEX_ANCHORS, "sly/lex.py")
        self.rep.note(f"{n} statements of sly/lex.py the lexer model depends on are still present")
        return extract_lexers(self.src)

    @cached_property
    def main(self):
        if "ExperimentLexer" not in self.lexers:
            raise AnalysisError("anchor vanished: class ExperimentLexer")
        return self.lexers["ExperimentLexer"]


    def require_table_driven(self):
        """Called by the rules that reason about where tokens start and end."""
        if self.__dict__.get("_table_driven_checked"):
            return
        self.__dict__["_table_driven_checked"] = True
        # the lexer model reads what is consumed from the rule table (patterns, order, states).  A token action that moves the
        # scanning position or replaces the text itself consumes input outside that table: the model would be wrong about where
        # the next token starts, silently.  (error() is judged by its own rule.)
        for lc in self.lexers.values():
            for st in ast.walk(lc.node):
                if isinstance(st, ast.FunctionDef) and st.name != "error":
                    selfn = st.args.args[0].arg if st.args.args else "self"
                    for x in ast.walk(st):
                        tg = x.targets if isinstance(x, ast.Assign) else ([x.target] if isinstance(x, (ast.AugAssign, ast.AnnAssign)) else [])
                        for t in tg:
                            if isinstance(t, ast.Attribute) and dotted(t.value) == selfn and t.attr in ("index", "text"):
                                raise AnalysisError(f"{lc.name}.{st.name} assigns {selfn}.{t.attr}: a token action that moves the scanning "
                                                    "position consumes input outside the rule table the lexer model is built from")

    @cached_property
    def states(self):
        """Lexer classes that are actually used as lexer states: the main lexer and everything it (transitively)
        pushes or begins.  Abstract base classes that only carry shared rules are not states."""
        seen, todo = [], [self.main.name]
        while todo:
            n = todo.pop()
            if n in seen or n not in self.lexers:
                continue
            seen.append(n)
            for r in self.lexers[n].rules:
                if r.action:
                    todo += [t.split(".")[-1] for t in r.action.pushes + r.action.begins]
        return {n: self.lexers[n] for n in seen}

    def lexicon(self, name) -> Lexicon:
        cache = self.__dict__.setdefault("_lexicons", {})
        if name not in cache:
            lc = self.lexers[name]
            pats = [r.pattern for r in lc.rules]
            names = [r.name for r in lc.rules]
            # sly's `ignore` characters are skipped before the master regex is tried; `literals` after
            if lc.literals:
                raise AnalysisError(f"{name}: sly `literals` specifiers are not modelled")
            cache[name] = Lexicon(pats, names)
            for r in lc.rules:
                self.rep.unit(f"lexer rule {name}.{r.name} = {r.pattern!r}")
        return cache[name]

    @cached_property
    def pipeline(self) -> PL.Pipeline:
        self.lexers  # anchors
        n = check_sly_anchors(self.src, SLY_YACC_ANCHORS, "sly/yacc.py")
        self.rep.note(f"{n} statements of sly/yacc.py the parser model depends on are still present")
        p = PL.Pipeline(self.src)
        for pr in p.grammar.prods[1:]:
            self.rep.unit(f"production {pr}")
        return p

    def check_error_anchors(self):
        n = check_sly_anchors(self.src, SLY_YACC_ERROR_ANCHORS, "sly/yacc.py")
        self.rep.note(f"{n} statements of sly/yacc.py the error-handling model depends on are still present")

    @cached_property
    def grammar(self):
        return self.pipeline.grammar

    @cached_property
    def table(self):
        return self.pipeline.table

    def outcomes(self, tier=None):
        """[(prog, expose, outcome)] for the whole shape family (cached)."""
        tier = tier or self.rep.tier
        cache = self.__dict__.setdefault("_outcomes", {})
        if tier not in cache:
            fam = PL.Family(tier, self.shape_options)
            res = []
            for prog in fam.programs():
                for expose in (False, True):
                    for o in self.pipeline.run(prog, expose):
                        res.append(o)
            cache[tier] = res
            calls = set()
            for o in res:
                calls.update(o.interp.calls)
            for c in sorted(calls):
                self.rep.unit(f"abstractly interpreted {c}")
            pl_ = self.pipeline
            self.rep.note(f"generated text obtained through the library's entry points (ExperimentEvaluator / generate_code interpreted as "
                          f"written) for {pl_.through_entry_point} shape runs, by calling the generator directly for {pl_.direct_generator}")
            self.rep.extra["through_entry_points"] = pl_.through_entry_point
            self.rep.extra["direct_generator"] = pl_.direct_generator
            self.rep.extra["shape_programs"] = len({id(o.prog) for o in res})
            self.rep.extra["template_instances"] = len(res)
        return cache[tier]

    def mod(self, rel):
        return self.src.mod(rel)

    def defer(self, message: str):
        """An 'undecided' verdict that must not keep the remaining rules from running: raised by raise_deferred() at the end."""
        self.__dict__.setdefault("_deferred", []).append(message)

    def raise_deferred(self):
        d = self.__dict__.get("_deferred")
        if d:
            from pyab_static.core import FloorError
            raise FloorError(d[0])


def find_calls(node, name):
    return [n for n in ast.walk(node) if isinstance(n, ast.Call) and dotted(n.func) == name]


def site(mod, node):
    return mod.site(node)

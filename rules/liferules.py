"""The evaluator's lifecycle decided by abstract interpretation of `__init__` / `recompile`.

`recompile` is interpreted (pyab_static.absint; nothing of the package is executed) with the library calls it makes replaced by
opaque stand-ins: parse_source(text) -> an AST value that remembers the text (or None, or an exception), PythonCodeGen(ast,
...).generate() -> a generated-text value that remembers the AST and the layout flag (or an exception), compile() -> a code value
(or SyntaxError), exec(code, globals, locals) -> binds a compiled-function value under the experiment's name in the namespace it
was given (or an exception); hashlib digests are values of the hash domain.  Every schedule of "which of these fails" is explored
(the interpreter forks at each stand-in) for the last operation of a short history; the earlier operations succeed.  What the runs
must show:

  atomic     a run that ends in an exception leaves every attribute of the evaluator as it was (a None parse result must raise);
  switched   the run in which nothing fails leaves, in some attribute, the function compiled from THIS text (text -> AST ->
             nested-layout generated text -> exec), unwrapped;
  recorded   after an accepted text, recompiling the same text again calls nothing and stores nothing;
  exact      the skip decision compares values that are functions of the whole text (the text itself, or a full hashlib digest of
             its encoding);
  ordered    in the successful run every store follows the last step that can fail.

Code the interpreter cannot follow makes the analysis undecided; the syntactic rules of evalrules.py then apply."""
from __future__ import annotations

import ast

from pyab_static import absint as A

from .common import Ctx

EV = "experiment_evaluator.py"


class Undecided(Exception):
    pass


def _gen_signature(ctx: Ctx):
    gm = ctx.mod("codegen/python/python_generator.py")
    init = gm.get_method("PythonCodeGen", "__init__")
    names = [a.arg for a in init.args.args]
    dflt = dict(zip(names[len(names) - len(init.args.defaults):], init.args.defaults))
    d = dflt.get("expose_experiment_variant_function")
    return (d.value if isinstance(d, ast.Constant) else None), names


class _World:
    """Stand-ins and the log of what the interpreted code did with them."""

    def __init__(self, ctx: Ctx, it: A.Interp, sig):
        self.it = it
        self.active = False           # failures are only explored for the last operation of the history
        self.log = []
        self.default_expose, self.gen_params = sig
        it.hash_domain = True
        it.trace = []
        it.call_hooks = {"utils/wraper_functions.py:parse_source": self.parse}
        it.class_hooks = {"PythonCodeGen": self.codegen}
        it.builtin_hooks = {"compile": self.compile, "exec": self.exec, "globals": self.globals_, "eval": self.eval_}
        it.opaque_equal = self.opaque_equal
        # a warning is an exception in a process that runs with warnings as errors (-W error, pytest filterwarnings = error)
        it.ext_hooks = {"warnings.warn": self.warn}

    def opaque_equal(self, a, b, site):
        """`==` between two parsed trees.  pydantic compares models field by field with Python's ==, which does not tell 1 from
        1.0 or True, nor 0 from -0.0: trees parsed from two different texts may compare equal although the experiments differ
        (the type of a returned literal, the sign of a zero).  Both outcomes are explored."""
        if a.tag == "ast" and b.tag == "ast":
            if a.payload is b.payload:
                return True
            ans = self.it.choose(f"the trees parsed from two different texts compare equal (1 == 1.0 == True) at {site}")
            if ans:
                self.log.append(("ast-equal", a, b))
            return ans
        if a.tag == b.tag == "generated-text" and a is not b:
            raise A.Unsupported(f"comparison of two generated texts at {site}")
        return None

    def warn(self, it, args, kwargs, site):
        if self.fails("warnings.warn (in a process that turns warnings into errors) raises", site):
            raise A.RaiseSig("Warning", site, "warnings.warn")
        return None

    def fails(self, what, site):
        self.it.trace.append(("step", what, site))
        return self.active and self.it.choose(f"{what} at {site}")

    def parse(self, it, args, kwargs, site):
        text = args[0] if args else next(iter(kwargs.values()), None)
        self.log.append(("parse", text))
        if self.fails("parse_source raises", site):
            raise A.RaiseSig("LexError", site, "parse_source")
        if self.active and it.choose(f"parse_source returns None at {site}"):
            return None
        name = A.Sym("ident", f"ID:name_of({A._describe(text)})", name=f"exp_{getattr(text, 'uid', 0)}")
        return A.Opaque("ast", payload=text, attrs={"id": name})

    def codegen(self, it, args, kwargs, site):
        bound = dict(zip(self.gen_params[1:], args))
        bound.update(kwargs)
        tree = bound.get("experiment_ast")
        expose = bound.get("expose_experiment_variant_function", self.default_expose)

        def generate(it_, a_, k_, site_):
            self.log.append(("generate", tree, expose))
            if self.fails("generate raises", site_):
                raise A.RaiseSig("RuntimeError", site_, "generate")
            return A.Opaque("generated-text", payload=(tree, expose))
        return A.Opaque("generator", payload=(tree, expose), methods={"generate": generate})

    def compile(self, it, args, kwargs, site):
        src = args[0] if args else kwargs.get("source")
        self.log.append(("compile", src))
        if self.fails("compile raises", site):
            raise A.RaiseSig("SyntaxError", site, "compile")
        return A.Opaque("code", payload=src)

    def globals_(self, it, args, kwargs, site):
        return A.Opaque("module-globals")

    def eval_(self, it, args, kwargs, site):
        raise A.Unsupported(f"eval() at {site}")

    def exec(self, it, args, kwargs, site):
        src = args[0] if args else None
        glb = args[1] if len(args) > 1 else kwargs.get("globals")
        loc = args[2] if len(args) > 2 else kwargs.get("locals")
        if self.fails("exec raises", site):
            self.log.append(("exec", src, glb, loc, False))
            raise A.RaiseSig("NameError", site, "exec")
        self.log.append(("exec", src, glb, loc, True))
        text = src.payload if isinstance(src, A.Opaque) and src.tag == "code" else src
        target = loc if isinstance(loc, A.ADict) else (glb if isinstance(glb, A.ADict) else None)
        if target is not None and isinstance(text, A.Opaque) and text.tag == "generated-text":
            tree = text.payload[0]
            if isinstance(tree, A.Opaque) and tree.tag == "ast":
                fn = A.Opaque("compiled-function", payload={"text": text, "globals": glb, "namespace": target},
                              attrs={"__name__": tree.attrs["id"], "__qualname__": tree.attrs["id"]})
                fn.methods["__call__"] = lambda it_, a_, k_, s_, fn=fn: self.compiled_call(fn, a_, k_, s_)
                target.items[A._key(tree.attrs["id"])] = fn
        return None

    def compiled_call(self, fn, args, kwargs, site):
        self.log.append(("call", fn, list(args), dict(kwargs)))
        if self.fails("the compiled function raises", site):
            raise A.RaiseSig("ExperimentConditionalFailedError", site, "compiled function")
        return A.Opaque("group", payload=fn)


def _snap(attrs):
    return {k: (v, list(v.items) if isinstance(v, (A.AList, A.ASet)) else (dict(v.items) if isinstance(v, A.ADict) else None))
            for k, v in attrs.items()}


def _changed(before, after):
    out = []
    for k in sorted(set(before) | set(after)):
        if k not in before or k not in after:
            out.append(k)
            continue
        v0, c0 = before[k]
        v1, c1 = after[k]
        if v0 is not v1 and not (isinstance(v0, (A.ADigest, A.Tmpl, str, int, float, bool, type(None))) and v0 == v1):
            out.append(k)
        elif c0 != c1:
            out.append(k + " (contents)")
    return out


def explore(ctx: Ctx, history, max_runs=200, then_call=None, settle=False):
    """then_call: after the history (all successful), the last explored operation is evaluator(**then_call).
    settle: when the history ends normally, one call evaluator() is interpreted with no failure explored; rec["served"] is the
    compiled function that call invoked (or ("raise", name)), rec["settled"] the attributes afterwards and rec["settle_log"] what
    the call did.  This is what an observer of the evaluator sees, whether the text is loaded by recompile or by the first call."""
    m = ctx.mod(EV)
    c = m.classes().get("ExperimentEvaluator")
    if c is None:
        raise Undecided("class ExperimentEvaluator not found")
    sig = _gen_signature(ctx)
    outs, pending = [], [()]
    while pending:
        ch = pending.pop()
        it = A.Interp(ctx.src, ch)
        w = _World(ctx, it, sig)
        cls = it.class_val(m, c)
        selfo = A.Obj(cls, {})
        others = {}                  # further evaluators of the same class: history items (k, text) with k >= 1
        rec = {"world": w, "self": selfo, "it": it, "others": others}
        try:
            for i, text in enumerate(history):
                last = i == len(history) - 1 and then_call is None
                w.active = last and not isinstance(text, tuple)
                if last:
                    rec["before"] = _snap(selfo.attrs)
                    it.trace.clear()
                    w.log.clear()
                if isinstance(text, tuple):
                    k, text = text
                    fresh_ = k not in others
                    obj = others.setdefault(k, A.Obj(cls, {}))
                    f = it.class_attr(cls, "__init__" if fresh_ else "recompile", obj, "")
                else:
                    f = it.class_attr(cls, "__init__" if i == 0 else "recompile", selfo, "")
                it.call(f, [text], {})
            if then_call is not None:
                w.active = True
                rec["before"] = _snap(selfo.attrs)
                it.trace.clear()
                w.log.clear()
                f = it.class_attr(cls, "__call__", selfo, "")
                rec["value"] = it.call(f, [], dict(then_call))
            rec["kind"] = "return"
            if settle:
                rec["after"] = _snap(selfo.attrs)
                rec["assume_op"] = list(it.assumptions)
                rec["trace"] = list(it.trace)
                rec["log"] = list(w.log)
                w.active = False
                w.log.clear()
                it.trace = []
                try:
                    f = it.class_attr(cls, "__call__", selfo, "")
                    it.call(f, [], {})
                    calls = [e for e in w.log if e[0] == "call"]
                    rec["served"] = calls[-1][1] if calls else None
                    rec["served_calls"] = len(calls)
                except A.RaiseSig as e:
                    rec["served"] = ("raise", e.exc_name)
                rec["settled"] = _snap(selfo.attrs)
                rec["settle_log"] = list(w.log)
                rec["settle_trace"] = list(it.trace)
                rec["assume"] = list(it.assumptions)
                outs.append(rec)
                if len(outs) + len(pending) > max_runs:
                    raise Undecided("too many undetermined decisions in recompile")
                continue
        except A.NeedChoice:
            pending.append(ch + (True,))
            pending.append(ch + (False,))
            continue
        except A.RaiseSig as e:
            if not w.active:
                raise Undecided(f"an earlier operation of the history raises {e.exc_name} ({e.site})")
            rec["kind"], rec["exc"], rec["site"] = "raise", e.exc_name, e.site
        except A.Unsupported as e:
            raise Undecided(str(e))
        rec["after"] = _snap(selfo.attrs)
        rec["assume"] = list(it.assumptions)
        rec["trace"] = list(it.trace)
        rec["log"] = list(w.log)
        outs.append(rec)
        if len(outs) + len(pending) > max_runs:
            raise Undecided("too many undetermined decisions in recompile")
    return outs


def _explore_after_method(ctx: Ctx, fnode, T0, T1):
    """('served', function) after evaluator(T0); <method>(...); recompile(T1); evaluator() - or ('skipped', reason) when the method
    cannot be followed or raises on the arguments tried (a text parameter gets T1, parameters with defaults keep them, others get
    opaque values)."""
    m = ctx.mod(EV)
    c = m.classes()["ExperimentEvaluator"]
    pending = [()]
    while pending:
        ch = pending.pop()
        it = A.Interp(ctx.src, ch)
        w = _World(ctx, it, _gen_signature(ctx))
        cls = it.class_val(m, c)
        try:
            selfo = it.instantiate(cls, [T0], {}, "")
            if not isinstance(selfo, A.Obj):
                return ("skipped", "construction")
            a = fnode.args
            params = [x for x in a.posonlyargs + a.args][1:]
            n_def = len(a.defaults)
            args = []
            for i, prm in enumerate(params):
                has_default = i >= len(params) - n_def
                ann = A.norm(prm.annotation) if prm.annotation is not None else ""
                texty = prm.arg in ("source", "source_code", "text", "code", "candidate", "experiment", "src", "new_source") or ann in ("str",)
                if texty:
                    args.append(T1)
                elif has_default:
                    break
                else:
                    args.append(A.Sym("str", f"ARG:{prm.arg}"))
            try:
                it.call(it.class_attr(cls, fnode.name, selfo, ""), args, {})
            except A.RaiseSig:
                pass                 # the method refused its arguments: the evaluator must still be sound afterwards
            it.call(it.class_attr(cls, "recompile", selfo, ""), [T1], {})
            w.log.clear()
            try:
                it.call(it.class_attr(cls, "__call__", selfo, ""), [], {})
            except A.RaiseSig as e:
                return ("served", ("raise", e.exc_name))
            calls = [e for e in w.log if e[0] == "call"]
            return ("served", calls[-1][1] if calls else None)
        except A.NeedChoice:
            pending.append(ch + (True,))
            pending.append(ch + (False,))
            if len(pending) > 16:
                return ("skipped", "too many undetermined decisions")
            continue
        except (A.Unsupported, A.RaiseSig) as e:
            return ("skipped", str(e)[:120])
    return ("skipped", "no run")


def _explore_copy(ctx: Ctx, history, proto):
    """[(protocol method, function served by the copy)] after the (successful) history.  Follows __reduce__ / __reduce_ex__ returning
    (callable, args[, state]), __copy__ and __deepcopy__; other protocol methods make the question undecided."""
    m = ctx.mod(EV)
    c = m.classes()["ExperimentEvaluator"]
    out = []
    for how in proto:
        if how not in ("__reduce__", "__reduce_ex__", "__copy__", "__deepcopy__"):
            raise Undecided(f"the evaluator defines {how}, which the analyser does not follow")
        it = A.Interp(ctx.src, ())
        w = _World(ctx, it, _gen_signature(ctx))
        cls = it.class_val(m, c)
        selfo = A.Obj(cls, {})
        try:
            for i, text in enumerate(history):
                it.call(it.class_attr(cls, "__init__" if i == 0 else "recompile", selfo, ""), [text], {})
            f = it.class_attr(cls, how, selfo, "")
            r = it.call(f, [4] if how == "__reduce_ex__" else ([A.ADict({})] if how == "__deepcopy__" else []), {})
            if how in ("__reduce__", "__reduce_ex__"):
                if not (isinstance(r, A.AList) and 2 <= len(r.items) <= 3):
                    raise Undecided(f"{how} returns {r!r}")
                fn_, args_ = r.items[0], r.items[1]
                if not isinstance(args_, A.AList):
                    raise Undecided(f"{how} returns arguments {args_!r}")
                new = it.apply(fn_, list(args_.items), {}, "")
                if len(r.items) == 3 and r.items[2] is not None:
                    st = r.items[2]
                    if not (isinstance(new, A.Obj) and isinstance(st, A.ADict)):
                        raise Undecided(f"{how} returns state {st!r}")
                    try:
                        it.call(it.class_attr(cls, "__setstate__", new, ""), [st], {})
                    except A.Unsupported:
                        for k_, v_ in st.items.items():
                            new.attrs[it._unkey(k_).text() if isinstance(it._unkey(k_), A.Tmpl) else str(k_)] = v_
            else:
                new = r
            if not isinstance(new, A.Obj):
                raise Undecided(f"{how} does not produce an evaluator object ({new!r})")
            w.log.clear()
            try:
                it.call(it.class_attr(cls, "__call__", new, ""), [], {})
                calls = [e for e in w.log if e[0] == "call"]
                out.append((how, calls[-1][1] if calls else None))
            except A.RaiseSig as e:
                out.append((how, ("raise", e.exc_name)))
        except A.NeedChoice:
            raise Undecided(f"{how}: undetermined decision")
        except A.RaiseSig as e:
            raise Undecided(f"{how} raises {e.exc_name}")
        except A.Unsupported as e:
            raise Undecided(str(e))
    return out


def _abs_eq(a, b, depth=0):
    """Structural equality of abstract values (object identity of containers and stand-ins does not matter)."""
    if depth > 6:
        return True
    if isinstance(a, A.Opaque) and isinstance(b, A.Opaque):
        if a.tag != b.tag:
            return False
        if a.tag == "compiled-function":
            return _abs_eq(a.payload["text"], b.payload["text"], depth + 1)
        if a.tag in ("generated-text", "generator"):
            return _abs_eq(a.payload[0], b.payload[0], depth + 1) and a.payload[1] == b.payload[1]
        if a.tag in ("ast", "code"):
            return _abs_eq(a.payload, b.payload, depth + 1)
        return True
    if isinstance(a, A.Sym) and isinstance(b, A.Sym):
        return a.uid == b.uid or (a.kind == "ident" and b.kind == "ident" and a.name == b.name)
    if isinstance(a, A.ADict) and isinstance(b, A.ADict):
        return list(a.items) == list(b.items) and all(_abs_eq(a.items[k], b.items[k], depth + 1) for k in a.items)
    if isinstance(a, (A.AList, A.ASet)) and isinstance(b, (A.AList, A.ASet)):
        return len(a.items) == len(b.items) and all(_abs_eq(x, y, depth + 1) for x, y in zip(a.items, b.items))
    if isinstance(a, A.Obj) and isinstance(b, A.Obj):
        return a.cls.name == b.cls.name and set(a.attrs) == set(b.attrs) and all(_abs_eq(a.attrs[k], b.attrs[k], depth + 1) for k in a.attrs)
    if isinstance(a, A.Tmpl) and isinstance(b, A.Tmpl):
        return a.parts == b.parts
    if type(a) is not type(b):
        return False
    try:
        return a == b
    except Exception:  # noqa: BLE001
        return a is b


def _reach(v, depth=0, seen=None):
    """All stand-ins reachable from an abstract value."""
    seen = seen if seen is not None else set()
    if id(v) in seen or depth > 6:
        return
    seen.add(id(v))
    if isinstance(v, A.Opaque):
        yield v
    elif isinstance(v, A.ADict):
        for x in v.items.values():
            yield from _reach(x, depth + 1, seen)
    elif isinstance(v, (A.AList, A.ASet)):
        for x in v.items:
            yield from _reach(x, depth + 1, seen)
    elif isinstance(v, A.Obj):
        for x in v.attrs.values():
            yield from _reach(x, depth + 1, seen)
    elif isinstance(v, A.PartialVal):
        for x in [v.func] + list(v.args) + list(v.kwargs.values()):
            yield from _reach(x, depth + 1, seen)


def _exact_fingerprint(v, text):
    """Is v a function of the whole text that distinguishes texts: the text itself or a full hashlib digest of its encoding?"""
    import hashlib
    if v is text:
        return True, "the text itself"
    if isinstance(v, A.Opaque) and v.tag == "object-id":
        return False, ("id() is the address of the string object, not a function of its characters: once the previous text has been freed a "
                       "different text can be given the same address")
    if isinstance(v, A.ABytes):
        if v.src is not text:
            return False, "the bytes compared are not those of the whole text"
        if v.errors not in ("strict", "surrogatepass"):
            return False, f"the text is encoded with the error handler {v.errors!r}, under which two different texts can give the same bytes"
        return True, f"the {v.codec} encoding of the text itself"
    if isinstance(v, A.ADigest):
        whole = len(v.data) == 1 and isinstance(v.data[0], A.ABytes) and v.data[0].src is text
        full = v.lo in (0, None) and v.hi is None and v.step is None
        algo = v.algo in hashlib.algorithms_guaranteed
        # only the strict handler (and surrogatepass, which gives lone surrogates byte sequences of their own) keeps different texts
        # apart: ignore / replace drop characters, surrogateescape maps a lone surrogate onto the byte of another text's character,
        # the *replace handlers write escapes that another text can spell out
        lossy = isinstance(v.data[0], A.ABytes) and v.data[0].errors not in ("strict", "surrogatepass") if whole else False
        why = []
        if not whole:
            why.append("it is not computed from the whole text")
        if not full:
            why.append(f"only the slice [{v.lo}:{v.hi}] of the digest is kept")
        if not algo:
            why.append(f"{v.algo} is not a hashlib digest")
        if lossy:
            why.append(f"the text is encoded with the error handler {v.data[0].errors!r}, under which two different texts can give the same bytes")
        return (whole and full and algo and not lossy), ("; ".join(why) or f"full {v.algo} digest of the text")
    return None, f"a value of kind {type(v).__name__}"


def lifecycle(ctx: Ctx):
    """{'undecided': reason|None, 'findings': {kind: [(construct, message)]}, 'facts': {...}} (cached)."""
    cached = ctx.__dict__.get("_lifecycle")
    if cached is not None:
        return cached
    res = {"undecided": None, "findings": {k: [] for k in ("atomic", "none", "switched", "layout", "fed", "unwrapped", "recorded", "exact", "ordered",
                                                           "unparsed", "isolated", "copied")},
           "facts": {}}
    T0, T1 = A.Sym("str", "TEXT0"), A.Sym("str", "TEXT1")
    try:
        construct = explore(ctx, [T0])
        runs = explore(ctx, [T0, T1], settle=True)
        again = explore(ctx, [T0, T1, T1])
        first = explore(ctx, [T0, T0])
    except Undecided as e:
        res["undecided"] = str(e)
        ctx.__dict__["_lifecycle"] = res
        return res
    F = res["findings"]
    res["facts"]["schedules"] = len(runs)
    for r in construct:
        if r["kind"] == "return" and not any(e[0] == "parse" for e in r["log"]):
            why = [a.split(" at ")[0] for a in r["assume"] if a.endswith("=True")]
            F["unparsed"].append(("__init__[text not parsed]", "an evaluator can be constructed from a text without that text being parsed: the "
                                  f"first recompile is skipped when {'; '.join(why) or 'the skip test holds'} - i.e. when the text equals the "
                                  "value the stored fingerprint starts with (the empty text): no error, and no experiment loaded"))
            break
    # runs whose history already began with such a text say nothing about ordinary texts
    def ordinary(r_):
        return not any("literal" in a and a.endswith("=True") for a in r_["assume"])
    runs = [r_ for r_ in runs if ordinary(r_)]
    again = [r_ for r_ in again if ordinary(r_)]
    first = [r_ for r_ in first if ordinary(r_)]

    def sched(r):
        yes = [a.split(" at ")[0] for a in r["assume"] if a.endswith("=True")]
        return ", ".join(yes) or "nothing fails"
    ok_runs = []
    for r in runs:
        failing = [a for a in r["assume"] if a.endswith("=True") and ("raises at" in a or "returns None at" in a)]
        if r["kind"] == "raise":
            ch = _changed(r["before"], r["after"])
            if ch:
                F["atomic"].append((f"recompile[{sched(r)}]", f"when {sched(r)} the call ends in {r['exc']} but has already changed "
                                    f"self.{ch[0]}: a failed recompile must change nothing (and must fail again when retried)"))
        else:
            if any("returns None at" in a for a in failing):
                F["none"].append((f"recompile[{sched(r)}]", "when parse_source returns None the call returns normally instead of raising"))
            elif failing:
                F["atomic"].append((f"recompile[{sched(r)}]", f"when {sched(r)} the call returns normally: the failure is swallowed"))
            elif any(t[0] == "step" for t in r["trace"]):
                ok_runs.append(r)
    if not ok_runs:
        res["undecided"] = "no run of recompile(new text) in which nothing fails reaches the compile steps"
        ctx.__dict__["_lifecycle"] = res
        return res
    for r in ok_runs:
        newfn = {}
        for k, (v, _c) in r["after"].items():
            for o in _reach(v):
                if o.tag == "compiled-function" and not any(o is p_ for kk, (vv, _cc) in r["before"].items() for p_ in _reach(vv)):
                    newfn[k] = o
        served = r.get("served")
        lazy = False
        if any(e[0] == "exec" and e[4] for e in r.get("settle_log", [])):
            newfn = {}          # (objects in the snapshot were completed by the call that followed)
        if not newfn and isinstance(served, A.Opaque) and served.tag == "compiled-function" and not any(
                served is p_ for kk, (vv, _cc) in r["before"].items() for p_ in _reach(vv)):
            # the text is loaded by the first call rather than by recompile: what matters is the function that call runs
            newfn = {"<the function the next call runs>": served}
            lazy = True
            res["facts"]["deferred_load"] = True
        if not newfn:
            wrapped = [k for k in _changed(r["before"], r["after"])]
            if any(e[0] == "ast-equal" for e in r["log"]):
                F["switched"].append(("recompile[trees compare equal]", "recompile keeps the function it has when the tree parsed from the new "
                                      "text compares equal (==) to the previous one; model equality does not distinguish 1 from 1.0 or True "
                                      "(0 from -0.0), so a text that only changes the type of a numeric literal is accepted while the "
                                      "evaluator keeps returning the old values"))
            else:
                F["switched"].append(("recompile[nothing fails]", "after a successful recompile the function compiled from the new text is not "
                                      f"reachable from the evaluator (attributes changed: {wrapped})"))
            continue
        for k, fn in newfn.items():
            text = fn.payload["text"]
            tree, expose = text.payload
            res["facts"]["expose"] = repr(expose)
            if not (isinstance(tree, A.Opaque) and tree.tag == "ast" and tree.payload is T1):
                F["fed"].append((f"recompile[{k}]", "the function installed was not compiled from the text given to this call"))
            if expose is not False:
                F["layout"].append((f"recompile[{k}]", f"recompile compiles the layout expose={expose!r}: the helper is defined at the top "
                                    "level of the exec'd text, i.e. in the exec locals, and is not visible from the generated function"))
        res["facts"]["parse_args_wrong"] = [repr(e[1]) for e in r["log"] if e[0] == "parse" and e[1] is not T1]
        execs = [e for e in r["log"] + (r.get("settle_log", []) if lazy else []) if e[0] == "exec" and e[4]]
        res["facts"]["execs"] = len(execs)
        before_objs = {id(o_) for kk, (vv, _cc) in r["before"].items() for o_ in [vv]}
        for e in execs:
            glb, loc = e[2], e[3]
            g_ok = glb is None or (isinstance(glb, A.Opaque) and glb.tag == "module-globals")
            l_ok = isinstance(loc, A.ADict) and id(loc) not in before_objs and not any(loc is v_ for v_ in r["it"].class_attr_cache.values())
            res["facts"].setdefault("namespaces", []).append((g_ok, l_ok, repr(glb)[:60], type(loc).__name__))
        for e in execs:
            src = e[1]
            inner = src.payload if isinstance(src, A.Opaque) and src.tag == "code" else src
            if not (isinstance(inner, A.Opaque) and inner.tag == "generated-text"):
                F["fed"].append(("recompile[exec]", f"exec runs {src!r}, which is not the generator's output alone"))
        stores = [i for i, t in enumerate(r["trace"]) if t[0] == "store" and t[1] is r["self"]]
        steps = [i for i, t in enumerate(r["trace"]) if t[0] == "step"]
        if stores and steps and min(stores) < max(steps):
            t = r["trace"][min(stores)]
            F["ordered"].append((f"recompile[self.{t[2]}]", f"self.{t[2]} is stored before {r['trace'][max(steps)][1].split()[0]} has "
                                 "succeeded: a call racing this recompile can see the new value although the recompile then fails"))
        res["facts"]["stores"] = [t[2] for t in r["trace"] if t[0] == "store" and t[1] is r["self"]]
        # what the skip decision compared
        cmps = [t for t in r["trace"] if t[0] == "compare"]
        res["facts"]["compares"] = len(cmps)
        involved = 0
        for t in cmps:
            for side in (t[1], t[2]):
                of_new = side is T1 or (isinstance(side, A.Opaque) and side.tag == "object-id" and side.payload is T1) or (
                    isinstance(side, A.ABytes) and side.src is T1) or (isinstance(side, A.ADigest) and any(isinstance(d_, A.ABytes) and d_.src is T1 for d_ in side.data))
                if of_new:
                    involved += 1
                    okx, why = _exact_fingerprint(side, T1)
                    if okx is False:
                        F["exact"].append(("recompile[skip test]", f"the value compared to decide whether the text changed is not an exact "
                                           f"fingerprint of it: {why}"))
        if cmps and not involved:
            F["exact"].append(("recompile[skip test]", "the comparison that decides whether the text changed does not involve a value computed "
                               "from the new text"))
    # the state a call reads must be that of a fresh evaluator built from the last accepted text, whatever came before
    try:
        from .evalrules import _call_path_reads
        m = ctx.mod(EV)
        c = m.classes()["ExperimentEvaluator"]
        whole = set(res["facts"].get("stores", []))
        read = set(_call_path_reads(m, c, whole_written=whole))
        res["facts"]["call_reads"] = sorted(read)

        def final_state(history):
            rs_ = [r_ for r_ in explore(ctx, history, settle=True) if r_["kind"] == "return" and not any(
                a.endswith("=True") and ("raises at" in a or "returns None at" in a) for a in r_["assume"])]
            return rs_
        fresh = {id(t): final_state([t]) for t in (T0, T1)}
        for hist, label in (([T0, T1], "recompile(B) after A"), ([T0, T1, T0], "recompile(A) after A, B"),
                            ([T0, T1, T0, T1], "recompile(B) after A, B, A")):
            want = fresh[id(hist[-1])]
            got = final_state(hist)
            if not want or not got:
                continue
            sa, sb = got[0].get("served"), want[0].get("served")
            if not (_abs_eq(sa, sb) if isinstance(sa, A.Opaque) and isinstance(sb, A.Opaque) else sa == sb):
                def _d(x):
                    if isinstance(x, A.Opaque) and x.tag == "compiled-function":
                        t_ = x.payload["text"].payload[0]
                        return f"the function compiled from {A._describe(t_.payload) if isinstance(t_, A.Opaque) else t_!r}"
                    return "no compiled function" if x is None else f"{x!r}"
                F["switched"].append((f"recompile[{label}: served function]", f"after {label} a call runs {_d(sa)}, whereas on a fresh evaluator "
                                      f"built from the same last text it runs {_d(sb)}: the evaluator's behaviour depends on the texts it "
                                      "saw before"))
                continue
            # compare what a call reads once the evaluator has served one call (a text may be loaded by the first call)
            for attr in sorted(read):
                a_ = got[0]["settled"].get(attr, (None,))[0]
                b_ = want[0]["settled"].get(attr, (None,))[0]
                if not _abs_eq(a_, b_):
                    F["switched"].append((f"recompile[{label}: self.{attr}]", f"after {label} the attribute self.{attr}, which a call reads, is not "
                                          f"what a fresh evaluator built from the same last text holds ({a_!r} vs {b_!r}): the evaluator's "
                                          "behaviour depends on the texts it saw before"[:400]))
                    break
    except Undecided:
        pass
    # operations on a second evaluator must not show on the first one
    try:
        T2 = A.Sym("str", "TEXT2")
        alone = [r_ for r_ in explore(ctx, [T0], settle=True) if r_["kind"] == "return" and ordinary(r_)]
        for hist, label in (([T0, (1, T1)], "constructing a second evaluator from another text"),
                            ([T0, (1, T1), (1, T2)], "recompiling a second evaluator")):
            both = [r_ for r_ in explore(ctx, hist, settle=True) if r_["kind"] == "return" and ordinary(r_)]
            if not alone or not both:
                continue
            sa, sb = both[0].get("served"), alone[0].get("served")
            same = _abs_eq(sa, sb) if isinstance(sa, A.Opaque) and isinstance(sb, A.Opaque) else sa == sb
            if not same:
                def _d2(x):
                    if isinstance(x, A.Opaque) and x.tag == "compiled-function":
                        t_ = x.payload["text"].payload[0]
                        return f"the function compiled from {A._describe(t_.payload) if isinstance(t_, A.Opaque) else t_!r}"
                    return "no compiled function" if x is None else f"{x!r}"
                F["isolated"].append((f"recompile[{label}]", f"after {label}, a call on the first evaluator (built from TEXT0) runs {_d2(sa)} "
                                      f"instead of {_d2(sb)}: evaluators share the state recompile writes, so an operation on one changes "
                                      "what another returns"))
                break
            ch = _changed(both[0]["before"], both[0]["after"])
            if ch:
                F["isolated"].append((f"recompile[{label}: self.{ch[0]}]", f"{label} changes the attribute {ch[0]} of the first evaluator"))
                break
        res["facts"]["two_evaluators"] = True
    except Undecided:
        pass
    # every other public method of the class is an operation too: whatever it does, a recompile(X) that follows must make the
    # evaluator serve X (a dry run that records the candidate's fingerprint makes the real recompile a no-op)
    try:
        m_ = ctx.mod(EV)
        c_ = m_.classes()["ExperimentEvaluator"]
        others_ = []
        for f_ in c_.body:
            if not isinstance(f_, ast.FunctionDef) or f_.name.startswith("__") or f_.name in ("recompile", "run_experiment"):
                continue
            decos_ = {(A.dotted(d_.func) if isinstance(d_, ast.Call) else A.dotted(d_)) or "" for d_ in f_.decorator_list}
            if decos_ & {"property", "staticmethod", "classmethod", "contextmanager", "contextlib.contextmanager", "cached_property",
                         "functools.cached_property"} or any(x.endswith(".setter") for x in decos_):
                continue
            others_.append(f_)
        res["facts"]["other_methods"] = []
        for f_ in others_:
            out_ = _explore_after_method(ctx, f_, T0, T1)
            res["facts"]["other_methods"].append((f_.name, out_[0]))
            if out_[0] == "served" and not (isinstance(out_[1], A.Opaque) and out_[1].tag == "compiled-function" and isinstance(
                    out_[1].payload["text"].payload[0], A.Opaque) and out_[1].payload["text"].payload[0].payload is T1):
                def _d4(x):
                    if isinstance(x, A.Opaque) and x.tag == "compiled-function":
                        t_ = x.payload["text"].payload[0]
                        return f"the function compiled from {A._describe(t_.payload) if isinstance(t_, A.Opaque) else t_!r}"
                    return "no compiled function" if x is None else f"{x!r}"
                F["switched"].append((f"{f_.name}[then recompile]", f"on an evaluator built from TEXT0, {f_.name}(...TEXT1...) followed by "
                                      f"recompile(TEXT1) leaves a call running {_d4(out_[1])}: the method changes what the skip test of "
                                      "recompile compares (or what a call reads) without loading the text, so the recompile that follows "
                                      "is skipped or overridden"))
    except (Undecided, KeyError):
        pass
    # a copy / pickle protocol defined by the class: the copy must be an evaluator of the text the original serves NOW
    try:
        m_ = ctx.mod(EV)
        c_ = m_.classes()["ExperimentEvaluator"]
        proto = [f_.name for f_ in c_.body if isinstance(f_, ast.FunctionDef) and f_.name in (
            "__reduce__", "__reduce_ex__", "__copy__", "__deepcopy__", "__getstate__", "__setstate__", "__getnewargs__", "__getnewargs_ex__")]
        res["facts"]["copy_protocol"] = proto
        if proto:
            cp = _explore_copy(ctx, [T0, T1], proto)
            want_text = T1
            for how, served in cp:
                ok_ = isinstance(served, A.Opaque) and served.tag == "compiled-function" and \
                    isinstance(served.payload["text"].payload[0], A.Opaque) and served.payload["text"].payload[0].payload is want_text
                if not ok_:
                    def _d3(x):
                        if isinstance(x, A.Opaque) and x.tag == "compiled-function":
                            t_ = x.payload["text"].payload[0]
                            return f"the function compiled from {A._describe(t_.payload) if isinstance(t_, A.Opaque) else t_!r}"
                        return "no compiled function" if x is None else f"{x!r}"
                    F["copied"].append((f"{how}[copy after recompile]", f"an evaluator built from TEXT0 and recompiled to TEXT1, when copied "
                                        f"or pickled through its {how}, gives an evaluator that runs {_d3(served)}: the copy does not "
                                        "behave like the evaluator it was made from (nor like a fresh evaluator of the last accepted text)"))
    except Undecided as e:
        raise_later = str(e)
        res["facts"]["copy_protocol_undecided"] = raise_later
    for label, rs in (("after a successful recompile", again), ("after construction", first)):
        for r in rs:
            steps = [t for t in r["trace"] if t[0] == "step"]
            stores = [t for t in r["trace"] if t[0] == "store" and t[1] is r["self"]]

            def _same_as_before(t, r=r):
                # storing the value the attribute already has (instance attribute, or the class-level default it shadows)
                if t[2] in r["before"]:
                    old_ = r["before"][t[2]][0]
                else:
                    try:
                        old_ = r["it"].class_attr(r["self"].cls, t[2], None, "")
                    except Exception:  # noqa: BLE001
                        return False
                new_ = t[3]
                return (old_ is None and new_ is None) or (isinstance(old_, (bool, int, str, A.Tmpl, A.ADigest)) and type(old_) is type(new_)
                                                           and old_ == new_)
            stores = [t for t in stores if not _same_as_before(t)]
            if r["kind"] != "return" or steps or stores:
                what = f"calls {steps[0][1].split()[0]}" if steps else (f"stores self.{stores[0][2]}" if stores else f"raises {r.get('exc')}")
                F["recorded"].append((f"recompile[same text {label}]", f"recompiling the text that was just accepted ({label}) is not a no-op: "
                                      f"it {what} - the fingerprint recorded is not the one the skip test compares"))
                break
    ctx.__dict__["_lifecycle"] = res
    return res


def decide(ctx: Ctx, rid: str, kinds, construct=f"{EV}:ExperimentEvaluator.recompile", ok_text="", only=None):
    """Report the lifecycle findings of the given kinds under rule id `rid`.  False when undecided (caller falls back).
    `only`: predicate on the finding's construct (e.g. parse failures only)."""
    life = lifecycle(ctx)
    if life["undecided"]:
        note = f"lifecycle interpretation undecided ({life['undecided'][:140]}): syntactic rules used instead"
        if note not in ctx.rep.notes:
            ctx.rep.note(note)
        return False
    m = ctx.mod(EV)
    rec = m.get_method("ExperimentEvaluator", "recompile")
    any_bad = False
    for k in kinds:
        for con, msg in life["findings"][k]:
            if only is not None and not only(con):
                continue
            any_bad = True
            ctx.rep.bad(rid, f"{EV}:ExperimentEvaluator.{con}", msg, site=m.site(rec), text=f"{k}: {con}")
    if not any_bad:
        ctx.rep.ok(rid, construct, ok_text or f"abstract runs of recompile over {life['facts'].get('schedules')} failure schedules: "
                   f"{', '.join(kinds)} hold", site=m.site(rec))
    ctx.rep.unit(f"{EV}:ExperimentEvaluator.recompile (abstract runs: {life['facts'].get('schedules')} schedules)")
    return True


def call_semantics(ctx: Ctx):
    """Abstract runs of evaluator(**fields) on an evaluator built from one text: what the compiled function receives, what the call
    returns, what it stores, and what happens when the compiled function raises."""
    cached = ctx.__dict__.get("_call_sem")
    if cached is not None:
        return cached
    res = {"undecided": None, "findings": {"result": [], "args": [], "errors": []}}
    T0 = A.Sym("str", "TEXT0")
    # one field of every kind a caller may pass (opaque and concrete): conversions that only touch some kinds must show
    fields = {"user_id": A.Sym("int", "FIELD:user_id"), "country": A.Sym("str", "FIELD:country"), "flag": True, "extra": None,
              "ratio": 2.0, "score": 0.5, "big": 10 ** 30, "label": A.Tmpl.lit("x"), "pair": A.AList([1, A.Tmpl.lit("a")], "tuple"),
              # keyword arguments are dictionary keys: any spelling can arrive (**row), also a Python keyword and its usual stand-in
              "class": A.Sym("str", "FIELD:class"), "class_": A.Sym("str", "FIELD:class_")}
    # a field may have ANY name, also the name of a parameter that __call__ (or a method it forwards to) declares: a keyword-capable
    # parameter takes such a field away from the experiment
    try:
        m0 = ctx.mod(EV)
        c0 = m0.classes()["ExperimentEvaluator"]
        for f_ in c0.body:
            if isinstance(f_, ast.FunctionDef) and f_.name in ("__call__", "run_experiment", "evaluate"):
                for a_ in f_.args.args[1:] + f_.args.kwonlyargs:
                    fields.setdefault(a_.arg, A.Sym("str", f"FIELD:{a_.arg}"))
    except KeyError:
        pass
    try:
        runs = explore(ctx, [T0], then_call=fields)
    except Undecided as e:
        res["undecided"] = str(e)
        ctx.__dict__["_call_sem"] = res
        return res
    F = res["findings"]
    for r in runs:
        calls = [e for e in r["log"] if e[0] == "call"]
        raising = any("compiled function raises" in a and a.endswith("=True") for a in r["assume"])
        if any(a.endswith("=True") and ("raises at" in a or "returns None at" in a) and "compiled function raises" not in a for a in r["assume"]):
            continue        # a step of a deferred load fails inside the call: not a run of the compiled function
        stores = [t for t in r["trace"] if t[0] == "store" and t[1] is r["self"]]
        changed = _changed(r["before"], r["after"])
        if stores or changed:
            F["result"].append(("__call__[state]", f"a call changes the evaluator (self.{(stores[0][2] if stores else changed[0])}): "
                                "a later call can be answered from what an earlier one left behind"))
        # the evaluator only hands the fields on.  Converting one to text (str/repr/format, an f-string) is an operation of its own:
        # it runs for every field, also for ones the experiment never reads, and it can fail where forwarding cannot (repr of an
        # int beyond the digit limit, a value whose __repr__ raises)
        def _holds_field(x, depth=0):
            if any(x is f_ for f_ in fields.values()):
                return True
            if depth < 3 and isinstance(x, (A.AList, A.ASet)):
                return any(_holds_field(y, depth + 1) for y in x.items)
            if depth < 3 and isinstance(x, A.ADict):
                return any(_holds_field(y, depth + 1) for y in x.items.values())
            return False
        for t in r["trace"]:
            if t[0] == "render" and _holds_field(t[1]):
                F["args"].append(("__call__[field converted to text]", f"the call converts the caller's fields to text ({t[2]}() at {t[3]}) "
                                  "before/besides handing them on: the conversion is applied to every field, also to ones the experiment "
                                  "does not read, and raises where forwarding does not (an int beyond the 4300-digit limit, a __repr__ "
                                  "that fails)"))
                break
        if len(calls) != 1:
            F["result"].append(("__call__[compiled function]", f"a call invokes the compiled function {len(calls)} times"))
            continue
        _c, fn, a_, k_ = calls[0]
        if a_ or set(k_) != set(fields) or any(k_[x] is not fields[x] for x in fields):
            got = {x: k_.get(x) for x in sorted(k_)}
            F["args"].append(("__call__[arguments]", f"the compiled function receives {got!r} (positional: {a_!r}) instead of the caller's "
                              f"fields {sorted(fields)} unchanged: a dropped, renamed or converted field changes what the experiment sees"[:420]))
        if raising:
            if r["kind"] != "raise" or r.get("exc") != "ExperimentConditionalFailedError":
                F["errors"].append(("__call__[exceptions]", f"when the compiled function raises ExperimentConditionalFailedError the call "
                                    f"{'raises ' + str(r.get('exc')) if r['kind'] == 'raise' else 'returns normally'}: the class of an error "
                                    "differs from the one the generated stand-alone text raises"))
        else:
            v = r.get("value")
            if r["kind"] != "return" or not (isinstance(v, A.Opaque) and v.tag == "group" and v.payload is fn):
                F["result"].append(("__call__[result]", f"a call returns {v!r} rather than what the compiled function returned"))
    ctx.__dict__["_call_sem"] = res
    return res


def decide_call(ctx: Ctx, rid: str, aspects, no_try=False):
    sem = call_semantics(ctx)
    if sem["undecided"]:
        note = f"abstract interpretation of __call__ undecided ({sem['undecided'][:120]}): syntactic rule used instead"
        if note not in ctx.rep.notes:
            ctx.rep.note(note)
        return False
    m = ctx.mod(EV)
    call = m.get_method("ExperimentEvaluator", "__call__")
    kinds = [k for k in ("result", "args") if k in aspects]
    bad = False
    seen = set()
    for k in kinds:
        for con, msg in sem["findings"][k]:
            if (con, msg) in seen:
                continue
            seen.add((con, msg))
            bad = True
            ctx.rep.bad(rid, f"{EV}:ExperimentEvaluator.{con}", msg, site=m.site(call), text=f"{k}: {con}")
    if not bad:
        ctx.rep.ok(rid, f"{EV}:ExperimentEvaluator.__call__", "abstract call: the compiled function is invoked once with the caller's fields "
                   "unchanged, its result is returned as it is, nothing is stored" if set(kinds) == {"result", "args"} else
                   ("abstract call: the result is the compiled function's, nothing is stored" if "result" in kinds else
                    "abstract call: the compiled function receives the caller's fields unchanged"), site=m.site(call))
    if no_try:
        errs = sem["findings"]["errors"]
        ctx.rep.check(not errs, rid.split(".")[0] + ".ERRORS-PASS-THROUGH", f"{EV}:ExperimentEvaluator.__call__[exceptions]",
                      "__call__ lets the compiled function's exceptions through unchanged" if not errs else errs[0][1],
                      site=m.site(call), text="exceptions of the compiled function")
    return True

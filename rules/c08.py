"""C08 - comments and whitespace never change meaning (DESIGN.md section 3, C08)."""
from . import lexrules as LR
from .common import TRUSTED, Ctx


def check(rep):
    ctx = Ctx(rep)
    if rep.tier == "thorough":
        LR.validate_engine(ctx)
    LR.rule_comment_end(ctx)
    LR.rule_trivia_start(ctx)
    LR.rule_token_end_stable(ctx)
    LR.rule_trivia_silent(ctx)
    LR.rule_trivia_shield(ctx)
    LR.rule_trivia_munch(ctx)
    # a comment opener inside the text of a token (a keyword pattern that swallows `//...` or `/*...*/` between its words) makes the
    # comment's content part of what decides the token
    LR.rule_token_spelling(ctx, rid="C08.TOKEN-SPELLING", directions=("lexer<=doc",))
    from . import evalrules as ER
    # a parse must start in the main lexer state: a lexer object kept between parses stays inside an unterminated comment
    ER.rule_fresh_per_parse(ctx, rid="C08.STARTS-IN-MAIN-STATE", kinds=("Lexer",))
    # a layout-only edit is still a different text for recompile(): the skip guard must compare the exact text
    ER.rule_skip_guard(ctx, rid="C08.SKIP-EXACT")
    ER.rule_text_unmodified(ctx)
    from . import gramrules as GR
    GR.rule_layout_free_values(ctx)
    # the comment state must be total: otherwise its error() (sly's default raises) is reachable
    for state, lc in ctx.states.items():
        if state == ctx.main.name:
            continue
        fail = ctx.lexicon(state).failing_input()
        rep.check(fail is None, "C08.STATE-TOTAL", f"language/lexer.py:{state}",
                  "every character inside the comment is matched by some rule" if fail is None else
                  f"text {fail!r} inside a comment matches no rule of state {state}", witness=fail,
                  site=lc.mod.site(lc.node), text="; ".join(f"{r.name}={r.pattern}" for r in lc.rules))
    rep.assume("tokens whose own pattern admits inner white space (not\\s+in, else\\s*if) are single tokens of the "
               "documented table: a comment inside them is inside a token, not between tokens")
    rep.assume("removal of ALL white space between two word-like tokens (weighted1) merges them in any language with "
               "identifiers and is not decided")
    return ("Decides, on the rule tables and automata reconstructed from language/lexer.py the way sly builds them, that "
            "trivia is recognised exactly: product of the leftmost-first master-regex automaton with reference monitors "
            "for '/* ... first */', '// ... end of line' and white-space runs (all texts, not samples); trivia rules "
            "and the comment state are silent (no token, no state change but the pop); strings shield comment openers.",
            TRUSTED)

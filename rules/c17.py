"""C17 - concurrent compilation and evaluation are thread-safe (ownership discipline)."""
from . import evalrules as ER
from .common import TRUSTED, Ctx


def check(rep):
    ctx = Ctx(rep)
    # first the rules that read the sources directly (they do not need the lexer / parser models)
    ER.rule_sly_runtime_instance_only(ctx)
    ER.rule_no_module_iterators(ctx)
    ER.rule_no_process_globals(ctx)
    ER.rule_fresh_per_parse(ctx)
    ER.rule_no_shared_state(ctx)
    ER.rule_mutable_defaults(ctx)
    ER.rule_call_forwards(ctx, rid="C17.CALL-READS-ONE", publish=True, aspects=("result",))
    ER.rule_commit_order(ctx, rid="C17.PUBLISH-AFTER-BUILD")
    ER.rule_instance_only(ctx, rid="C17.INSTANCE-ONLY")
    # a function whose globals dict outlives the call can see names rebound by a later recompile while it runs
    ER.rule_installed_function(ctx, rid="C17.FRESH-NAMESPACE", strict=False, facets=("namespace",))
    rep.assume("CPython's GIL makes one attribute load/store atomic; pydantic, re and hashlib are thread-safe")
    rep.assume("NOT claimed: two concurrent recompiles of the same evaluator")
    return ("Ownership/escape analysis: every lexer, parser and generator object is constructed inside a call and stays local; no "
            "function of the package writes module or class state, mutates a module-level object or keeps a cache; the vendored "
            "runtime's entry points (tokenize/begin/push_state/pop_state, parse/restart/errok) write instance attributes only; a "
            "call reads exactly one attribute that recompile writes, and recompile stores it after everything that can fail.", TRUSTED)

"""Shared plumbing of the static checks: obligations, findings, evidence, exit codes.

Exit codes (DESIGN.md section 1):
  0  every obligation discharged (known findings are printed, not counted)
  1  at least one undischarged obligation that known_findings.json does not list
  2  the analysis itself could not be carried out (ANALYSIS-ERROR)
"""
from __future__ import annotations

import hashlib
import json
import os
import sys
import time
import traceback
from dataclasses import dataclass, field
from pathlib import Path

VERIF = Path(__file__).resolve().parent.parent
DEFAULT_ROOT = Path(os.environ.get("PYAB_VERIF_ROOT", "/repo"))
PKG = "src/pyab_experiment"


class AnalysisError(Exception):
    """The analyser cannot read the construct it is asked about (exit 2)."""


class FloorError(AnalysisError):
    """A rule found fewer instances than were confirmed by hand: the rest of the check is not run.  Findings already made stand on
    their own (each names its construct) and are still reported."""


class AnchorError(FloorError):
    """A statement of the vendored runtime that a model was derived from is gone: the rules that need the model are not run.
    Findings of rules that ran before and do not use the model are still reported."""


@dataclass
class Obligation:
    rule: str          # e.g. "C02.OP-MUNCH"
    construct: str     # qualified construct, e.g. "language/lexer.py:ExperimentLexer[KW_GT<KW_GE]"
    ok: bool
    detail: str = ""
    witness: object = None
    site: str = ""     # file:line (diagnostic only, never part of the key)
    text: str = ""     # normalised statement text (part of the key)
    nontrivial: bool = True
    facts: dict = field(default_factory=dict)

    @property
    def key(self) -> str:
        t = " ".join(self.text.split())
        return f"{self.rule}|{self.construct}|{t}"


class Report:
    def __init__(self, prop: str, tier: str, root: Path):
        self.prop = prop
        self.tier = tier
        self.root = Path(root)
        self.obs: list[Obligation] = []
        self.notes: list[str] = []
        self.assumptions: list[str] = []
        self.analysed: dict[str, str] = {}   # file -> digest
        self.units: list[str] = []           # functions / rules / productions analysed
        self.t0 = time.time()
        self.floors: list[tuple[str, int, int]] = []
        self.extra: dict = {}

    # -- recording -------------------------------------------------------
    def ok(self, rule, construct, detail="", **kw):
        self.obs.append(Obligation(rule, construct, True, detail, **kw))

    def bad(self, rule, construct, detail="", **kw):
        self.obs.append(Obligation(rule, construct, False, detail, **kw))

    def check(self, cond, rule, construct, detail="", **kw):
        self.obs.append(Obligation(rule, construct, bool(cond), detail, **kw))
        return bool(cond)

    def note(self, s):
        self.notes.append(s)

    def assume(self, s):
        if s not in self.assumptions:
            self.assumptions.append(s)

    def unit(self, s):
        if s not in self.units:
            self.units.append(s)

    def floor(self, what: str, got: int, minimum: int):
        """A rule that matches fewer instances than confirmed by hand must not pass vacuously."""
        self.floors.append((what, got, minimum))
        if got < minimum:
            raise FloorError(
                f"instance floor not met for {what}: found {got}, expected at least {minimum}"
            )

    def file(self, rel: str, text: str):
        self.analysed[rel] = hashlib.sha256(text.encode()).hexdigest()[:16]


def load_known() -> dict:
    p = VERIF / "known_findings.json"
    if not p.exists():
        return {"findings": [], "fixed": []}
    return json.loads(p.read_text())


def finish(rep: Report, level_explanation: str, trusted: list[str]) -> int:
    known = load_known()
    known_keys = {f["key"]: f for f in known.get("findings", []) if f.get("property") == rep.prop}
    viol, knownhits = [], []
    for o in rep.obs:
        if o.ok:
            continue
        if o.key in known_keys:
            knownhits.append(o)
        else:
            viol.append(o)

    out = sys.stdout
    print(f"== {rep.prop} tier={rep.tier} root={rep.root}", file=out)
    print(f"   analysed files: {len(rep.analysed)}; units: {len(rep.units)}; "
          f"obligations: {len(rep.obs)}; discharged: {sum(o.ok for o in rep.obs)}", file=out)
    for what, got, minimum in rep.floors:
        print(f"   floor {what}: {got} >= {minimum}", file=out)
    verbose = os.environ.get("PYAB_VERIF_VERBOSE")
    byrule: dict[str, list[Obligation]] = {}
    for o in rep.obs:
        byrule.setdefault(o.rule, []).append(o)
    for rule, obs in byrule.items():
        n_ok = sum(o.ok for o in obs)
        print(f"   {rule}: {n_ok}/{len(obs)} ok", file=out)
        if verbose:
            for o in obs:
                print(f"      [{'ok' if o.ok else 'FAIL'}] {o.construct} {o.site} {o.detail}", file=out)
    for n in rep.notes:
        print(f"   note: {n}", file=out)

    for o in knownhits:
        what = known_keys[o.key].get("what", o.detail)
        print(f"KNOWN-FINDING: property={rep.prop} {o.rule} {o.construct}: {what}", file=out)

    replay_paths = []
    if viol:
        rdir = VERIF / "replays"
        rdir.mkdir(exist_ok=True)
        for i, o in enumerate(viol):
            h = hashlib.sha256(o.key.encode()).hexdigest()[:10]
            rp = rdir / f"{rep.prop}-{o.rule.split('.', 1)[-1]}-{h}.json"
            rp.write_text(json.dumps({
                "property": rep.prop, "rule": o.rule, "construct": o.construct,
                "site": o.site, "detail": o.detail, "witness": o.witness,
                "statement": o.text, "facts": o.facts, "key": o.key,
                "root": str(rep.root), "tier": rep.tier,
                "replay": f"./check {rep.prop} --tier {rep.tier} --root {rep.root}",
            }, indent=1, default=str))
            replay_paths.append(rp)
            print(f"FAIL {o.rule} at {o.site or o.construct}: {o.construct}: {o.detail}"
                  + (f" witness={o.witness!r}" if o.witness is not None else ""), file=out)
            print(f"VIOLATION property={rep.prop} replay={rp}", file=out)

    write_evidence(rep, level_explanation, trusted, len(viol), knownhits)
    return 1 if viol else 0


def write_evidence(rep: Report, explanation: str, trusted: list[str], nviol: int, knownhits):
    nontrivial = {o.key for o in rep.obs if o.nontrivial}
    samples = []
    seen_rules = set()
    for o in rep.obs:
        if o.rule in seen_rules:
            continue
        seen_rules.add(o.rule)
        s = {"rule": o.rule, "construct": o.construct, "site": o.site,
             "verdict": "ok" if o.ok else "fail", "detail": o.detail}
        if o.witness is not None:
            s["witness"] = o.witness
        samples.append(s)
    ev = {
        "property_id": rep.prop,
        "tier": rep.tier,
        "seed": int(os.environ.get("VERIF_SEED", "0") or 0),
        "level": "other",
        "coverage": {
            "explanation": explanation,
            "evaluations": len(rep.obs),
            "distinct_nontrivial": len(nontrivial),
            "rule": "one evaluation = one rule instance (rule id x source construct) decided on the "
                    "current source; distinct = distinct finding keys (rule|construct|normalised text); "
                    "non-trivial = the instance constrained a real construct (not a vacuous or "
                    "informational entry)",
            "obligations": len(rep.obs),
            "discharged": sum(o.ok for o in rep.obs),
            "known_findings_hit": [o.key for o in knownhits],
            "samples": samples[:40],
            "rules": {r: {"instances": sum(1 for o in rep.obs if o.rule == r),
                          "ok": sum(1 for o in rep.obs if o.rule == r and o.ok)}
                      for r in sorted({o.rule for o in rep.obs})},
            "floors": [{"what": w, "found": g, "minimum": m} for w, g, m in rep.floors],
            "analysed_files": rep.analysed,
            "units_analysed": rep.units[:400],
            "units_count": len(rep.units),
            "root": str(rep.root),
            "notes": rep.notes,
            "trusted_base": trusted,
            "exhaustive": True,
            **rep.extra,
        },
        "assumptions": rep.assumptions + trusted,
        "wall_s": round(time.time() - rep.t0, 3),
        "violations": nviol,
    }
    edir = Path(os.environ.get("PYAB_VERIF_EVIDENCE_DIR", VERIF / "evidence"))
    edir.mkdir(exist_ok=True, parents=True)
    (edir / f"{rep.prop}.json").write_text(json.dumps(ev, indent=1, default=str) + "\n")


def run_check(prop: str, tier: str, root: Path, fn) -> int:
    """Run one property check; tracebacks must not look like violations."""
    import signal
    try:
        signal.signal(signal.SIGPIPE, signal.SIG_DFL)   # `./check X | head` must not produce a traceback
    except Exception:  # noqa: BLE001
        pass
    rep = Report(prop, tier, root)
    try:
        explanation, trusted = fn(rep)
        return finish(rep, explanation, trusted)
    except AnalysisError as e:
        # a rule could not be decided.  Findings made before that point were each established on their own (every rule checks the
        # anchors of the model it uses before it judges anything) and are reported; without findings the answer is "undecided".
        known = {f["key"] for f in load_known().get("findings", []) if f.get("property") == prop}
        if any(not o.ok and o.key not in known for o in rep.obs):
            rep.note(f"analysis stopped early: {e}")
            return finish(rep, f"incomplete run ({e}); the findings made before that point are reported", [])
        print(f"ANALYSIS-ERROR property={prop}: {e}")
        if os.environ.get("PYAB_VERIF_VERBOSE"):
            traceback.print_exc()
        return 2
    except AnalysisError as e:      # (not reached: kept for clarity)
        print(f"ANALYSIS-ERROR property={prop}: {e}")
        if os.environ.get("PYAB_VERIF_VERBOSE"):
            traceback.print_exc()
        return 2
    except Exception as e:  # noqa: BLE001
        print(f"ANALYSIS-ERROR property={prop}: internal error {type(e).__name__}: {e}")
        traceback.print_exc()
        return 2

"""Parallel exhaustive sweep of predicate shapes (thorough tier): every predicate token sequence with
up to `max_leaves` comparisons is pushed through the pipeline in both layouts and compared with the
reference reading.  Workers return only counts and failures (ASTs are not pickled)."""
from __future__ import annotations

import os
from concurrent.futures import ProcessPoolExecutor


def _worker(args):
    root, start, step, max_leaves = args
    from pathlib import Path

    from . import pipeline as PL
    from .srcmodel import Source
    src = Source(Path(root))
    pl = PL.Pipeline(src)
    fam = PL.Family("thorough")
    n = 0
    fails = []
    for i, prog in enumerate(fam.predicate_exhaustive(max_leaves)):
        if i % step != start:
            continue
        for expose in (False, True):
            for o in pl.run(prog, expose):
                n += 1
                if o.status != "ok":
                    fails.append((prog.label, "compile", f"{o.status}: {o.error}"))
                    continue
                if o.syntax_error or o.tree is None:
                    fails.append((prog.label, "compile", o.syntax_error))
                    continue
                try:
                    ir = PL.module_ir(o.tree, prog.name.name)
                except PL.ModuleShapeError as e:
                    fails.append((prog.label, "compile", str(e)))
                    continue
                ref = PL.ref_module(prog)
                if ir["body"] != ref["body"]:
                    fails.append((prog.label, "translation", f"generated {str(ir['body'])[:200]} expected {str(ref['body'])[:200]}"))
        if len(fails) > 50:
            break
    return n, fails[:50]


def sweep(root, max_leaves=4, workers=None):
    workers = workers or max(2, (os.cpu_count() or 4))
    jobs = [(str(root), k, workers, max_leaves) for k in range(workers)]
    total, fails = 0, []
    with ProcessPoolExecutor(workers) as ex:
        for n, f in ex.map(_worker, jobs):
            total += n
            fails += f
    return total, fails

"""E3 regex language engine.

A pattern string found in the source is parsed with the stdlib `re._parser` (only the parser:
nothing is compiled or matched), turned into a Thompson NFA whose epsilon edges are *ordered*
(priority = what a backtracking matcher tries first), and simulated over a finite partition of
the code-point space with the leftmost-first discipline (Pike / RE2): thread lists are ordered,
and when a thread accepts, every lower-priority thread is cut.  For regular patterns (no
back-references, atomic groups, possessive quantifiers, multi-character look-around) this is
exactly the match `re` returns, so `A|B|C` alternation order, greedy/lazy quantifiers and a
trailing `\\b` are modelled faithfully.

Queries are reachability problems on products of such matchers and return shortest witnesses.
Anything outside the supported subset raises AnalysisError (exit 2), never a verdict.
"""
from __future__ import annotations

from collections import deque

try:  # Python >= 3.11
    import re._constants as C
    import re._parser as P
except ImportError:  # pragma: no cover
    import sre_constants as C
    import sre_parse as P

from .core import AnalysisError

EOF = "<EOF>"
MAXREPEAT = C.MAXREPEAT


# ------------------------------------------------------------------ character sets
class CharSet:
    """A set of code points given by literals, ranges and categories, possibly negated."""

    __slots__ = ("items", "negate", "any")

    def __init__(self, items=(), negate=False, any_=False):
        self.items = tuple(items)
        self.negate = negate
        self.any = any_      # '.' without DOTALL: everything but \n

    def __contains__(self, cp: int) -> bool:
        if self.any:
            return cp != 10
        hit = False
        ch = chr(cp)
        for kind, v in self.items:
            if kind == "lit":
                hit = cp == v
            elif kind == "range":
                hit = v[0] <= cp <= v[1]
            elif kind == "cat":
                hit = _category(v, ch)
            elif kind == "acat":
                hit = _category_ascii(v, ch)
            if hit:
                break
        return hit != self.negate

    def mentioned(self):
        for kind, v in self.items:
            if kind == "lit":
                yield v
            elif kind == "range":
                yield from (v[0], v[1], max(v[0] - 1, 0), min(v[1] + 1, 0x10FFFF))

    def __repr__(self):
        if self.any:
            return "."
        return ("^" if self.negate else "") + ",".join(
            (chr(v) if k == "lit" else f"{chr(v[0])}-{chr(v[1])}" if k == "range" else str(v).split("_")[-1].lower())
            for k, v in self.items)


def _category(cat, ch: str) -> bool:
    # str patterns without re.ASCII: the compiler maps these to their Unicode versions
    if cat is C.CATEGORY_DIGIT:
        return ch.isdecimal()
    if cat is C.CATEGORY_NOT_DIGIT:
        return not ch.isdecimal()
    if cat is C.CATEGORY_SPACE:
        return ch.isspace()
    if cat is C.CATEGORY_NOT_SPACE:
        return not ch.isspace()
    if cat is C.CATEGORY_WORD:
        return ch.isalnum() or ch == "_"
    if cat is C.CATEGORY_NOT_WORD:
        return not (ch.isalnum() or ch == "_")
    raise AnalysisError(f"regex category {cat} not supported")


def _category_ascii(cat, ch: str) -> bool:
    """The same categories under re.ASCII (inline `(?a:...)`): only ASCII characters are digits, spaces, word characters."""
    a = ch.isascii()
    if cat is C.CATEGORY_DIGIT:
        return a and ch in "0123456789"
    if cat is C.CATEGORY_NOT_DIGIT:
        return not (a and ch in "0123456789")
    if cat is C.CATEGORY_SPACE:
        return a and ch in " \t\n\r\f\v"
    if cat is C.CATEGORY_NOT_SPACE:
        return not (a and ch in " \t\n\r\f\v")
    if cat is C.CATEGORY_WORD:
        return a and (ch.isalnum() or ch == "_")
    if cat is C.CATEGORY_NOT_WORD:
        return not (a and (ch.isalnum() or ch == "_"))
    raise AnalysisError(f"regex category {cat} not supported")


def is_word(cp) -> bool:
    if cp is None or cp == EOF:
        return False
    ch = chr(cp)
    return ch.isalnum() or ch == "_"


WORD = CharSet([("cat", C.CATEGORY_WORD)])
AWORD = CharSet([("acat", C.CATEGORY_WORD)])


def is_aword(cp) -> bool:
    return cp is not None and cp != EOF and cp < 128 and (chr(cp).isalnum() or chr(cp) == "_")


# ------------------------------------------------------------------ NFA
class NFA:
    def __init__(self):
        self.eps: dict[int, list[int]] = {}
        self.chr: dict[int, tuple[CharSet, int]] = {}
        self.asr: dict[int, tuple[object, int]] = {}
        self.acc: dict[int, int] = {}
        self.n = 0
        self.start = None
        self.sets: list[CharSet] = []
        self.lazy = False          # some lazy quantifier present
        self.leading_assert = False

    def new(self) -> int:
        self.n += 1
        return self.n - 1


def _charset_of(op, av, ascii_=False):
    cat = "acat" if ascii_ else "cat"
    if op is C.LITERAL:
        return CharSet([("lit", av)])
    if op is C.NOT_LITERAL:
        return CharSet([("lit", av)], negate=True)
    if op is C.ANY:
        return CharSet(any_=True)
    if op is C.CATEGORY:
        return CharSet([(cat, av)])
    if op is C.IN:
        items, neg = [], False
        for o, a in av:
            if o is C.NEGATE:
                neg = True
            elif o is C.LITERAL:
                items.append(("lit", a))
            elif o is C.RANGE:
                items.append(("range", tuple(a)))
            elif o is C.CATEGORY:
                items.append((cat, a))
            else:
                raise AnalysisError(f"regex set item {o} not supported")
        return CharSet(items, neg)
    return None


def _build(nfa: NFA, items, nxt: int, pattern: str, ascii_=False) -> int:
    """Build the fragment for `items` (a sequence) continuing to state `nxt`; return its start.
    ascii_: inside an inline `(?a:...)` group (categories are the ASCII ones)."""
    cur = nxt
    for op, av in reversed(list(items)):
        cs = _charset_of(op, av, ascii_)
        if cs is not None:
            s = nfa.new()
            nfa.chr[s] = (cs, cur)
            nfa.sets.append(cs)
            cur = s
        elif op is C.SUBPATTERN:
            group, add_flags, del_flags, p = av
            import re as _re
            if del_flags or (add_flags & ~_re.ASCII):
                raise AnalysisError(f"inline regex flags other than (?a:...) are not supported in {pattern!r}")
            cur = _build(nfa, p, cur, pattern, ascii_ or bool(add_flags & _re.ASCII))
        elif op is C.BRANCH:
            _, alts = av
            s = nfa.new()
            nfa.eps[s] = [_build(nfa, alt, cur, pattern, ascii_) for alt in alts]
            cur = s
        elif op in (C.MAX_REPEAT, C.MIN_REPEAT):
            lo, hi, p = av
            greedy = op is C.MAX_REPEAT
            if not greedy:
                nfa.lazy = True
            after = cur
            if hi == MAXREPEAT:
                loop = nfa.new()
                body = _build(nfa, p, loop, pattern, ascii_)
                nfa.eps[loop] = [body, after] if greedy else [after, body]
                cur = loop
            else:
                if hi - lo > 64 or lo > 64:
                    raise AnalysisError(f"bounded repeat too large in {pattern!r}")
                for _ in range(hi - lo):
                    o = nfa.new()
                    body = _build(nfa, p, cur, pattern, ascii_)
                    nfa.eps[o] = [body, after] if greedy else [after, body]
                    cur = o
            for _ in range(lo):
                cur = _build(nfa, p, cur, pattern, ascii_)
        elif op is C.AT:
            s = nfa.new()
            if ascii_ and av in (C.AT_BOUNDARY, C.AT_NON_BOUNDARY):
                # the ASCII word boundary: é, ٣ and the like do not count as word characters
                nfa.sets.append(AWORD)
                nfa.asr[s] = ("ab" if av is C.AT_BOUNDARY else "aB", cur)
            elif av is C.AT_END_STRING:
                nfa.asr[s] = ("eos", cur)          # \Z: only at the very end of the text
            elif av is C.AT_BOUNDARY:
                nfa.asr[s] = ("b", cur)
            elif av is C.AT_NON_BOUNDARY:
                nfa.asr[s] = ("B", cur)
            else:
                raise AnalysisError(f"regex anchor {av} not supported in {pattern!r}")
            cur = s
        elif op in (C.ASSERT, C.ASSERT_NOT):
            direction, p = av
            plist = list(p)
            cs = _charset_of(*plist[0], ascii_) if len(plist) == 1 else None
            if cs is None:
                raise AnalysisError(f"only single-character look-around is supported ({pattern!r})")
            nfa.sets.append(cs)
            s = nfa.new()
            nfa.asr[s] = (("la" if direction > 0 else "lb", cs, op is C.ASSERT_NOT), cur)
            cur = s
        else:
            raise AnalysisError(f"regex construct {op} not supported in {pattern!r}")
    return cur


def parse(pattern: str, flags: int = 0):
    if flags:
        raise AnalysisError("regex flags (reflags) are not supported by the analyser")
    try:
        return P.parse(pattern, 0)
    except Exception as e:  # noqa: BLE001
        raise AnalysisError(f"pattern {pattern!r} does not parse: {e}") from e


def build_nfa(patterns: list[str]) -> NFA:
    """One NFA for the ordered alternation of `patterns`; accept states are tagged by index."""
    nfa = NFA()
    starts = []
    for i, pat in enumerate(patterns):
        a = nfa.new()
        nfa.acc[a] = i
        starts.append(_build(nfa, parse(pat), a, pat))
    s = nfa.new()
    nfa.eps[s] = starts
    nfa.start = s
    # does any assertion sit on an epsilon-only path from the start (needs the previous char)?
    seen, stack = set(), [s]
    while stack:
        x = stack.pop()
        if x in seen:
            continue
        seen.add(x)
        if x in nfa.asr:
            nfa.leading_assert = True
            stack.append(nfa.asr[x][1])
        stack.extend(nfa.eps.get(x, []))
    return nfa


# ------------------------------------------------------------------ alphabet
class Alphabet:
    """Finite partition of the code points induced by every set used in the given NFAs."""

    GENERIC = [0xE9, 0x663, 0xA0, 0x2192, 0x85, 0x2028, 0x4E2D, 0x1F600]

    def __init__(self, nfas: list[NFA], extra_sets: list[CharSet] = ()):
        sets = [cs for n in nfas for cs in n.sets] + list(extra_sets) + [WORD]
        cands = set(range(128)) | set(self.GENERIC)
        nonascii_range = False
        for cs in sets:
            for cp in cs.mentioned():
                cands.add(cp)
            for k, v in cs.items:
                if k == "range" and v[1] > 127:
                    nonascii_range = True
        if nonascii_range:
            # exact partition needs every code point: categories vary inside a range
            cands = range(0x110000)
        groups: dict[tuple, int] = {}
        self.atoms: list[int] = []           # representative code point per atom
        self.members: dict[int, int] = {}    # atom rep -> number of candidate code points folded in
        for cp in (sorted(cands) if not isinstance(cands, range) else cands):
            if 0xD800 <= cp <= 0xDFFF:
                continue
            sig = tuple(cp in cs for cs in sets) + (cp == 10,)
            if sig not in groups:
                groups[sig] = cp
                self.atoms.append(cp)
                self.members[cp] = 0
            else:
                rep = groups[sig]
                # prefer a readable representative
                if _nice(cp) > _nice(rep):
                    idx = self.atoms.index(rep)
                    self.atoms[idx] = cp
                    self.members[cp] = self.members.pop(rep)
                    groups[sig] = cp
            self.members[groups[sig]] += 1
        self._memo: dict = {}

    def contains(self, cs: CharSet, atom: int) -> bool:
        k = (id(cs), atom)
        r = self._memo.get(k)
        if r is None:
            r = self._memo[k] = atom in cs
        return r


def _nice(cp: int) -> int:
    ch = chr(cp)
    if ch in "xyzXYZ":
        return 6
    if ch.isascii() and ch.isalpha():
        return 5
    if ch in "789":
        return 4
    if ch.isascii() and ch.isdigit():
        return 3
    if ch == " ":
        return 3
    if ch.isascii() and ch.isprintable():
        return 2
    if ch.isprintable():
        return 1
    return 0


# ------------------------------------------------------------------ leftmost-first matcher
class Matcher:
    """Ordered-thread simulation of one NFA.  State = (entry threads, previous atom).

    step(state, a) -> (state', ev): ev is the index of the pattern for which a match ending
    *before* `a` is recorded (None if none).  With cut=True (default) lower-priority threads are
    dropped when a thread accepts: the last event of a run is the match `re` would return.
    With cut=False every accepting prefix produces an event (plain language membership).
    """

    def __init__(self, nfa: NFA, alpha: Alphabet, cut: bool = True):
        self.nfa, self.alpha, self.cut = nfa, alpha, cut
        self._memo: dict = {}

    def starts(self, all_prev: bool | None = None):
        prevs = [None]
        if all_prev if all_prev is not None else self.nfa.leading_assert:
            prevs += list(self.alpha.atoms)
        return [((self.nfa.start,), p) for p in prevs]

    def _holds(self, kind, prev, nxt) -> bool:
        if kind == "b":
            return is_word(prev) != is_word(nxt)
        if kind == "B":
            return is_word(prev) == is_word(nxt)
        if kind == "eos":
            return nxt is None or nxt == EOF
        if kind == "ab":
            return is_aword(prev) != is_aword(nxt)
        if kind == "aB":
            return is_aword(prev) == is_aword(nxt)
        tag, cs, neg = kind
        c = nxt if tag == "la" else prev
        inside = c is not None and c != EOF and self.alpha.contains(cs, c)
        return inside != neg

    def _closure(self, entries, prev, nxt):
        nfa = self.nfa
        out, seen = [], set()

        def add(s):
            stack = [s]
            while stack:
                x = stack.pop()
                if x in seen:
                    continue
                seen.add(x)
                if x in nfa.acc:
                    out.append(("acc", nfa.acc[x]))
                elif x in nfa.chr:
                    out.append(x)
                elif x in nfa.asr:
                    kind, t = nfa.asr[x]
                    if self._holds(kind, prev, nxt):
                        stack.append(t)
                else:
                    # push in reverse so that the first alternative is explored first
                    stack.extend(reversed(nfa.eps.get(x, [])))
        for e in entries:
            add(e)
        return out

    def step(self, state, a):
        key = (state, a)
        r = self._memo.get(key)
        if r is not None:
            return r
        entries, prev = state
        closed = self._closure(entries, prev, a)
        ev = None
        kept = []
        for t in closed:
            if isinstance(t, tuple):      # an accepting thread
                if ev is None:
                    ev = t[1]
                if self.cut:
                    break                 # leftmost-first: drop every lower-priority thread
            else:
                kept.append(t)
        nxt = []
        if a != EOF:
            seen = set()
            for s in kept:
                cs, tgt = self.nfa.chr[s]
                if self.alpha.contains(cs, a) and tgt not in seen:
                    seen.add(tgt)
                    nxt.append(tgt)
        r = ((tuple(nxt), a), ev)
        self._memo[key] = r
        return r

    @staticmethod
    def dead(state) -> bool:
        return not state[0]

    # concrete runs (witness replay, model validation)
    def run(self, text: str, prev=None):
        """Return (pattern index, length) the way `re.match` on the alternation would, or None."""
        st = ((self.nfa.start,), self._atom_of(prev) if prev is not None else None)
        best = None
        for i, ch in enumerate(text):
            st, ev = self.step(st, self._atom_of(ch))
            if ev is not None and i > 0:
                best = (ev, i)
            elif ev is not None and i == 0:
                raise AnalysisError("a lexer pattern matches the empty string")
            if self.dead(st):
                return best
        st, ev = self.step(st, EOF)
        if ev is not None:
            best = (ev, len(text))
        return best

    def _atom_of(self, ch):
        cp = ord(ch)
        key = ("atom", cp)
        r = self._memo.get(key)
        if r is None:
            sets = [cs for cs in self.nfa.sets] + [WORD]
            sig = tuple(cp in cs for cs in sets) + (cp == 10,)
            for a in self.alpha.atoms:
                if tuple(a in cs for cs in sets) + (a == 10,) == sig:
                    r = a
                    break
            else:
                raise AnalysisError(f"code point {cp:#x} has no atom")
            self._memo[key] = r
        return r


def _text(path) -> str:
    return "".join(chr(a) for a in path)


def _bfs(starts, succ):
    """Generic BFS; `succ(node)` yields (label or None, node').  Returns parent map."""
    parent = {s: None for s in starts}
    q = deque(starts)
    while q:
        n = q.popleft()
        for lab, m in succ(n):
            if m not in parent:
                parent[m] = (n, lab)
                q.append(m)
    return parent


def _path(parent, node):
    out = []
    while parent[node] is not None:
        node, lab = parent[node][0], parent[node][1]
        if lab is not None and lab != EOF:
            out.append(lab)
    return list(reversed(out))


# ------------------------------------------------------------------ queries
class Lexicon:
    """The ordered rules of one lexer state, with all queries the rules use."""

    def __init__(self, patterns: list[str], names: list[str], extra_patterns: list[str] = ()):
        self.patterns, self.names = patterns, names
        self.master = build_nfa(patterns)
        self.singles = [build_nfa([p]) for p in patterns]
        # reference monitors distinguish delimiter characters even where no pattern does (e.g. the two quote kinds
        # under the class ["']): keep every ASCII punctuation / control white-space character as its own atom
        singles = [CharSet([("lit", cp)]) for cp in range(128) if not chr(cp).isalnum() and chr(cp) != "_"]
        # extra_patterns: reference regexes that will be run against the same atoms (their sets refine the partition)
        self.alpha = Alphabet([self.master] + [build_nfa([p]) for p in extra_patterns], singles)
        self.M = Matcher(self.master, self.alpha)
        self.R = [Matcher(n, self.alpha) for n in self.singles]
        self.L = [Matcher(n, self.alpha, cut=False) for n in self.singles]
        for i, n in enumerate(self.singles):
            st = ((n.start,), None)
            _, ev = self.R[i].step(st, EOF)
            if ev is not None:
                raise AnalysisError(f"rule {names[i]} matches the empty string")
        self.atoms = list(self.alpha.atoms)
        self.stats = {"atoms": len(self.atoms), "nfa_states": self.master.n}

    # -- outcomes of the master regex over all inputs -----------------------
    def _master_runs(self):
        """BFS over (master state, last event, consumed>0). Returns parent map and end nodes.
        An end node is ('end', last) reached through EOF or thread death."""
        M, atoms = self.M, self.atoms

        def succ(node):
            if node[0] == "end":
                return
            st, last, n = node
            if M.dead(st):
                yield None, ("end", last, n > 0, st[1])
                return
            for a in atoms:
                st2, ev = M.step(st, a)
                yield a, (st2, ev if ev is not None else last, min(n + 1, 1))
            st2, ev = M.step(st, EOF)
            yield EOF, ("end", ev if ev is not None else last, n > 0, st[1])

        starts = [(s, None, 0) for s in M.starts()]
        parent = _bfs(starts, succ)
        return parent

    def selectable(self):
        """{rule index: witness text} for every rule the master regex can select."""
        parent = self._master_runs()
        out = {}
        for node in parent:
            if node[0] == "end" and node[1] is not None and node[1] not in out:
                out[node[1]] = _text(_path(parent, node))
        self.stats["master_states"] = len(parent)
        return out

    def failing_input(self):
        """A non-empty text on which no rule matches (the lexer's error() is reached), or None."""
        parent = self._master_runs()
        best = None
        for node in parent:
            if node[0] == "end" and node[1] is None and node[2]:
                t = _text(_path(parent, node))
                if t and (best is None or len(t) < len(best)):
                    best = t
        return best

    def munch(self):
        """All (i, j, witness): on the witness the master selects rule i on a proper prefix of
        what rule j alone would match (a deviation from maximal munch)."""
        found = {}
        M, atoms = self.M, self.atoms
        for j, R in enumerate(self.R):
            def succ(node, R=R):
                if node[0] == "end":
                    return
                m, r, lastm, order = node
                if M.dead(m) and R.dead(r):
                    yield None, ("end", lastm, order)
                    return
                for a in atoms + [EOF]:
                    m2, evm = M.step(m, a) if not M.dead(m) else (m, None)
                    r2, evr = R.step(r, a) if not R.dead(r) else (r, None)
                    lm, od = lastm, order
                    if evm is not None and evr is not None:
                        lm, od = evm, "="
                    elif evm is not None:
                        lm, od = evm, "M"
                    elif evr is not None:
                        od = "J"
                    if a == EOF:
                        yield EOF, ("end", lm, od)
                    else:
                        yield a, (m2, r2, lm, od)
            starts = [(s, t, None, "-") for s, t in zip(M.starts(), R.starts(all_prev=self.master.leading_assert))]
            parent = _bfs(starts, succ)
            for node in parent:
                if node[0] == "end" and node[2] == "J" and node[1] is not None and node[1] != j:
                    key = (node[1], j)
                    w = _text(_path(parent, node))
                    if key not in found or len(w) < len(found[key]):
                        found[key] = w
        return [(i, j, w) for (i, j), w in sorted(found.items())]

    def wordsplit(self, idcont: set, exempt: set[int]):
        """(i, witness): rule i's selected match ends in a letter/underscore and is directly
        followed by a character that continues an identifier."""
        M, atoms = self.M, self.atoms
        found = {}

        def letter(cp):
            return cp is not None and cp != EOF and (chr(cp).isalpha() or chr(cp) == "_")

        def succ(node):
            if node[0] == "end":
                return
            st, pend = node
            if M.dead(st):
                yield None, ("end", pend)
                return
            for a in atoms:
                st2, ev = M.step(st, a)
                p = pend
                if ev is not None:
                    p = ev if (letter(st[1]) and a in idcont and ev not in exempt) else None
                yield a, (st2, p)
            st2, ev = M.step(st, EOF)
            yield EOF, ("end", None if ev is not None else pend)
        parent = _bfs([(s, None) for s in M.starts()], succ)
        for node in parent:
            if node[0] == "end" and node[1] is not None:
                w = _text(_path(parent, node))
                if node[1] not in found or len(w) < len(found[node[1]]):
                    found[node[1]] = w
        return sorted(found.items())

    def not_shortest(self, i: int):
        """Witness text on which rule i's selected match is longer than the shortest prefix in
        its language (for terminators and quoted strings), or None."""
        R, L, atoms = self.R[i], self.L[i], self.atoms

        def succ(node):
            if node[0] == "hit":
                return
            r, l, early = node
            if R.dead(r):
                return
            for a in atoms + [EOF]:
                r2, evr = R.step(r, a)
                l2, evl = L.step(l, a) if not L.dead(l) else (l, None)
                if evr is not None and early:
                    yield a, ("hit",)
                    continue
                if a != EOF:
                    yield a, (r2, l2, early or evl is not None)
        starts = [(s, t, False) for s, t in zip(R.starts(), L.starts())]
        parent = _bfs(starts, succ)
        if ("hit",) in parent:
            return _text(_path(parent, ("hit",)))
        return None

    def monitor_search(self, mon_init, mon_step, judge, judge_fail=None, first_atoms=None):
        """Product of the master matcher with a reference monitor (a small DFA over atoms).

        mon_step(q, atom) -> q' (or None to prune the input family);
        judge(rule, q_at_match_end, q_after_next, next_atom) -> None | reason, evaluated for
        every recorded match; only the *final* recorded match of a run counts (that is the
        token the lexer takes).  judge_fail(q) -> None | reason when no rule matches at all.
        Returns {reason: witness text} with shortest witnesses."""
        M, atoms = self.M, self.atoms
        found = {}

        def succ(node):
            if node[0] == "end":
                return
            st, q, pend, n = node
            if M.dead(st):
                yield None, ("end", pend if pend is not None else
                             ("f", judge_fail(q) if judge_fail else None), n)
                return
            for a in atoms:
                if n == 0 and first_atoms is not None and a not in first_atoms:
                    continue
                q2 = mon_step(q, a)
                if q2 is None:
                    continue
                st2, ev = M.step(st, a)
                p = pend
                if ev is not None:
                    p = ("m", judge(ev, q, q2, a))
                yield a, (st2, q2, p, 1)
            st2, ev = M.step(st, EOF)
            p = pend
            if ev is not None:
                p = ("m", judge(ev, q, None, EOF))
            yield EOF, ("end", p if p is not None else ("f", judge_fail(q) if judge_fail else None), n)

        starts = [(s, mon_init, None, 0) for s in M.starts()]
        parent = _bfs(starts, succ)
        for node in parent:
            if node[0] != "end" or not node[2]:
                continue
            reason = node[1][1] if node[1] is not None else None
            if reason:
                w = _text(_path(parent, node))
                if reason not in found or len(w) < len(found[reason]):
                    found[reason] = w
        return found

    def unstable_ends(self, followers: set):
        """Token-end stability: if on `w` (then end of input) the master selects rule A with the whole of w,
        then on `w·t·z` (t one of `followers`, z anything) it must select A with exactly |w| again.
        Returns {(A, final rule, how): witness}."""
        M, atoms = self.M, self.atoms
        found = {}

        # phase 1 nodes: (st, last, n);  phase 2 nodes: ('p2', st, expect, status) where status tracks whether a match
        # ending exactly at the split position / beyond it has been recorded
        def succ(node):
            if node[0] == "end":
                return
            if node[0] == "p2":
                _, st, expect, at_split, final = node
                if M.dead(st):
                    yield None, ("end", expect, at_split, final)
                    return
                for a in atoms:
                    st2, ev = M.step(st, a)
                    yield a, ("p2", st2, expect, at_split, ("beyond", ev) if ev is not None else final)
                st2, ev = M.step(st, EOF)
                yield EOF, ("end", expect, at_split, ("beyond", ev) if ev is not None else final)
                return
            st, last, n = node
            if M.dead(st):
                return
            # would the master, at end of input here, select a rule with the whole text?
            _, ev_eof = M.step(st, EOF)
            if n and ev_eof is not None:
                for t in followers:
                    st2, ev = M.step(st, t)
                    at_split = ev          # match recorded exactly at the split position (before t)
                    yield t, ("p2", st2, ev_eof, at_split, None)
            for a in atoms:
                st2, ev = M.step(st, a)
                yield a, (st2, ev if ev is not None else last, 1)
        parent = _bfs([(s, None, 0) for s in M.starts()], succ)
        for node in parent:
            if node[0] != "end":
                continue
            _, expect, at_split, final = node
            got = final[1] if final is not None else at_split
            how = None
            if final is not None:
                how = "extends past the token's end"
            elif at_split != expect:
                how = "is a different token"
            if how:
                key = (expect, got, how)
                w = _text(_path(parent, node))
                if key not in found or len(w) < len(found[key]):
                    found[key] = w
        return found

    def first_atoms(self, i: int) -> set[int]:
        R = self.R[i]
        out = set()
        for s in R.starts():
            for a in self.atoms:
                st, _ = R.step(s, a)
                if not R.dead(st):
                    out.add(a)
        return out

    def used_atoms(self, i: int, skip_first=False) -> set[int]:
        """Atoms rule i can consume (optionally only after its first character)."""
        R = self.R[i]
        seen, out = set(), set()
        q = deque((s, 0) for s in R.starts())
        while q:
            st, d = q.popleft()
            if (st, d) in seen:
                continue
            seen.add((st, d))
            for a in self.atoms:
                st2, _ = R.step(st, a)
                if not R.dead(st2):
                    if not (skip_first and d == 0):
                        out.add(a)
                    q.append((st2, 1))
        return out

    def can_contain(self, i: int, atom: int) -> bool:
        return atom in self.used_atoms(i)

    def select(self, text: str):
        return self.M.run(text)

"""E5: grammar-level decisions on the extracted grammar.

* LALR(1) table = canonical LR(1) item sets merged by core, with yacc's precedence resolution
  exactly as sly/yacc.py:LRTable.lr_parse_table applies it (shift wins if the look-ahead's level
  is higher, or equal and the rule is right-assoc; reduce wins if lower, or equal and left;
  nonassoc => error entry; no precedence on either side => shift, recorded as a conflict;
  reduce/reduce => the rule defined first, recorded as a conflict).
* a table-driven parser over *token-type* sentences that builds a tree (used to compare the
  shape the table produces with a reference precedence-climbing parser);
* sentence enumeration of a grammar, smallest first.
"""
from __future__ import annotations

from collections import deque
from dataclasses import dataclass

from .core import AnalysisError
from .gramspec import Grammar

END = "$end"


@dataclass
class Conflict:
    state: int
    terminal: str
    kind: str          # 'sr' | 'rr'
    resolution: str    # 'shift' | 'reduce' | 'error' | 'rule N'
    by_precedence: bool
    prods: tuple       # production indices involved
    items: tuple = ()


class Table:
    def __init__(self, g: Grammar):
        self.g = g
        self.prods = g.prods
        self.terms = set(g.terminals) | {END}
        self.nts = list(g.nonterminals)
        self.by_name = {}
        for p in g.prods:
            self.by_name.setdefault(p.name, []).append(p)
        self._first()
        self._build()

    # FIRST sets / nullable
    def _first(self):
        self.nullable = set()
        self.first = {n: set() for n in self.nts}
        changed = True
        while changed:
            changed = False
            for p in self.prods:
                if all(s in self.nullable for s in p.syms) and p.name not in self.nullable:
                    self.nullable.add(p.name)
                    changed = True
                for s in p.syms:
                    add = {s} if s in self.terms else self.first.get(s, set())
                    if not add <= self.first[p.name]:
                        self.first[p.name] |= add
                        changed = True
                    if s not in self.nullable:
                        break

    def first_of(self, syms, la):
        out = set()
        for s in syms:
            if s in self.terms:
                out.add(s)
                return out
            out |= self.first[s]
            if s not in self.nullable:
                return out
        out.add(la)
        return out

    def _closure(self, items):
        items = set(items)
        work = list(items)
        while work:
            pi, dot, la = work.pop()
            p = self.prods[pi]
            if dot < len(p.syms) and p.syms[dot] in self.by_name:
                B = p.syms[dot]
                for la2 in self.first_of(p.syms[dot + 1:], la):
                    for q in self.by_name[B]:
                        it = (q.index, 0, la2)
                        if it not in items:
                            items.add(it)
                            work.append(it)
        return frozenset(items)

    def _build(self):
        # canonical LR(1)
        start = self._closure({(0, 0, END)})
        states = {start: 0}
        order = [start]
        trans = {}
        q = deque([start])
        while q:
            I = q.popleft()
            bysym = {}
            for pi, dot, la in I:
                p = self.prods[pi]
                if dot < len(p.syms):
                    bysym.setdefault(p.syms[dot], set()).add((pi, dot + 1, la))
            for sym, kernel in bysym.items():
                J = self._closure(kernel)
                if J not in states:
                    states[J] = len(order)
                    order.append(J)
                    q.append(J)
                trans[(states[I], sym)] = states[J]
            if len(order) > 20000:
                raise AnalysisError("LR(1) automaton too large")
        self.lr1_states = len(order)
        # merge by core -> LALR(1)
        core_id = {}
        merged = []
        lr1_to_lalr = {}
        for idx, I in enumerate(order):
            core = frozenset((pi, dot) for pi, dot, _ in I)
            if core not in core_id:
                core_id[core] = len(merged)
                merged.append({})
            m = core_id[core]
            lr1_to_lalr[idx] = m
            for pi, dot, la in I:
                merged[m].setdefault((pi, dot), set()).add(la)
        self.states = merged
        self.goto = {}
        for (i, sym), j in trans.items():
            self.goto[(lr1_to_lalr[i], sym)] = lr1_to_lalr[j]
        # actions with yacc resolution
        self.action = [dict() for _ in merged]
        self.conflicts: list[Conflict] = []
        prec = self.g.precedence
        for si, items in enumerate(merged):
            shifts = {}
            reduces = {}
            for (pi, dot), las in items.items():
                p = self.prods[pi]
                if dot < len(p.syms):
                    s = p.syms[dot]
                    if s in self.terms:
                        shifts[s] = self.goto[(si, s)]
                else:
                    for la in las:
                        reduces.setdefault(la, []).append(pi)
            for a in set(shifts) | set(reduces):
                red = sorted(reduces.get(a, []), key=lambda k: (self.prods[k].line, k))
                if len(red) > 1:
                    self.conflicts.append(Conflict(si, a, "rr", f"rule {red[0]}", False, tuple(red)))
                r = red[0] if red else None
                if a in shifts and r is not None:
                    if r == 0:
                        raise AnalysisError("shift/accept conflict")
                    rassoc, rlevel = self.prods[r].prec
                    sassoc, slevel = prec.get(a, ("right", 0))
                    if slevel > rlevel or (slevel == rlevel and rassoc == "right"):
                        res = "shift"
                    elif slevel == rlevel and rassoc == "nonassoc":
                        res = "error"
                    else:
                        res = "reduce"
                    by_prec = bool(slevel and rlevel)
                    self.conflicts.append(Conflict(si, a, "sr", res, by_prec, (r,)))
                    if res == "shift":
                        self.action[si][a] = ("s", shifts[a])
                    elif res == "reduce":
                        self.action[si][a] = ("r", r)
                elif a in shifts:
                    self.action[si][a] = ("s", shifts[a])
                elif r == 0:
                    self.action[si][a] = ("acc", 0)
                else:
                    self.action[si][a] = ("r", r)

    # --------------------------------------------------------------- parsing token-type sentences
    def parse(self, toks: list[str]):
        """Parse a list of terminal names; return a tree (name, children) or None (syntax error).
        Leaves are (terminal, position)."""
        st = [0]
        vals = []
        i = 0
        toks = list(toks) + [END]
        steps = 0
        while True:
            steps += 1
            if steps > 100000:
                raise AnalysisError("LR parse did not terminate")
            a = toks[i]
            act = self.action[st[-1]].get(a)
            if act is None:
                return None
            if act[0] == "s":
                st.append(act[1])
                vals.append((a, i))
                i += 1
            elif act[0] == "r":
                p = self.prods[act[1]]
                n = len(p.syms)
                kids = vals[len(vals) - n:] if n else []
                if n:
                    del vals[len(vals) - n:]
                    del st[len(st) - n:]
                vals.append((p.index, tuple(kids)))
                st.append(self.goto[(st[-1], p.name)])
            else:
                return vals[-1]

    def accepts(self, toks) -> bool:
        return self.parse(toks) is not None


# ------------------------------------------------------------------- plain CFG utilities
class CFG:
    """A context-free grammar as {nonterminal: [tuple of symbols]} with a start symbol."""

    def __init__(self, rules: dict, start: str):
        self.rules = rules
        self.start = start
        self.nts = set(rules)

    @classmethod
    def from_grammar(cls, g: Grammar):
        rules = {}
        for p in g.prods[1:]:
            rules.setdefault(p.name, []).append(tuple(p.syms))
        return cls(rules, g.start)

    @classmethod
    def from_bnf(cls, text: str):
        """Parse the reference BNF: `name ::= a b | c` lines, `|` continuation lines, `#` comments,
        an empty alternative written as nothing or `<empty>`."""
        rules, cur, start = {}, None, None
        for raw in text.splitlines():
            line = raw.split("#", 1)[0].strip()
            if not line:
                continue
            if "::=" in line:
                cur, rhs = [x.strip() for x in line.split("::=", 1)]
                start = start or cur
                rules.setdefault(cur, [])
            elif line.startswith("|"):
                rhs = line
            else:
                raise AnalysisError(f"reference BNF line not understood: {raw!r}")
            for alt in rhs.split("|"):
                if alt is rhs and not rhs.strip():
                    continue
                syms = tuple(s for s in alt.split() if s != "<empty>")
                if rhs.strip().startswith("|") and alt == rhs.split("|")[0] and not alt.strip():
                    continue
                rules[cur].append(syms)
        # de-duplicate
        for k in rules:
            seen, out = set(), []
            for a in rules[k]:
                if a not in seen:
                    seen.add(a)
                    out.append(a)
            rules[k] = out
        return cls(rules, start)

    def canonical(self):
        """Inline pure aliases (A ::= B) and nonterminals deriving only the empty string, then
        return a renaming-independent signature used for structural isomorphism."""
        rules = {k: list(v) for k, v in self.rules.items()}
        # remove nonterminals that derive only epsilon (e.g. `empty`)
        eps_only = {k for k, v in rules.items() if v and all(len(a) == 0 for a in v)}
        for k in list(rules):
            rules[k] = [tuple(s for s in a if s not in eps_only) for a in rules[k]]
        for k in eps_only:
            if k != self.start:
                rules.pop(k, None)
        return rules

    def min_lengths(self):
        INF = 10 ** 9
        ml = {n: INF for n in self.rules}
        changed = True
        while changed:
            changed = False
            for n, alts in self.rules.items():
                for a in alts:
                    t = sum(ml.get(s, 1) if s in self.rules else 1 for s in a)
                    if t < ml[n]:
                        ml[n] = t
                        changed = True
        return ml

    def sentences(self, maxlen: int, limit: int = 200000):
        """All sentences (tuples of terminals) of length <= maxlen, breadth-first by length of
        the sentential form; leftmost derivations only, de-duplicated."""
        ml = self.min_lengths()

        def lower(form):
            return sum(ml[s] if s in self.rules else 1 for s in form)
        seen_forms = set()
        out = set()
        q = deque([(self.start,)])
        while q:
            form = q.popleft()
            idx = next((i for i, s in enumerate(form) if s in self.rules), None)
            if idx is None:
                if form not in out:
                    out.add(form)
                    yield form
                    if len(out) >= limit:
                        return
                continue
            for alt in self.rules[form[idx]]:
                nf = form[:idx] + alt + form[idx + 1:]
                if lower(nf) > maxlen or nf in seen_forms:
                    continue
                seen_forms.add(nf)
                q.append(nf)


def earley_recognise(cfg: CFG, toks) -> bool:
    """Plain Earley recogniser (handles nullable rules) used as the independent reference."""
    toks = list(toks)
    n = len(toks)
    chart = [set() for _ in range(n + 1)]
    START = "__start__"
    rules = dict(cfg.rules)
    rules[START] = [(cfg.start,)]
    nullable = set()
    changed = True
    while changed:
        changed = False
        for k, alts in rules.items():
            if k not in nullable and any(all(s in nullable for s in a) for a in alts):
                nullable.add(k)
                changed = True
    chart[0].add((START, 0, 0, 0))
    for i in range(n + 1):
        work = list(chart[i])
        while work:
            lhs, ai, dot, origin = work.pop()
            alt = rules[lhs][ai]
            if dot < len(alt):
                s = alt[dot]
                if s in rules:
                    for bi in range(len(rules[s])):
                        it = (s, bi, 0, i)
                        if it not in chart[i]:
                            chart[i].add(it)
                            work.append(it)
                    if s in nullable:
                        it = (lhs, ai, dot + 1, origin)
                        if it not in chart[i]:
                            chart[i].add(it)
                            work.append(it)
                elif i < n and toks[i] == s:
                    chart[i + 1].add((lhs, ai, dot + 1, origin))
            else:
                for (l2, a2, d2, o2) in list(chart[origin]):
                    alt2 = rules[l2][a2]
                    if d2 < len(alt2) and alt2[d2] == lhs:
                        it = (l2, a2, d2 + 1, o2)
                        if it not in chart[i]:
                            chart[i].add(it)
                            work.append(it)
    return any(l == START and d == 1 and o == 0 for (l, a, d, o) in chart[n])


def _earley_chunk(args):
    bnf, sentences = args
    cfg = CFG.from_bnf(bnf)
    for s in sentences:
        if not earley_recognise(cfg, s):
            return s
    return None


def first_non_member(bnf_text: str, sentences, workers=None):
    """First sentence (in list order per chunk) that the reference grammar does not derive, using worker
    processes; None if all are members."""
    import os
    from concurrent.futures import ProcessPoolExecutor
    sentences = list(sentences)
    workers = workers or max(2, (os.cpu_count() or 4))
    if len(sentences) < 2000:
        return _earley_chunk((bnf_text, sentences))
    size = (len(sentences) + workers - 1) // workers
    chunks = [(bnf_text, sentences[i:i + size]) for i in range(0, len(sentences), size)]
    with ProcessPoolExecutor(workers) as ex:
        for r in ex.map(_earley_chunk, chunks):
            if r is not None:
                return r
    return None

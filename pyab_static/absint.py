"""E6: abstract interpretation of the compile pipeline (grammar actions -> pydantic models ->
PythonCodeGen) over a domain of *templates*.

Nothing of pyab_experiment is imported or executed.  The function bodies are read as `ast` and
evaluated over abstract values:

  Sym     an opaque token value (string content, identifier name, int, float) with provenance;
          its concrete value is never known, so no control decision may depend on it
  Tmpl    a string = sequence of literal text and Holes (a Sym rendered through str/repr/...)
  AList / ASet / Obj / EnumVal / concrete ints, bools, None

Control flow in the analysed code may depend only on the *shape* of the program being compiled
(node classes, enum members, None-ness, list lengths, identity of identifier symbols).  When a
decision depends on something the domain does not determine (truthiness of an opaque string),
the interpreter forks: the driver re-runs with both outcomes and reports the assumption.
Anything outside the supported subset raises AnalysisError (exit 2), never a verdict.
"""
from __future__ import annotations

import ast
import os
import re
from dataclasses import dataclass, field

from .core import AnalysisError
from .srcmodel import Module, Source, dotted, norm, walk_no_nested


class Unsupported(AnalysisError):
    pass


class ContentDependent(Unsupported):
    """The analysed code cuts the text of a literal into a content-dependent number of pieces (split, partition, splitlines):
    what it builds from them - how many constants, of which kinds - is then decided by the literal's characters."""


class NeedChoice(Exception):
    def __init__(self, what):
        self.what = what


class ReturnSig(Exception):
    def __init__(self, value):
        self.value = value


class RaiseSig(Exception):
    """The analysed code raises an exception (part of its behaviour, not an analysis failure)."""

    def __init__(self, exc_name, site, text=""):
        self.exc_name, self.site, self.text = exc_name, site, text


class BreakSig(Exception):
    pass


class ContinueSig(Exception):
    pass


# ------------------------------------------------------------------ values
_sym_counter = [0]


@dataclass(eq=False)
class Sym:
    kind: str                 # 'str' | 'ident' | 'int' | 'float'
    src: str                  # provenance, e.g. "STRING_LITERAL#2"
    name: str = ""            # placeholder identifier for kind 'ident'
    neg: bool = False
    coerced: tuple = ()       # ((from_kind, to_kind, where), ...) lossy conversions applied
    uid: int = 0

    def __post_init__(self):
        if not self.uid:
            _sym_counter[0] += 1
            self.uid = _sym_counter[0]

    def __repr__(self):
        return f"<{self.kind}:{self.src}{' neg' if self.neg else ''}>"

    @property
    def overflow(self) -> bool:
        """A decimal literal with more digits than a float can hold: float() of it is inf.  (All other numeric
        symbols stand for finite values; digits cannot produce nan.)"""
        return self.kind == "float" and ":OVERFLOW" in self.src

    @property
    def huge(self) -> bool:
        """An integer literal whose magnitude exceeds the largest double (309 digits or more).  All other integer symbols stand
        for integers a float can approximate."""
        return self.kind == "int" and ":HUGE" in self.src

    def as_inf(self):
        return float("-inf") if self.neg else float("inf")


@dataclass(frozen=True)
class Hole:
    sym: Sym
    render: str               # 'str' | 'repr' | 'ascii'
    origin: str               # file:line of the expression that rendered it

    def __repr__(self):
        return f"{{{self.sym.src}!{self.render}}}"


class Tmpl:
    __slots__ = ("parts", "nondet")

    def __init__(self, parts=(), nondet=()):
        out = []
        for p in parts:
            if isinstance(p, str):
                if not p:
                    continue
                if out and isinstance(out[-1], str):
                    out[-1] += p
                else:
                    out.append(p)
            else:
                out.append(p)
        self.parts = tuple(out)
        self.nondet = tuple(dict.fromkeys(nondet))

    @staticmethod
    def lit(s: str):
        return Tmpl((s,))

    def __add__(self, other):
        return Tmpl(self.parts + other.parts, self.nondet + other.nondet)

    def is_literal(self):
        return all(isinstance(p, str) for p in self.parts)

    def text(self):
        if not self.is_literal():
            raise Unsupported("string value is not a compile-time literal")
        return "".join(self.parts)

    def min_len(self):
        # an identifier token is never empty
        return sum(len(p) if isinstance(p, str) else (1 if p.sym.kind == "ident" and p.render == "str" else 0) for p in self.parts)

    def holes(self):
        return [p for p in self.parts if isinstance(p, Hole)]

    def __repr__(self):
        return "T(" + "".join(p if isinstance(p, str) else repr(p) for p in self.parts) + ")"


@dataclass(eq=False)
class AList:
    items: list
    pytype: str = "list"      # 'list' | 'tuple'
    nondet: tuple = ()        # non-empty when the order came from iterating a set


@dataclass(eq=False)
class ASet:
    items: list


@dataclass(eq=False)
class ADict:
    items: dict


@dataclass(frozen=True)
class RePattern:
    """A compiled regular expression whose pattern text is known."""
    pattern: str


@dataclass(eq=False)
class Opaque:
    """A value the analysing rule supplies in place of a library object (a parsed AST, a generated text, a code object, a
    compiled function ...).  `attrs` are readable attributes, `methods` maps a method name to a callable
    (interp, args, kwargs, site) -> value."""
    tag: str
    payload: object = None
    attrs: dict = field(default_factory=dict)
    methods: dict = field(default_factory=dict)

    def __repr__(self):
        return f"<{self.tag} {self.payload!r}>" if self.payload is not None else f"<{self.tag}>"


@dataclass(eq=False)
class PartialVal:
    func: object
    args: list
    kwargs: dict


@dataclass(frozen=True)
class ABytes:
    """<text>.encode(codec, errors): the bytes of an opaque string."""
    src: object
    codec: str
    errors: str


@dataclass(eq=False)
class AHash:
    """A hashlib object: algorithm + the sequence of byte strings fed to it."""
    algo: str
    data: list


@dataclass(frozen=True)
class ADigest:
    """hexdigest()/digest() of an AHash, possibly sliced."""
    algo: str
    data: tuple
    kind: str                  # 'hex' | 'bytes'
    lo: int | None = 0
    hi: int | None = None
    step: int | None = None


@dataclass(frozen=True)
class ABits:
    """An integer read from a digest slice, times an exact rational scale (1 for the bare integer)."""
    digest: ADigest
    byteorder: str
    scale: object              # fractions.Fraction


class Num:
    """An abstract number: a sympy expression over named unknowns.  Arithmetic builds expressions; comparisons are
    answered by the oracle the analysing rule installs (`Interp.num_oracle`), by sympy when the sign is known, or not at all
    (Unsupported: the computation left the domain the rule set up)."""
    __slots__ = ("e", "fl")

    def __init__(self, e, fl=False):
        self.e = e
        self.fl = fl              # definitely a Python float (came through a float literal, true division, float(), math.*)

    def __repr__(self):
        return f"Num({self.e})"


@dataclass(frozen=True)
class Indexed:
    """seq[index] where the index is an abstract number (e.g. population[floor(u*n)])."""
    seq: object
    index: object

    def __repr__(self):
        return f"Indexed(<{len(self.seq.items)} items>, {self.index})"


def _sp():
    import sympy
    return sympy


def _to_expr(v):
    sp = _sp()
    if isinstance(v, Num):
        return v.e
    if isinstance(v, bool):
        return None
    if isinstance(v, int):
        return sp.Integer(v)
    if isinstance(v, float):
        if v != v or v in (float("inf"), float("-inf")):
            return sp.nan if v != v else (sp.oo if v > 0 else -sp.oo)
        return sp.nsimplify(v, rational=True) if float(v).is_integer() or abs(v) < 1e6 else sp.Float(v)
    return None


class ACounter(ADict):
    """collections.Counter / defaultdict(int): a missing key reads as 0."""


@dataclass(eq=False)
class Obj:
    cls: "ClassVal"
    attrs: dict

    def __repr__(self):
        return f"<{self.cls.name} {' '.join(f'{k}={v!r}' for k, v in self.attrs.items())}>"


@dataclass(frozen=True)
class EnumVal:
    cls: str
    member: str


@dataclass(eq=False)
class ClassVal:
    name: str
    mod: Module
    node: ast.ClassDef
    kind: str                 # 'model' | 'enum' | 'plain' | 'exception'


@dataclass(eq=False)
class DispatchVal:
    """A functools.singledispatchmethod of a class: fallback implementation plus (type name, implementation) registrations."""
    mod: object
    cls: object
    default: object
    regs: list
    inst: object


@dataclass(eq=False)
class CachedVal:
    """functools.lru_cache / cache applied to a function: one result per distinct key for the whole run."""
    func: object
    store: dict


@dataclass(eq=False)
class SuperVal:
    """super() inside a method of `owner`, for the instance (or class) the method was called on."""
    owner: "ClassVal"
    first: object


@dataclass(eq=False)
class FuncVal:
    mod: Module
    node: ast.FunctionDef
    bound: object = None
    owner: ClassVal | None = None
    closure: object = None          # Env of the enclosing function (nested def / lambda), looked up late


@dataclass(frozen=True)
class Builtin:
    name: str


@dataclass(eq=False)
class BoundMethod:
    recv: object
    name: str


@dataclass(eq=False)
class PVal:
    """sly's production slice `p`."""
    syms: tuple
    values: list
    aliases: dict = field(default_factory=dict)


@dataclass(frozen=True)
class MinLen:
    n: int


@dataclass(frozen=True)
class Magnitude:
    """abs() of a numeric symbol: only its order against constants is known (see Interp.order)."""
    sym: Sym


@dataclass(eq=False)
class StrBuf:
    """io.StringIO used as an accumulator."""
    parts: list


@dataclass(eq=False)
class ExcVal:
    name: str
    args: list


@dataclass(eq=False)
class TokenVal:
    """sly Token inside a lexer action."""
    attrs: dict


class ModuleVal:
    def __init__(self, name):
        self.name = name


BUILTINS = {"str", "repr", "len", "sorted", "list", "tuple", "set", "isinstance", "type", "map",
            "enumerate", "zip", "range", "any", "all", "int", "float", "bool", "print", "reversed",
            "frozenset", "dict", "getattr", "hasattr", "id", "hash", "min", "max", "sum", "ascii",
            "format", "iter", "next", "filter", "abs", "setattr", "delattr", "compile", "exec", "eval", "globals", "locals", "callable",
            "vars", "round", "divmod", "pow", "object", "staticmethod"}
EXC_BUILTINS = {"RuntimeError", "ValueError", "TypeError", "KeyError", "NotImplementedError",
                "Exception", "AssertionError", "AttributeError", "IndexError", "SyntaxError"}


# ------------------------------------------------------------------ interpreter
class Interp:
    MAX_STEPS = 400000

    def __init__(self, src: Source, choices=()):
        self.src = src
        self.choices = list(choices)
        self.ci = 0
        self.assumptions: list[str] = []
        self.steps = 0
        self.class_cache: dict = {}
        self.calls: list[str] = []        # qualified names of analysed functions entered
        self.unresolved: list[str] = []
        self.pyd_events: list = []         # lossy pydantic coercions observed
        self.entropy: list = []            # (what, site) ambient/entropy sources touched
        self.sym_by_uid: dict = {}
        self.decided: dict = {}
        self.class_attr_cache: dict = {}
        self._model_extra: dict = {}
        self.shared_mutables: list = []

    # -- choices -----------------------------------------------------------
    def choose(self, what: str) -> bool:
        if what in self.decided:           # the same question has one answer within a run
            return self.decided[what]
        v = self._choose(what)
        self.decided[what] = v
        return v

    def _choose(self, what: str) -> bool:
        if self.ci < len(self.choices):
            v = self.choices[self.ci]
            self.ci += 1
            self.assumptions.append(f"{what}={v}")
            return v
        raise NeedChoice(what)

    # -- name resolution ---------------------------------------------------
    def module_env(self, mod: Module):
        """The module's top-level statements executed once, in order (only in cache_globals mode): tables filled by
        module-level loops, names rebound by later statements, loop variables left behind for late-binding closures."""
        envs = self.__dict__.setdefault("_module_envs", {})
        if mod.rel in envs:
            return envs[mod.rel]
        env = Env(mod, {})
        envs[mod.rel] = env
        compound = any(isinstance(st, (ast.For, ast.While, ast.If, ast.Try, ast.With, ast.AugAssign, ast.Delete)) or (
            isinstance(st, ast.Assign) and any(not isinstance(t, ast.Name) for t in st.targets)) or (
            isinstance(st, ast.Expr) and isinstance(st.value, ast.Call)) for st in mod.tree.body)
        if not compound:
            return env            # plain definitions: resolved lazily, one object per name
        for st in mod.tree.body:
            if isinstance(st, (ast.Import, ast.ImportFrom, ast.FunctionDef, ast.AsyncFunctionDef, ast.ClassDef)):
                continue
            if isinstance(st, ast.Expr) and isinstance(st.value, ast.Constant):
                continue
            if isinstance(st, ast.If) and "__name__" in norm(st.test):
                continue
            try:
                self.exec_stmt(st, env)
            except (Unsupported, NeedChoice, RaiseSig):
                # the names this statement would bind stay resolvable the lazy way (and fail there if really needed)
                for n_ in ast.walk(st):
                    if isinstance(n_, ast.Name) and isinstance(n_.ctx, ast.Store):
                        env.local.pop(n_.id, None)
        return env

    def global_lookup(self, mod: Module, name: str):
        if getattr(self, "cache_globals", False):
            menv = self.module_env(mod)
            if name in menv.local:
                return menv.local[name]
        m2, node = self.src.resolve_name(mod, name)
        if isinstance(node, ast.ClassDef):
            return self.class_val(m2, node)
        if isinstance(node, ast.FunctionDef):
            return FuncVal(m2, node)
        if isinstance(node, (ast.Assign, ast.AnnAssign)):
            val = node.value
            if val is None:
                raise Unsupported(f"global {name} has no value")
            if getattr(self, "cache_globals", False):
                # a module-level name denotes ONE object for the whole run
                gk = (m2.rel, name)
                gc_ = self.__dict__.setdefault("_global_cache", {})
                if gk not in gc_:
                    gc_[gk] = self.eval(val, Env(m2, {}))
                return gc_[gk]
            return self.eval(val, Env(m2, {}))
        if isinstance(node, tuple) and node[0] == "ext":
            _, modname, attr = node
            return _ext(modname, attr)
        if m2 is not None and node is None:
            return ModuleVal(m2.dotted)
        if name == "__name__":
            return Tmpl.lit(mod.dotted)
        if name == "__file__":
            return Tmpl.lit(str(mod.path))
        if name in BUILTINS:
            return Builtin(name)
        if name in EXC_BUILTINS:
            return ClassVal(name, mod, None, "exception")
        if name in ("None", "True", "False"):
            return {"None": None, "True": True, "False": False}[name]
        if name == "super":
            return Builtin("super")
        eg = getattr(self, "extra_globals", None)
        if eg is not None and name in eg:
            return eg[name]          # put into the module namespace at run time (globals()[...] = / setdefault)
        raise Unsupported(f"name {name!r} cannot be resolved in {mod.rel}")

    def class_val(self, mod: Module, node: ast.ClassDef) -> ClassVal:
        key = (mod.rel, node.name)
        if key in self.class_cache:
            return self.class_cache[key]
        kind = "plain"
        for b in node.bases:
            d = (dotted(b) or "").split(".")[-1]
            if d == "BaseModel":
                kind = "model"
            elif d in ("Enum", "IntEnum", "StrEnum"):
                kind = "enum"
            elif d in EXC_BUILTINS or d.endswith("Error") or d == "Exception":
                kind = "exception"
            elif d in mod.classes():
                k2 = self.class_val(mod, mod.classes()[d]).kind
                if k2 != "plain":
                    kind = k2
        cv = ClassVal(node.name, mod, node, kind)
        self.class_cache[key] = cv
        return cv

    # -- calling -----------------------------------------------------------
    def call(self, fv: FuncVal, args: list, kwargs: dict, site=""):
        self.steps += 1
        if self.steps > self.MAX_STEPS:
            raise Unsupported("abstract interpretation did not terminate (step budget)")
        fn = fv.node
        qual = f"{fv.mod.rel}:{(fv.owner.name + '.') if fv.owner else ''}{fn.name}"
        hook = getattr(self, "call_hooks", {}).get(qual)
        if hook is not None:
            return hook(self, args, kwargs, site)
        self.calls.append(qual)
        a = fn.args
        posonly = [x.arg for x in a.posonlyargs]
        params = posonly + [x.arg for x in a.args]
        local: dict = {}
        allargs = ([fv.bound] if fv.bound is not None else []) + list(args)
        if len(allargs) > len(params) and a.vararg is None:
            raise Unsupported(f"{qual}: too many positional arguments")
        for nme, v in zip(params, allargs):
            local[nme] = v
        if a.vararg is not None:
            local[a.vararg.arg] = AList(list(allargs[len(params):]), "tuple")
        kw = dict(kwargs)
        for nme in params[len(allargs):]:
            if nme in kw and nme not in posonly:      # a positional-only name given as keyword lands in **kwargs
                local[nme] = kw.pop(nme)
        if fv.owner is not None and allargs:
            local.setdefault("__super_args__", (fv.owner, allargs[0]))
        for ko in a.kwonlyargs:
            if ko.arg in kw:
                local[ko.arg] = kw.pop(ko.arg)
        # defaults
        env = Env(fv.mod, local, outer=fv.closure)
        ndef = len(a.defaults)
        for i, d in enumerate(a.defaults):
            nme = params[len(params) - ndef + i]
            if nme not in local:
                local[nme] = self.eval(d, Env(fv.mod, {}))
        for ko, d in zip(a.kwonlyargs, a.kw_defaults):
            if ko.arg not in local:
                if d is None:
                    raise Unsupported(f"{qual}: missing keyword-only argument {ko.arg}")
                local[ko.arg] = self.eval(d, Env(fv.mod, {}))
        if a.kwarg is not None:
            local[a.kwarg.arg] = ADict(kw)
        elif kw:
            raise Unsupported(f"{qual}: unexpected keyword arguments {sorted(kw)}")
        for nme in params:
            if nme not in local:
                raise Unsupported(f"{qual}: missing argument {nme}")
        is_gen = any(isinstance(x, (ast.Yield, ast.YieldFrom)) for x in walk_no_nested(fn))
        if is_gen:
            # a generator function: run eagerly and hand back the sequence of yielded values (the order of the values is
            # the order a consumer sees; side effects of the body happen before the first value is consumed)
            local["__yields__"] = []
            self.assumptions.append(f"generator {qual} evaluated eagerly")
            try:
                self.exec_block(fn.body, env)
            except ReturnSig:
                pass
            return AList(list(local["__yields__"]), "list")
        try:
            self.exec_block(fn.body, env)
        except ReturnSig as r:
            return r.value
        return None

    def ev_Yield(self, n, env):
        e = env
        while e is not None and "__yields__" not in e.local:
            e = e.outer
        if e is None:
            raise Unsupported(f"yield outside a generator function at {env.mod.site(n)}")
        e.local["__yields__"].append(self.eval(n.value, env) if n.value is not None else None)
        return None

    def ev_YieldFrom(self, n, env):
        e = env
        while e is not None and "__yields__" not in e.local:
            e = e.outer
        if e is None:
            raise Unsupported(f"yield from outside a generator function at {env.mod.site(n)}")
        for x in self.iterate(self.eval(n.value, env), env.mod.site(n)):
            e.local["__yields__"].append(x.value if isinstance(x, _Tagged) else x)
        return None

    # -- statements --------------------------------------------------------
    def exec_block(self, stmts, env):
        for st in stmts:
            self.exec_stmt(st, env)

    def exec_stmt(self, st, env):
        self.steps += 1
        if self.steps > self.MAX_STEPS:
            raise Unsupported("abstract interpretation did not terminate (step budget)")
        m = getattr(self, "st_" + type(st).__name__, None)
        if m is None:
            raise Unsupported(f"statement {type(st).__name__} not supported at {env.mod.site(st)}: {norm(st)[:80]}")
        return m(st, env)

    def st_Expr(self, st, env):
        if isinstance(st.value, ast.Constant):
            return
        self.eval(st.value, env)

    def st_Pass(self, st, env):
        return

    def st_Return(self, st, env):
        raise ReturnSig(self.eval(st.value, env) if st.value is not None else None)

    def st_Raise(self, st, env):
        if st.exc is None and self.__dict__.get("_exc_stack"):
            raise self._exc_stack[-1]           # bare `raise` inside a handler
        name, text = "Exception", ""
        if st.exc is not None:
            v = self.eval(st.exc, env)
            if isinstance(v, ExcVal):
                name = v.name
            elif isinstance(v, ClassVal):
                name = v.name
            else:
                name = norm(st.exc)
            text = norm(st.exc)
        raise RaiseSig(name, env.mod.site(st), text)

    def st_Assign(self, st, env):
        v = self.eval(st.value, env)
        for t in st.targets:
            self.assign(t, v, env)

    def st_AnnAssign(self, st, env):
        if st.value is not None:
            self.assign(st.target, self.eval(st.value, env), env)

    def st_AugAssign(self, st, env):
        cur = self.eval(_load(st.target), env)
        rhs = self.eval(st.value, env)
        self.assign(st.target, self.binop(st.op, cur, rhs, env.mod.site(st)), env)

    def assign(self, t, v, env):
        if isinstance(t, ast.Name):
            env.local[t.id] = v
        elif isinstance(t, ast.Attribute):
            o = self.eval(t.value, env)
            if isinstance(o, Obj):
                o.attrs[t.attr] = v
                if getattr(self, "trace", None) is not None:
                    self.trace.append(("store", o, t.attr, v, env.mod.site(t)))
            elif isinstance(o, TokenVal):
                o.attrs[t.attr] = v
            elif isinstance(o, ClassVal):
                raise Unsupported(f"class attribute store {norm(t)} at {env.mod.site(t)}")
            else:
                raise Unsupported(f"attribute store on {type(o).__name__} at {env.mod.site(t)}")
        elif isinstance(t, (ast.Tuple, ast.List)):
            items = self.iterate(v, env.mod.site(t))
            if len(items) != len(t.elts):
                raise Unsupported("unpacking length mismatch")
            for e, x in zip(t.elts, items):
                self.assign(e, x, env)
        elif isinstance(t, ast.Subscript):
            o = self.eval(t.value, env)
            k = self.eval(t.slice, env)
            if isinstance(o, ADict):
                o.items[self.dict_key(o, k, env.mod.site(t))] = v
            elif isinstance(o, AList) and isinstance(k, int):
                o.items[k] = v
            else:
                raise Unsupported(f"subscript store at {env.mod.site(t)}")
        else:
            raise Unsupported(f"assignment target {type(t).__name__}")

    def dedupe_opaque(self, items, site):
        """Set semantics over values whose equality is unknown (opaque literals): fork per pair."""
        opaque = [x for x in items if isinstance(x, Sym) and x.kind != "ident"]
        if len(opaque) > 3:
            raise Unsupported(f"set() over {len(opaque)} opaque literal values at {site}")
        out = []
        for x in items:
            dup = False
            for y in out:
                if _same(x, y):
                    dup = True
                elif isinstance(x, Sym) and isinstance(y, Sym) and x.kind != "ident" and y.kind != "ident":
                    if self.choose(f"equal({x.src},{y.src}) in a set at {site}"):
                        dup = True
                if dup:
                    break
            if not dup:
                out.append(x)
        return out

    def dict_key(self, d: ADict, k, site):
        """Key under which `k` is stored/looked up.  Two different opaque literals may or may not be
        equal: the decision is forked, since the generated text then depends on literal content."""
        self.check_hashable(k, site)
        kk = _key(k)
        if isinstance(k, Sym) and k.kind != "ident" and kk not in d.items:
            for other in list(d.items):
                if isinstance(other, tuple) and other and other[0] == "sym" and other != kk:
                    if self.choose(f"equal literals as dict keys ({k.src}) at {site}"):
                        return other
        return kk

    def check_hashable(self, k, site, depth=0):
        """hash(k) as Python performs it for dict keys and set members: lists, dicts and sets are unhashable; a pydantic v1 model is
        hashable only with Config.frozen (its hash is that of the tuple of its field values, so every value must be hashable too)."""
        if depth > 8:
            return
        if isinstance(k, (ADict, ASet)) or (isinstance(k, AList) and k.pytype in ("list", "deque")):
            raise RaiseSig("TypeError", site, f"unhashable type: {k.pytype if isinstance(k, AList) else type(k).__name__[1:].lower()}")
        if isinstance(k, AList):
            for x in k.items:
                self.check_hashable(x, site, depth + 1)
        if isinstance(k, Obj) and k.cls.kind == "model":
            self.model_fields(k.cls)
            cfg = self._model_extra.get(k.cls.name, ({},))[0]
            if cfg.get("frozen") is not True and cfg.get("allow_mutation") is not False:
                raise RaiseSig("TypeError", site, f"unhashable type: '{k.cls.name}'")
            if cfg.get("frozen") is True:
                for x in k.attrs.values():
                    self.check_hashable(x, site, depth + 1)

    def st_If(self, st, env):
        if self.truthy(self.eval(st.test, env), env.mod.site(st.test) + " " + norm(st.test)):
            self.exec_block(st.body, env)
        else:
            self.exec_block(st.orelse, env)

    def st_For(self, st, env):
        items = self.iterate(self.eval(st.iter, env), env.mod.site(st))
        broke = False
        for x in items:
            self.assign(st.target, x, env)
            try:
                self.exec_block(st.body, env)
            except BreakSig:
                broke = True
                break
            except ContinueSig:
                continue
        if not broke:
            self.exec_block(st.orelse, env)

    def st_While(self, st, env):
        n = 0
        while self.truthy(self.eval(st.test, env), env.mod.site(st.test)):
            n += 1
            if n > 10000:
                raise Unsupported("while loop does not terminate abstractly")
            try:
                self.exec_block(st.body, env)
            except BreakSig:
                break
            except ContinueSig:
                continue

    def st_Break(self, st, env):
        raise BreakSig()

    def st_Continue(self, st, env):
        raise ContinueSig()

    def st_Assert(self, st, env):
        if not self.truthy(self.eval(st.test, env), env.mod.site(st)):
            raise RaiseSig("AssertionError", env.mod.site(st), norm(st))

    def st_Match(self, st, env):
        subj = self.eval(st.subject, env)
        for case in st.cases:
            binds: dict = {}
            if self.match(case.pattern, subj, binds, env):
                env.local.update(binds)
                if case.guard is not None and not self.truthy(self.eval(case.guard, env), env.mod.site(case.guard)):
                    continue
                self.exec_block(case.body, env)
                return
        return

    def st_FunctionDef(self, st, env):
        env.local[st.name] = FuncVal(env.mod, st, closure=env)

    def st_Try(self, st, env):
        try:
            self.exec_block(st.body, env)
        except RaiseSig as r:
            for h in st.handlers:
                names = []
                if h.type is None:
                    names = None
                elif isinstance(h.type, ast.Tuple):
                    names = [dotted(e) for e in h.type.elts]
                else:
                    names = [dotted(h.type)]
                if names is None or r.exc_name in [n.split(".")[-1] for n in names if n] or "Exception" in names \
                        or "BaseException" in names:
                    if h.name:
                        env.local[h.name] = ExcVal(r.exc_name, [])
                    stack_ = self.__dict__.setdefault("_exc_stack", [])
                    stack_.append(r)
                    try:
                        self.exec_block(h.body, env)
                    except RaiseSig:
                        self.exec_block(st.finalbody, env)
                        raise
                    finally:
                        stack_.pop()
                    break
            else:
                self.exec_block(st.finalbody, env)
                raise
        else:
            self.exec_block(st.orelse, env)
        self.exec_block(st.finalbody, env)

    def st_With(self, st, env):
        """`with <generator-based context manager>:` = its statements before `yield`, the body, then the statements
        after `yield` (also when the yield sits in try/finally)."""
        if len(st.items) != 1:
            raise Unsupported(f"with statement with several items at {env.mod.site(st)}")
        item = st.items[0]
        call = item.context_expr
        if not isinstance(call, ast.Call):
            raise Unsupported(f"with on a non-call at {env.mod.site(st)}")
        f = self.eval(call.func, env)
        if isinstance(f, ClassVal) and f.kind == "plain":
            # a class with __enter__/__exit__
            cm = self.apply(f, [self.eval(a_, env) for a_ in call.args], {k_.arg: self.eval(k_.value, env) for k_ in call.keywords},
                            env.mod.site(st))
            enter = self.class_attr(f, "__enter__", cm, env.mod.site(st))
            exit_ = self.class_attr(f, "__exit__", cm, env.mod.site(st))
            v_ = self.call(enter, [], {}, env.mod.site(st))
            if item.optional_vars is not None:
                self.assign(item.optional_vars, v_, env)
            try:
                self.exec_block(st.body, env)
            except RaiseSig as r_:
                swallowed = self.call(exit_, [ExcVal(r_.exc_name, []), ExcVal(r_.exc_name, []), None], {}, env.mod.site(st))
                if swallowed is None or not self.truthy(swallowed, env.mod.site(st)):
                    raise
                return
            self.call(exit_, [None, None, None], {}, env.mod.site(st))
            return
        if not isinstance(f, FuncVal):
            d = dotted(call.func) or ""
            if d.endswith("Lock") or "lock" in d.lower() or d in ("contextlib.nullcontext", "nullcontext", "contextlib.suppress"):
                return self.exec_block(st.body, env)
            raise Unsupported(f"context manager {norm(call.func)} at {env.mod.site(st)}")
        decos = [dotted(d_) for d_ in f.node.decorator_list]
        if not any(d_ in ("contextmanager", "contextlib.contextmanager") for d_ in decos):
            raise Unsupported(f"with on {f.node.name}, which is not a @contextmanager ({env.mod.site(st)})")
        args = [self.eval(a_, env) for a_ in call.args]
        kwargs = {k_.arg: self.eval(k_.value, env) for k_ in call.keywords}
        fenv_local = {}
        params = [a_.arg for a_ in f.node.args.args]
        allargs = ([f.bound] if f.bound is not None else []) + args
        for pn, v_ in zip(params, allargs):
            fenv_local[pn] = v_
        fenv_local.update(kwargs)
        nd = len(f.node.args.defaults)
        for i_, d_ in enumerate(f.node.args.defaults):
            pn = params[len(params) - nd + i_]
            if pn not in fenv_local:
                fenv_local[pn] = self.eval(d_, Env(f.mod, {}))
        for ko, d_ in zip(f.node.args.kwonlyargs, f.node.args.kw_defaults):
            if ko.arg not in fenv_local and d_ is not None:
                fenv_local[ko.arg] = self.eval(d_, Env(f.mod, {}))
        fenv = Env(f.mod, fenv_local)

        def is_yield(s_):
            return isinstance(s_, ast.Expr) and isinstance(s_.value, ast.Yield)
        body = list(f.node.body)
        pre, post, yielded, fin = [], [], None, []
        for i_, s_ in enumerate(body):
            if is_yield(s_):
                pre, post, yielded = body[:i_], body[i_ + 1:], s_.value.value
                break
            if isinstance(s_, ast.Try) and any(is_yield(x_) for x_ in s_.body):
                if s_.handlers:
                    raise Unsupported(f"@contextmanager {f.node.name} catches exceptions of its block ({env.mod.site(st)})")
                j_ = next(k_ for k_, x_ in enumerate(s_.body) if is_yield(x_))
                pre = body[:i_] + s_.body[:j_]
                post = s_.body[j_ + 1:] + s_.finalbody + body[i_ + 1:]
                fin = s_.finalbody
                yielded = s_.body[j_].value.value
                break
        else:
            raise Unsupported(f"@contextmanager {f.node.name} has no top-level yield ({env.mod.site(st)})")
        self.exec_block(pre, fenv)
        if item.optional_vars is not None:
            self.assign(item.optional_vars, self.eval(yielded, fenv) if yielded is not None else None, env)
        try:
            self.exec_block(st.body, env)
        except RaiseSig:
            self.exec_block(fin, fenv)          # what a `finally` around the yield still does; the rest is skipped
            raise
        self.exec_block(post, fenv)

    def st_Global(self, st, env):
        raise Unsupported(f"global statement at {env.mod.site(st)}")

    def st_Import(self, st, env):
        for a in st.names:
            env.local[a.asname or a.name.split(".")[0]] = ExtVal(a.name, None)

    def st_ImportFrom(self, st, env):
        for a in st.names:
            env.local[a.asname or a.name] = _ext(st.module or "", a.name)

    # -- pattern matching --------------------------------------------------
    def match(self, pat, subj, binds, env) -> bool:
        if isinstance(pat, ast.MatchAs):
            if pat.pattern is not None and not self.match(pat.pattern, subj, binds, env):
                return False
            if pat.name:
                binds[pat.name] = subj
            return True
        if isinstance(pat, ast.MatchOr):
            return any(self.match(p, subj, binds, env) for p in pat.patterns)
        if isinstance(pat, ast.MatchSingleton):
            return subj is pat.value or (pat.value is None and subj is None)
        if isinstance(pat, ast.MatchValue):
            v = self.eval(pat.value, env)
            return self.equal(subj, v, env.mod.site(pat))
        if isinstance(pat, ast.MatchSequence):
            if not isinstance(subj, AList):
                return False
            star = [i for i, p in enumerate(pat.patterns) if isinstance(p, ast.MatchStar)]
            n = len(subj.items)
            if not star:
                if n != len(pat.patterns):
                    return False
                return all(self.match(p, x, binds, env) for p, x in zip(pat.patterns, subj.items))
            i = star[0]
            after = len(pat.patterns) - i - 1
            if n < i + after:
                return False
            for p, x in zip(pat.patterns[:i], subj.items[:i]):
                if not self.match(p, x, binds, env):
                    return False
            for p, x in zip(pat.patterns[i + 1:], subj.items[n - after:] if after else []):
                if not self.match(p, x, binds, env):
                    return False
            if pat.patterns[i].name:
                binds[pat.patterns[i].name] = AList(list(subj.items[i:n - after]))
            return True
        if isinstance(pat, ast.MatchClass):
            cname = dotted(pat.cls)
            if not self.isinstance_name(subj, cname.split(".")[-1], env):
                return False
            if pat.patterns:
                # positional sub-patterns: only the builtin "match self" form, e.g. str(x)
                if len(pat.patterns) == 1 and cname in ("str", "int", "float", "tuple", "list", "bool"):
                    if not self.match(pat.patterns[0], subj, binds, env):
                        return False
                else:
                    raise Unsupported(f"positional class pattern at {env.mod.site(pat)}")
            for k, p in zip(pat.kwd_attrs, pat.kwd_patterns):
                if not isinstance(subj, Obj) or k not in subj.attrs:
                    return False
                if not self.match(p, subj.attrs[k], binds, env):
                    return False
            return True
        raise Unsupported(f"pattern {type(pat).__name__} at {env.mod.site(pat)}")

    def isinstance_name(self, v, cname: str, env) -> bool:
        if cname == "object":
            return True
        if isinstance(v, Sym):
            return {"str": v.kind in ("str", "ident"), "int": v.kind == "int",
                    "float": v.kind == "float", "bool": False}.get(cname, False)
        if isinstance(v, Tmpl):
            return cname == "str"
        if isinstance(v, bool):
            return cname in ("bool", "int")
        if isinstance(v, int):
            return cname == "int"
        if isinstance(v, float):
            return cname == "float"
        if isinstance(v, AList):
            return cname == v.pytype
        if isinstance(v, ASet):
            return cname == "set"
        if isinstance(v, ADict):
            return cname == "dict"
        if isinstance(v, Obj):
            c = v.cls
            seen = 0
            while c is not None and seen < 10:
                if c.name == cname:
                    return True
                nxt = None
                if c.node is not None:
                    for b in c.node.bases:
                        d = (dotted(b) or "").split(".")[-1]
                        if d == cname:
                            return True
                        if d in c.mod.classes():
                            nxt = self.class_val(c.mod, c.mod.classes()[d])
                c = nxt
                seen += 1
            return False
        if isinstance(v, EnumVal):
            return cname in (v.cls, "Enum")
        if v is None:
            return cname == "NoneType"
        return False

    # -- expressions -------------------------------------------------------
    def eval(self, node, env):
        self.steps += 1
        if self.steps > self.MAX_STEPS:
            raise Unsupported("abstract interpretation did not terminate (step budget)")
        m = getattr(self, "ev_" + type(node).__name__, None)
        if m is None:
            raise Unsupported(f"expression {type(node).__name__} not supported at {env.mod.site(node)}: {norm(node)[:80]}")
        return m(node, env)

    def ev_Constant(self, n, env):
        if isinstance(n.value, str):
            return Tmpl.lit(n.value)
        if isinstance(n.value, (int, float, bool)) or n.value is None:
            return n.value
        raise Unsupported(f"constant {n.value!r}")

    def ev_Name(self, n, env):
        if n.id in env.local:
            return env.local[n.id]
        if env.outer is not None:
            e = env.outer
            while e is not None:
                if n.id in e.local:
                    return e.local[n.id]
                e = e.outer
        return self.global_lookup(env.mod, n.id)

    def ev_JoinedStr(self, n, env):
        out = Tmpl()
        if len(n.values) == 1 and isinstance(n.values[0], ast.FormattedValue) and n.values[0].format_spec is not None:
            v0 = n.values[0]
            val0 = self.eval(v0.value, env)
            if isinstance(val0, ADigest) and val0.kind == "int":
                spec = self.eval(v0.format_spec, env)
                if isinstance(spec, Tmpl) and spec.is_literal() and re.fullmatch(r"0?\d*[xXdo]?", spec.text()):
                    return ADigest(val0.algo, val0.data, "hex", val0.lo, val0.hi, val0.step)   # an injective rendering of the number
        for v in n.values:
            if isinstance(v, ast.Constant):
                out = out + Tmpl.lit(str(v.value))
            else:
                spec_txt = ""
                if v.format_spec is not None:
                    spec = self.eval(v.format_spec, env)
                    if not (isinstance(spec, Tmpl) and spec.is_literal()):
                        raise Unsupported(f"computed format spec at {env.mod.site(v)}")
                    spec_txt = spec.text()
                val = self.eval(v.value, env)
                how = {-1: "str", 115: "str", 114: "repr", 97: "ascii"}[v.conversion]
                if spec_txt:
                    if isinstance(val, Sym):
                        out = out + Tmpl((Hole(val, f"format:{spec_txt}", env.mod.site(v)),))
                    elif isinstance(val, (int, float)) and not isinstance(val, bool):
                        out = out + Tmpl.lit(format(val, spec_txt))
                    elif isinstance(val, Tmpl) and val.is_literal():
                        out = out + Tmpl.lit(format(val.text(), spec_txt))
                    else:
                        raise Unsupported(f"format spec {spec_txt!r} on {type(val).__name__} at {env.mod.site(v)}")
                else:
                    out = out + self.render(val, how, env.mod.site(v))
        return out

    def ev_FormattedValue(self, n, env):
        return self.ev_JoinedStr(ast.JoinedStr(values=[n]), env)

    def ev_Attribute(self, n, env):
        o = self.eval(n.value, env)
        return self.getattr(o, n.attr, env.mod.site(n))

    def getattr(self, o, attr, site):
        if isinstance(o, SuperVal):
            return self.super_attr(o, attr, site)
        if isinstance(o, Obj) and attr == "__dict__":
            d_ = ADict({})
            d_.items = o.attrs
            return d_
        if isinstance(o, Obj):
            if attr in o.attrs:
                return o.attrs[attr]
            if o.cls.kind == "model" and attr in ("copy", "dict"):
                try:
                    return self.class_attr(o.cls, attr, o, site)
                except Unsupported:
                    return BoundMethod(o, attr)      # pydantic BaseModel.copy / .dict
            return self.class_attr(o.cls, attr, o, site)
        if isinstance(o, ClassVal):
            if o.kind == "enum":
                for st in o.node.body:
                    if isinstance(st, ast.Assign) and any(isinstance(t, ast.Name) and t.id == attr for t in st.targets):
                        return EnumVal(o.name, attr)
                if attr == "__members__":
                    return ADict({n_: EnumVal(o.name, n_) for n_, _v, _m in self.enum_members(o.name, site)})
                if any(isinstance(st, ast.FunctionDef) and st.name == attr for st in o.node.body):
                    return self.class_attr(o, attr, None, site)      # classmethod / staticmethod of the enum class
                raise Unsupported(f"enum {o.name} has no member {attr} ({site})")
            return self.class_attr(o, attr, None, site)
        if isinstance(o, Opaque):
            if attr in o.attrs:
                return o.attrs[attr]
            if attr in o.methods:
                return BoundMethod(o, attr)
            if o.tag in ("lexer", "parser") and not attr.startswith("__"):
                # some other attribute of the stand-in object (a counter, a description collected while lexing): an opaque value
                return o.attrs.setdefault(attr, Opaque(f"{o.tag}-attribute", payload=(o, attr)))
            raise Unsupported(f"attribute {attr} of {o.tag} ({site})")
        if isinstance(o, PVal):
            return self.p_attr(o, attr, site)
        if isinstance(o, TokenVal):
            if attr in o.attrs:
                return o.attrs[attr]
            raise Unsupported(f"token attribute {attr} ({site})")
        if isinstance(o, EnumVal):
            if attr == "name":
                return Tmpl.lit(o.member)
            if attr in ("value", "_value_"):
                extra = self.enum_member_attrs(o, site)
                if "_value_" in extra:
                    return extra["_value_"]
                return self.enum_value(o, site)
            extra = self.enum_member_attrs(o, site)
            if attr in extra:
                return extra[attr]
            # a property or method the enum class defines
            for m_ in self.src.modules.values():
                c_ = m_.classes().get(o.cls)
                if c_ is not None and self.class_val(m_, c_).kind == "enum":
                    return self.class_attr(self.class_val(m_, c_), attr, o, site)
        if isinstance(o, AHash) and attr in ("digest_size", "block_size", "name"):
            if attr == "name":
                return Tmpl.lit(o.algo)
            if attr == "digest_size" and _digest_size(o.algo) is not None:
                return _digest_size(o.algo)
        if isinstance(o, (Tmpl, AList, ASet, ADict, Sym, StrBuf, RePattern, AHash, ABytes, ADigest)):
            return BoundMethod(o, attr)
        if isinstance(o, ExtVal):
            if o.module == "math" and not o.attr and attr in ("inf", "nan", "pi", "e", "tau"):
                import math as _math
                return getattr(_math, attr)
            if o.module == "sys" and o.attr == "float_info" and attr in ("max", "min", "epsilon", "dig", "mant_dig", "max_exp", "max_10_exp"):
                import sys as _sys
                return getattr(_sys.float_info, attr)      # IEEE-754 double constants, the same on every CPython build
            return ExtVal(o.module, (o.attr + "." if o.attr else "") + attr)
        if isinstance(o, Builtin) and attr in ("__name__", "__qualname__") and "." not in o.name:
            return Tmpl.lit(o.name)               # the name of a built-in type is fixed text
        if isinstance(o, ClassVal) and attr in ("__name__", "__qualname__"):
            return Tmpl.lit(o.name)
        if isinstance(o, Builtin) and o.name in ("str", "int", "float", "list", "tuple", "dict", "set", "object"):
            return Builtin(f"{o.name}.{attr}")
        if isinstance(o, ModuleVal):
            m = self.src.by_dotted(o.name)
            return self.global_lookup(m, attr)
        raise Unsupported(f"attribute {attr} of {type(o).__name__} ({site})")

    def enum_member_attrs(self, ev: "EnumVal", site):
        """Attributes a member gets from the class's own __init__(self, *value) or __new__(cls, *value) recipe."""
        cache = self.__dict__.setdefault("_enum_attr_cache", {})
        key = (ev.cls, ev.member)
        if key in cache:
            return cache[key]
        cache[key] = {}
        for m_ in self.src.modules.values():
            c_ = m_.classes().get(ev.cls)
            if c_ is None or self.class_val(m_, c_).kind != "enum":
                continue
            cv = self.class_val(m_, c_)
            fns = {f.name: f for f in c_.body if isinstance(f, ast.FunctionDef)}
            if "__init__" not in fns and "__new__" not in fns:
                break
            members = self.enum_members(ev.cls, site)
            idx = [n_ for n_, _v, _m in members].index(ev.member)
            raw = self.eval(members[idx][1], Env(m_, {}))
            args = list(raw.items) if isinstance(raw, AList) and raw.pytype == "tuple" else [raw]
            holder = Obj(cv, {})
            if "__new__" in fns:
                env_before = ADict({n_: EnumVal(ev.cls, n_) for n_, _v, _m in members[:idx]})
                old_hooks = dict(getattr(self, "builtin_hooks", {}))
                self.builtin_hooks = {**old_hooks, "object.__new__": lambda it_, a_, k_, s_: holder}
                clsproxy = Opaque("enum-class-under-construction", attrs={"__members__": env_before, "__name__": Tmpl.lit(ev.cls)})
                try:
                    self.call(FuncVal(m_, fns["__new__"], None, cv), [clsproxy] + args, {}, site)
                finally:
                    self.builtin_hooks = old_hooks
            if "__init__" in fns:
                if "_value_" not in holder.attrs:
                    holder.attrs.setdefault("_value_", raw)
                self.call(FuncVal(m_, fns["__init__"], holder, cv), args, {}, site)
                if holder.attrs.get("_value_") is raw and "__new__" not in fns:
                    holder.attrs.pop("_value_")
            cache[key] = dict(holder.attrs)
            break
        return cache[key]

    def enum_members(self, clsname, site):
        for m in self.src.modules.values():
            c = m.classes().get(clsname)
            if c is not None and self.class_val(m, c).kind == "enum":
                out = []
                for st in c.body:
                    if isinstance(st, ast.Assign) and len(st.targets) == 1 and isinstance(st.targets[0], ast.Name):
                        out.append((st.targets[0].id, st.value, m))
                return out
        raise Unsupported(f"enum class {clsname} not found ({site})")

    def enum_value(self, ev: EnumVal, site):
        auto_n = 0
        for name, val, m in self.enum_members(ev.cls, site):
            if isinstance(val, ast.Call) and (dotted(val.func) or "").split(".")[-1] == "auto":
                auto_n += 1
                v = auto_n
            else:
                v = self.eval(val, Env(m, {}))
                if isinstance(v, int):
                    auto_n = v
            if name == ev.member:
                return v
        raise Unsupported(f"enum member {ev.cls}.{ev.member} not found ({site})")

    def class_attr(self, cv: ClassVal, attr, inst, site):
        c = cv
        depth = 0
        while c is not None and depth < 10:
            for st in (c.node.body if c.node is not None else []):
                if isinstance(st, ast.FunctionDef) and st.name == attr:
                    decos = [dotted(d) for d in st.decorator_list]
                    if "property" in decos:
                        if inst is None:
                            raise Unsupported(f"property {attr} on class ({site})")
                        return self.call(FuncVal(c.mod, st, inst, c), [], {}, site)
                    if "staticmethod" in decos:
                        return FuncVal(c.mod, st, None, c)
                    if "classmethod" in decos:
                        return FuncVal(c.mod, st, cv, c)
                    if any(d in ("singledispatchmethod", "functools.singledispatchmethod") for d in decos):
                        # functools.singledispatchmethod: the implementations registered in the class body, chosen by the type of
                        # the first argument after self (the most specific registered class; this one is the fallback)
                        regs = []
                        for st2 in c.node.body:
                            if not isinstance(st2, ast.FunctionDef) or st2 is st:
                                continue
                            for d2 in st2.decorator_list:
                                tgt = d2.func if isinstance(d2, ast.Call) else d2
                                if dotted(tgt) == f"{attr}.register":
                                    if isinstance(d2, ast.Call) and d2.args:
                                        tnames = [(dotted(d2.args[0]) or "").split(".")[-1]]
                                    else:
                                        ann = st2.args.args[1].annotation if len(st2.args.args) > 1 else None
                                        tnames = [x.strip().split(".")[-1] for x in norm(ann).split("|")] if ann is not None else []
                                    for tn in tnames:
                                        regs.append((tn, st2))
                        return DispatchVal(c.mod, c, st, regs, inst)
                    if decos and any(d for d in decos) and not all(d in ("contextmanager", "contextlib.contextmanager") for d in decos):
                        # a decorator of the package: apply it to the plain function; the result is what the class holds
                        f_ = FuncVal(c.mod, st, None, c)
                        for d_ in reversed(st.decorator_list):
                            dv = self.eval(d_, Env(c.mod, {}))
                            if not isinstance(dv, (FuncVal, PartialVal)):
                                raise Unsupported(f"decorated method {c.name}.{attr} ({decos}) ({site})")
                            f_ = self.apply(dv, [f_], {}, site)
                        if isinstance(f_, FuncVal):
                            return FuncVal(f_.mod, f_.node, inst, f_.owner, f_.closure) if inst is not None else f_
                        raise Unsupported(f"decorator of {c.name}.{attr} does not return a function ({site})")
                    return FuncVal(c.mod, st, inst, c)
                if (isinstance(st, ast.Assign) and any(isinstance(t, ast.Name) and t.id == attr for t in st.targets)) or (
                        isinstance(st, ast.AnnAssign) and isinstance(st.target, ast.Name) and st.target.id == attr
                        and st.value is not None):
                    # a class-level object is ONE object shared by all instances: evaluate once per run
                    ck = (c.mod.rel, c.name, attr)
                    if ck not in self.class_attr_cache:
                        self.class_attr_cache[ck] = self.eval(st.value, Env(c.mod, {}))
                        if isinstance(self.class_attr_cache[ck], (ASet, AList, ADict)):
                            self.shared_mutables.append((f"{c.mod.rel}:{c.name}.{attr}", c.mod.site(st)))
                    return self.class_attr_cache[ck]
            nxt = None
            for b in (c.node.bases if c.node is not None else []):
                d = (dotted(b) or "").split(".")[-1]
                if d in c.mod.classes():
                    nxt = self.class_val(c.mod, c.mod.classes()[d])
                    break
            c = nxt
            depth += 1
        raise Unsupported(f"attribute {attr} not found on {cv.name} ({site})")

    def p_attr(self, p: PVal, attr, site):
        if attr == "_slice":
            return AList([TokenVal({"type": Tmpl.lit(s_), "value": v_}) for s_, v_ in zip(p.syms, p.values)], "list")
        # mirrors sly/yacc.py:Production.__init__ (namemap with duplicate counting and EBNF aliases)
        count = {}
        for s in p.syms:
            count[s] = count.get(s, 0) + 1
            for a_ in p.aliases.get(s, []):
                count[a_] = count.get(a_, 0) + 1
        use = {}
        for i, s in enumerate(p.syms):
            if count[s] > 1:
                k = f"{s}{use.get(s, 0)}"
                use[s] = use.get(s, 0) + 1
            else:
                k = s
            if k == attr:
                return p.values[i]
            for n_, a_ in enumerate(p.aliases.get(s, [])):
                if count[a_] > 1:
                    k = f"{a_}{use.get(a_, 0)}"
                    use[a_] = use.get(a_, 0) + 1
                else:
                    k = a_
                if k == attr:
                    v = p.values[i]
                    if isinstance(v, AList) and v.pytype == "list":
                        return AList([x.items[n_] for x in v.items], "list")
                    if isinstance(v, AList):
                        return v.items[n_]
                    raise Unsupported(f"EBNF alias {attr} on a value of type {type(v).__name__} ({site})")
        if attr in ("lineno", "index", "end"):
            # position of the leftmost terminal of the production: a number that depends on the layout of the text only
            return Sym("int", f"POSITION:{attr}")
        raise RaiseSig("AttributeError", site, f"No symbol {attr} in production slice {p.syms}")

    def ev_Subscript(self, n, env):
        o = self.eval(n.value, env)
        site = env.mod.site(n)
        if isinstance(n.slice, ast.Slice):
            lo = self.eval(n.slice.lower, env) if n.slice.lower is not None else None
            hi = self.eval(n.slice.upper, env) if n.slice.upper is not None else None
            st = self.eval(n.slice.step, env) if n.slice.step is not None else None
            if isinstance(o, AList) and all(isinstance(x, int) or x is None for x in (lo, hi, st)):
                return AList(o.items[slice(lo, hi, st)], o.pytype, o.nondet)
            if isinstance(o, Tmpl) and o.is_literal():
                return Tmpl.lit(o.text()[slice(lo, hi, st)])
            if isinstance(o, Tmpl) and all(isinstance(x, int) or x is None for x in (lo, hi, st)):
                return self.slice_tmpl(o, slice(lo, hi, st), site)
            if isinstance(o, Sym) and o.kind == "rawtoken":
                return Sym("str", o.src + f"[{lo}:{hi}]")
            if isinstance(o, ADigest) and all(isinstance(x, int) or x is None for x in (lo, hi, st)):
                if (o.lo, o.hi, o.step) != (0, None, None):
                    raise Unsupported(f"a digest is sliced twice ({site})")
                return ADigest(o.algo, o.data, o.kind, 0 if lo is None else lo, hi, st)
            raise Unsupported(f"slice of {type(o).__name__} ({site})")
        k = self.eval(n.slice, env)
        if isinstance(o, Sym) and o.kind == "rawtoken" and k in (0, -1) and not isinstance(k, bool):
            return Sym("str", f"{o.src}[{k}]")          # the token's first / last character
        if isinstance(o, ClassVal) and o.kind == "enum":
            if isinstance(k, Tmpl) and k.is_literal():
                if any(n_ == k.text() for n_, _v, _m in self.enum_members(o.name, site)):
                    return EnumVal(o.name, k.text())
                raise RaiseSig("KeyError", site, k.text())
            raise Unsupported(f"enum lookup by a computed name at {site}")
        if isinstance(o, AList) and isinstance(k, Num):
            return Indexed(o, k.e)
        if isinstance(o, AList) and isinstance(k, int):
            try:
                return o.items[k]
            except IndexError:
                raise RaiseSig("IndexError", site)
        if isinstance(o, ADict):
            kk = self.dict_key(o, k, site)
            if kk in o.items:
                return o.items[kk]
            if isinstance(o, ACounter):
                return 0
            raise RaiseSig("KeyError", site)
        if isinstance(o, PVal) and isinstance(k, int):
            return o.values[k]
        if self._is_namedtuple(o) and isinstance(k, int):
            return [o.attrs[f_[0]] for f_ in self._record_fields(o.cls)][k]
        if isinstance(o, Tmpl) and isinstance(k, int):
            if o.is_literal():
                try:
                    return Tmpl.lit(o.text()[k])
                except IndexError:
                    raise RaiseSig("IndexError", site)
            return self.slice_tmpl(o, k, site)
        raise Unsupported(f"subscript of {type(o).__name__} ({site})")

    def slice_tmpl(self, t: Tmpl, sl, site):
        """Index/slice of a string that contains rendered opaque values.  Literal edges are cut
        exactly; a cut that falls inside a rendered value yields a hole whose renderer records the
        cut (no longer a complete literal: judged by the renderer rules)."""
        desc = f"[{sl}]" if isinstance(sl, int) else f"[{'' if sl.start is None else sl.start}:{'' if sl.stop is None else sl.stop}" \
            + (f":{sl.step}" if sl.step is not None else "") + "]"
        if len(t.parts) == 1 and isinstance(t.parts[0], Hole):
            h = t.parts[0]
            return Tmpl((Hole(h.sym, h.render + desc, site),), t.nondet)
        # cuts confined to literal text at the ends
        parts = list(t.parts)
        if isinstance(sl, int):
            edge = parts[-1] if sl < 0 else parts[0]
            if isinstance(edge, str) and (len(edge) >= -sl if sl < 0 else len(edge) > sl):
                return Tmpl.lit(edge[sl])
            if isinstance(edge, Hole):
                return Tmpl((Hole(edge.sym, edge.render + desc, site),))
        elif sl.step is None:
            a, b = sl.start, sl.stop
            ok = True
            if a is not None:
                if a >= 0 and isinstance(parts[0], str) and len(parts[0]) >= a:
                    parts[0] = parts[0][a:]
                elif a >= 0 and isinstance(parts[0], Hole):
                    parts[0] = Hole(parts[0].sym, parts[0].render + f"[{a}:]", site)
                else:
                    ok = False
            if b is not None and ok:
                if b < 0 and isinstance(parts[-1], str) and len(parts[-1]) >= -b:
                    parts[-1] = parts[-1][:b]
                elif b < 0 and isinstance(parts[-1], Hole):
                    parts[-1] = Hole(parts[-1].sym, parts[-1].render + f"[:{b}]", site)
                else:
                    ok = False
            if ok:
                return Tmpl(parts, t.nondet)
        raise Unsupported(f"slice {desc} of a generated string cuts at an undetermined position ({site})")

    def ev_List(self, n, env):
        return AList(self._elts(n.elts, env), "list")

    def ev_Tuple(self, n, env):
        return AList(self._elts(n.elts, env), "tuple")

    def ev_Set(self, n, env):
        return ASet(_dedupe(self._elts(n.elts, env)))

    def _elts(self, elts, env):
        out = []
        for e in elts:
            if isinstance(e, ast.Starred):
                out.extend(self.iterate(self.eval(e.value, env), env.mod.site(e)))
            else:
                out.append(self.eval(e, env))
        return out

    def ev_Dict(self, n, env):
        d = {}
        for k, v in zip(n.keys, n.values):
            if k is None:
                o = self.eval(v, env)
                if not isinstance(o, ADict):
                    raise Unsupported("dict unpacking of non-dict")
                d.update(o.items)
            else:
                tmp = ADict(d)
                d[self.dict_key(tmp, self.eval(k, env), env.mod.site(n))] = self.eval(v, env)
        return ADict(d)

    def ev_NamedExpr(self, n, env):
        v = self.eval(n.value, env)
        # binds in the enclosing function's scope (comprehension scopes are transparent to the walrus)
        e = env
        while e.outer is not None and "__comp__" in e.local:
            e = e.outer
        e.local[n.target.id] = v
        return v

    def ev_IfExp(self, n, env):
        if self.truthy(self.eval(n.test, env), env.mod.site(n.test) + " " + norm(n.test)):
            return self.eval(n.body, env)
        return self.eval(n.orelse, env)

    def ev_BoolOp(self, n, env):
        last = None
        for v in n.values:
            last = self.eval(v, env)
            t = self.truthy(last, env.mod.site(v))
            if isinstance(n.op, ast.And) and not t:
                return last
            if isinstance(n.op, ast.Or) and t:
                return last
        return last

    def ev_UnaryOp(self, n, env):
        v = self.eval(n.operand, env)
        if isinstance(n.op, ast.Not):
            return not self.truthy(v, env.mod.site(n))
        if isinstance(n.op, ast.USub):
            if isinstance(v, Num):
                return Num(-v.e, v.fl)
            if isinstance(v, Sym) and v.kind in ("int", "float"):
                return Sym(v.kind, v.src, neg=not v.neg, coerced=v.coerced, uid=v.uid)
            if isinstance(v, (int, float)) and not isinstance(v, bool):
                return -v
        raise Unsupported(f"unary {type(n.op).__name__} on {type(v).__name__} at {env.mod.site(n)}")

    def ev_BinOp(self, n, env):
        return self.binop(n.op, self.eval(n.left, env), self.eval(n.right, env), env.mod.site(n))

    def binop(self, op, a, b, site):
        if isinstance(a, ABits) or isinstance(b, ABits):
            from fractions import Fraction
            bits, other, left = (a, b, True) if isinstance(a, ABits) else (b, a, False)
            if _isnum(other) and other == other and other not in (float("inf"), float("-inf")):
                k = Fraction(other)          # exact, also for floats such as 2**-32
                if isinstance(op, ast.Div) and left and k != 0:
                    return ABits(bits.digest, bits.byteorder, bits.scale / k)
                if isinstance(op, ast.Mult):
                    return ABits(bits.digest, bits.byteorder, bits.scale * k)
                if isinstance(op, ast.RShift) and left and isinstance(other, int) and other >= 0 and bits.scale == 1:
                    # dropping the low bits of a big-endian integer = reading a shorter prefix of the digest
                    dg = bits.digest
                    unit = 8 if dg.kind == "bytes" else 4
                    size = _digest_size(dg.algo)
                    if bits.byteorder == "big" and dg.step is None and size is not None and other % unit == 0:
                        per = 1 if dg.kind == "bytes" else 2
                        lo = dg.lo or 0
                        hi = dg.hi if dg.hi is not None else size * per
                        if 0 <= lo <= hi <= size * per and other // unit <= hi - lo:
                            return ABits(ADigest(dg.algo, dg.data, dg.kind, lo, hi - other // unit, None), "big", Fraction(1))
                    raise Unsupported(f"right shift of the hash integer by {other} bits at {site}")
            raise Unsupported(f"operator {type(op).__name__} on the hash integer at {site}")
        if isinstance(a, Num) or isinstance(b, Num):
            ea, eb = _to_expr(a), _to_expr(b)
            if ea is not None and eb is not None:
                sp = _sp()
                fl = any(isinstance(x, float) or getattr(x, "fl", False) for x in (a, b))
                if isinstance(op, ast.Add):
                    return Num(ea + eb, fl)
                if isinstance(op, ast.Sub):
                    return Num(ea - eb, fl)
                if isinstance(op, ast.Mult):
                    return Num(ea * eb, fl)
                if isinstance(op, ast.Div):
                    return Num(ea / eb, True)
                if isinstance(op, ast.Pow):
                    return Num(ea ** eb)
                if isinstance(op, ast.FloorDiv):
                    return Num(sp.floor(ea / eb))
            raise Unsupported(f"operator {type(op).__name__} on an abstract number at {site}")
        if isinstance(op, ast.Add):
            if isinstance(a, Tmpl) and isinstance(b, Tmpl):
                return a + b
            if isinstance(a, Tmpl) and isinstance(b, Sym) and b.kind in ("str", "ident"):
                return a + Tmpl((Hole(b, "str", site),))
            if isinstance(b, Tmpl) and isinstance(a, Sym) and a.kind in ("str", "ident"):
                return Tmpl((Hole(a, "str", site),)) + b
            if isinstance(a, Sym) and isinstance(b, Sym) and a.kind in ("str", "ident") and b.kind in ("str", "ident"):
                return Tmpl((Hole(a, "str", site), Hole(b, "str", site)))
            if isinstance(a, AList) and isinstance(b, AList) and a.pytype == b.pytype:
                return AList(a.items + b.items, a.pytype, a.nondet + b.nondet)
            if _isnum(a) and _isnum(b):
                return a + b
            num = lambda x: isinstance(x, Sym) and x.kind in ("int", "float")  # noqa: E731
            if num(a) and _isnum(b) and b == 0:
                return a
            if num(b) and _isnum(a) and a == 0:
                return b
            if (num(a) or _isnum(a)) and (num(b) or _isnum(b)):
                k = "int" if all((isinstance(x, Sym) and x.kind == "int") or isinstance(x, int) for x in (a, b)) else "float"
                ua = a.uid if isinstance(a, Sym) else int(a) % 991
                ub = b.uid if isinstance(b, Sym) else int(b) % 991
                return Sym(k, f"({_describe(a)}+{_describe(b)})", coerced=(("arith", "sum", "arithmetic on literal values", site),),
                           uid=500000 + (ua * 997 + ub) % 400000)
        if isinstance(op, ast.Sub) and _isnum(a) and _isnum(b):
            return a - b
        if isinstance(op, ast.Sub):
            num = lambda x: isinstance(x, Sym) and x.kind in ("int", "float")  # noqa: E731
            if num(a) and _isnum(b) and b == 0:
                return a
            if (num(a) or _isnum(a)) and (num(b) or _isnum(b)) and not isinstance(a, bool) and not isinstance(b, bool):
                # a difference of literal values: a new value that no literal of the source stands for
                k = "int" if all((isinstance(x, Sym) and x.kind == "int") or isinstance(x, int) for x in (a, b)) else "float"
                ua = a.uid if isinstance(a, Sym) else int(a) % 991
                ub = b.uid if isinstance(b, Sym) else int(b) % 991
                return Sym(k, f"({_describe(a)}-{_describe(b)})", coerced=(("arith", "difference", "arithmetic on literal values", site),),
                           uid=500000 + (ua * 991 + ub * 7 + 3) % 400000)
        if _isnum(a) and _isnum(b) and isinstance(op, (ast.FloorDiv, ast.Mod, ast.Div, ast.Pow, ast.LShift, ast.RShift, ast.BitAnd, ast.BitOr, ast.BitXor)):
            import operator as _op
            f_ = {ast.FloorDiv: _op.floordiv, ast.Mod: _op.mod, ast.Div: _op.truediv, ast.Pow: _op.pow, ast.LShift: _op.lshift,
                  ast.RShift: _op.rshift, ast.BitAnd: _op.and_, ast.BitOr: _op.or_, ast.BitXor: _op.xor}[type(op)]
            try:
                return f_(a, b)
            except ZeroDivisionError:
                raise RaiseSig("ZeroDivisionError", site)
            except (TypeError, ValueError, OverflowError) as e_:
                raise RaiseSig(type(e_).__name__, site)
        if isinstance(op, ast.Mult):
            if isinstance(a, Tmpl) and isinstance(b, int):
                return Tmpl(a.parts * b, a.nondet)
            if isinstance(b, Tmpl) and isinstance(a, int):
                return Tmpl(b.parts * a, b.nondet)
            if _isnum(a) and _isnum(b):
                return a * b
        if isinstance(op, ast.BitOr) and isinstance(a, ASet) and isinstance(b, ASet):
            return ASet(_dedupe(a.items + b.items))
        if isinstance(op, ast.BitAnd) and isinstance(a, ASet) and isinstance(b, ASet):
            return ASet([x for x in a.items if _member(x, b.items)])
        if isinstance(op, ast.Sub) and isinstance(a, ASet) and isinstance(b, ASet):
            return ASet([x for x in a.items if not _member(x, b.items)])
        if isinstance(op, ast.Mod) and isinstance(a, Tmpl) and a.is_literal():
            return self.percent_format(a.text(), b, site)
        raise Unsupported(f"operator {type(op).__name__} on {type(a).__name__},{type(b).__name__} at {site}")

    def percent_format(self, fmt: str, arg, site):
        args = arg.items if isinstance(arg, AList) and arg.pytype == "tuple" else [arg]
        out, i, k = Tmpl(), 0, 0
        while i < len(fmt):
            if fmt[i] == "%" and i + 1 < len(fmt):
                c = fmt[i + 1]
                if c == "%":
                    out = out + Tmpl.lit("%")
                elif c in "sr":
                    if k >= len(args):
                        raise RaiseSig("TypeError", site, "not enough arguments for format string")
                    out = out + self.render(args[k], "str" if c == "s" else "repr", site)
                    k += 1
                elif c == "d" and k < len(args):
                    out = out + self.render(args[k], "str", site)
                    k += 1
                else:
                    raise Unsupported(f"%-format directive %{c} at {site}")
                i += 2
            else:
                out = out + Tmpl.lit(fmt[i])
                i += 1
        if k < len(args):
            # a tuple operand is unpacked: every element needs its own directive
            raise RaiseSig("TypeError", site, "not all arguments converted during string formatting")
        return out

    def ev_Compare(self, n, env):
        left = self.eval(n.left, env)
        for op, r in zip(n.ops, n.comparators):
            right = self.eval(r, env)
            site = env.mod.site(n)
            if isinstance(op, ast.Is):
                res = self.identical(left, right)
            elif isinstance(op, ast.IsNot):
                res = not self.identical(left, right)
            elif isinstance(op, ast.Eq):
                res = self.equal(left, right, site)
            elif isinstance(op, ast.NotEq):
                res = not self.equal(left, right, site)
            elif isinstance(op, (ast.In, ast.NotIn)):
                res = self.contains(right, left, site)
                if isinstance(op, ast.NotIn):
                    res = not res
            elif isinstance(op, (ast.Lt, ast.LtE, ast.Gt, ast.GtE)):
                res = self.order(op, left, right, site)
            else:
                raise Unsupported(f"comparison {type(op).__name__} at {site}")
            if not res:
                return False
            left = right
        return True

    def identical(self, a, b):
        if a is None or b is None or isinstance(a, bool) or isinstance(b, bool):
            return a is b
        if isinstance(a, Builtin) and isinstance(b, Builtin):
            return a.name == b.name
        if isinstance(a, ClassVal) and isinstance(b, ClassVal):
            return a.name == b.name
        if isinstance(a, EnumVal) and isinstance(b, EnumVal):
            return a == b
        if isinstance(a, Sym) and isinstance(b, Sym):
            return a.uid == b.uid
        return a is b

    def equal(self, a, b, site):
        if a is None or b is None:
            return a is None and b is None
        if isinstance(a, Num) or isinstance(b, Num):
            if _to_expr(a) is None or _to_expr(b) is None:
                return False
            return self.num_compare("Eq", a, b, site)
        if isinstance(a, (ADigest, ABytes)) or isinstance(b, (ADigest, ABytes)):
            if getattr(self, "trace", None) is not None:
                self.trace.append(("compare", a, b, site))
            if type(a) is type(b):
                if isinstance(a, ADigest) and a != b and (a.algo, a.kind, a.lo, a.hi, a.step) == (b.algo, b.kind, b.lo, b.hi, b.step):
                    # the digest of no data equals the digest of a text exactly when the text is empty
                    empty, other = (a, b) if not a.data else ((b, a) if not b.data else (None, None))
                    if empty is not None and len(other.data) == 1 and isinstance(other.data[0], ABytes) and isinstance(other.data[0].src, Sym):
                        return self.choose(f"equal({other.data[0].src.src}, literal) [the text is empty] at {site}")
                return a == b            # digests of different opaque texts are different values
            if isinstance(a, (Sym, Tmpl)) or isinstance(b, (Sym, Tmpl)):
                # a digest against stored text (e.g. the class-level default ""): never equal to a real digest's text
                return False
            return False
        if isinstance(a, Opaque) or isinstance(b, Opaque):
            if isinstance(a, Opaque) and isinstance(b, Opaque) and a.tag == b.tag == "object-id":
                if getattr(self, "trace", None) is not None:
                    self.trace.append(("compare", a, b, site))
                if a.payload is b.payload:
                    return True
                return self.choose(f"id() of {_describe(a.payload)} equals the remembered id() of {_describe(b.payload)} (an address reused after "
                                   f"the earlier object was freed) at {site}")
            if (isinstance(a, Opaque) and a.tag == "object-id") or (isinstance(b, Opaque) and b.tag == "object-id"):
                return False
            if (isinstance(a, Opaque) and a.tag == "len-of") or (isinstance(b, Opaque) and b.tag == "len-of"):
                if isinstance(a, Opaque) and isinstance(b, Opaque) and a.tag == b.tag and a.payload is b.payload:
                    return True
                if all((isinstance(x, Opaque) and x.tag == "len-of") or (isinstance(x, int) and not isinstance(x, bool) and x >= 0) for x in (a, b)):
                    return self.choose(f"the length {_describe(a.payload) if isinstance(a, Opaque) else a} equals "
                                       f"{_describe(b.payload) if isinstance(b, Opaque) else b} at {site}")
                return False
            hook = getattr(self, "opaque_equal", None)
            if hook is not None and isinstance(a, Opaque) and isinstance(b, Opaque):
                r_ = hook(a, b, site)
                if r_ is not None:
                    return r_
            return a is b
        if isinstance(a, Magnitude) != isinstance(b, Magnitude) and (_isnum(a) or _isnum(b)):
            mag, c = (a, b) if isinstance(a, Magnitude) else (b, a)
            if c == float("inf"):
                return mag.sym.overflow
            if c != c or c < 0:
                return False
            if mag.sym.overflow:
                return False
            return self.choose(f"abs({_describe(mag.sym)}) == {c!r} at {site}")
        if isinstance(a, Sym) and a.overflow and (_isnum(b) or (isinstance(b, Sym) and b.overflow)):
            a = a.as_inf()
        if isinstance(b, Sym) and b.overflow and _isnum(a):
            b = b.as_inf()
        if isinstance(a, EnumVal) or isinstance(b, EnumVal):
            return a == b
        if _isnum(a) and _isnum(b):
            return a == b
        if isinstance(a, MinLen) or isinstance(b, MinLen):
            m, o = (a, b) if isinstance(a, MinLen) else (b, a)
            if isinstance(o, int) and o < m.n:
                return False
            return self.choose(f"len(...) == {o!r} at {site}")
        if (isinstance(a, Sym) and a.kind in ("int", "float") and _isnum(b)) or (isinstance(b, Sym) and b.kind in ("int", "float") and _isnum(a)):
            # a literal of the source (or a value computed from literals) against a particular number: either may be the case,
            # except where the kinds exclude it (an int is never equal to a non-integral number)
            sy, c = (a, b) if isinstance(a, Sym) else (b, a)
            if isinstance(c, bool) or c != c or c in (float("inf"), float("-inf")) or (sy.kind == "int" and float(c) != int(c)):
                return False
            return self.choose(f"{_describe(sy)} == {c!r} at {site}")
        if isinstance(a, Sym) and isinstance(b, Sym):
            if a.kind == "ident" and b.kind == "ident":
                return a.name == b.name
            if getattr(self, "trace", None) is not None and a.kind == "str" and b.kind == "str":
                self.trace.append(("compare", a, b, site))
            if a.uid == b.uid:
                return True
            return self.choose(f"equal({a.src},{b.src}) at {site}")
        if isinstance(a, Tmpl) and isinstance(b, Tmpl):
            if a.is_literal() and b.is_literal():
                return a.text() == b.text()
            if a.parts == b.parts:
                return True
            if (a.is_literal() and a.text() == "" and b.min_len() > 0) or \
                    (b.is_literal() and b.text() == "" and a.min_len() > 0):
                return False
            return self.choose(f"equal strings at {site}")
        if isinstance(a, (Sym, Tmpl)) and isinstance(b, (Sym, Tmpl)):
            s, t = (a, b) if isinstance(a, Sym) else (b, a)
            if s.kind == "ident" and t.is_literal():
                return s.name == t.text()
            if s.kind in ("int", "float"):
                return False
            if s.kind == "rawtoken" and t.is_literal() and TOKEN_LANGUAGE["fn"] is not None:
                # the text of a token is a word of its rule's pattern: a literal outside that language is never equal to it
                if TOKEN_LANGUAGE["fn"](s.src, t.text()) is False:
                    return False
            return self.choose(f"equal({s.src}, literal) at {site}")
        if isinstance(a, AList) and isinstance(b, AList):
            return len(a.items) == len(b.items) and a.pytype == b.pytype and all(
                self.equal(x, y, site) for x, y in zip(a.items, b.items))
        if type(a) is not type(b):
            return False
        if isinstance(a, (Builtin, ClassVal)):
            return a.name == b.name
        if isinstance(a, Obj):
            return a is b
        raise Unsupported(f"equality of {type(a).__name__} at {site}")

    def _unsupported_bits(self, op, site):
        raise Unsupported(f"operator {type(op).__name__} on the hash integer at {site}")

    def num_floor(self, v, site, what):
        """floor of an abstract number; int() truncates, which is floor only for non-negative values."""
        sp = _sp()
        e = _to_expr(v)
        if what == "int()" and not (e.is_nonnegative or getattr(self, "num_nonnegative", lambda _e: False)(e)):
            raise Unsupported(f"int() of an abstract number whose sign is unknown at {site}")
        return sp.floor(e)

    def num_compare(self, opname, a, b, site):
        """a <op> b for abstract numbers: the rule's oracle first, then what sympy can tell from the assumptions."""
        ea, eb = _to_expr(a), _to_expr(b)
        if ea is None or eb is None:
            raise Unsupported(f"comparison of an abstract number with {type(a if ea is None else b).__name__} at {site}")
        watch = getattr(self, "num_compare_watch", None)
        if watch is not None:
            watch(opname, a, b, site)
        oracle = getattr(self, "num_oracle", None)
        if oracle is not None:
            r = oracle(opname, ea, eb)
            if r is not None:
                return r
        sp = _sp()
        if ea in (sp.oo, -sp.oo) or eb in (sp.oo, -sp.oo):
            # an infinite bound against a finite unknown (the rule's unknowns are finite) or another infinity
            va = 1 if ea == sp.oo else (-1 if ea == -sp.oo else 0)
            vb = 1 if eb == sp.oo else (-1 if eb == -sp.oo else 0)
            sign_ = (va > vb) - (va < vb)
            return {"Lt": sign_ < 0, "LtE": sign_ <= 0, "Gt": sign_ > 0, "GtE": sign_ >= 0, "Eq": sign_ == 0, "NotEq": sign_ != 0}[opname]
        d = sp.simplify(ea - eb)
        sign = 1 if d.is_positive else (-1 if d.is_negative else (0 if d.is_zero else None))
        if sign is None and d.is_nonnegative and opname in ("GtE", "Lt"):
            return opname == "GtE"
        if sign is None and d.is_nonpositive and opname in ("LtE", "Gt"):
            return opname == "LtE"
        if sign is None:
            raise Unsupported(f"comparison {ea} {opname} {eb} is outside the ordering domain of the analysis at {site}")
        return {"Lt": sign < 0, "LtE": sign <= 0, "Gt": sign > 0, "GtE": sign >= 0, "Eq": sign == 0, "NotEq": sign != 0}[opname]

    def order(self, op, a, b, site):
        if isinstance(a, Num) or isinstance(b, Num):
            return self.num_compare(type(op).__name__, a, b, site)

        def _known_text(k):
            # identifier names (and text assembled from them) are known in every shape, as in sorted()
            if isinstance(k, Sym) and k.kind == "ident":
                return k.name
            if isinstance(k, Tmpl) and all(isinstance(p_, str) or (p_.sym.kind == "ident" and p_.render == "str") for p_ in k.parts):
                return "".join(p_ if isinstance(p_, str) else p_.sym.name for p_ in k.parts)
            return None
        ta, tb = _known_text(a), _known_text(b)
        if ta is not None and tb is not None and (isinstance(a, Sym) or isinstance(b, Sym)):
            return {ast.Lt: ta < tb, ast.LtE: ta <= tb, ast.Gt: ta > tb, ast.GtE: ta >= tb}[type(op)]
        if isinstance(a, MinLen) and isinstance(b, int):
            if isinstance(op, ast.Gt) and a.n > b:
                return True
            if isinstance(op, ast.GtE) and a.n >= b:
                return True
            if isinstance(op, ast.Lt) and a.n >= b:
                return False
            if isinstance(op, ast.LtE) and a.n > b:
                return False
            return self.choose(f"length order at {site}")
        import math as _math
        if isinstance(a, Magnitude) != isinstance(b, Magnitude) and (_isnum(a) or _isnum(b)):
            # |x| against a constant.  The value partition of numeric symbols: an overflowing decimal is inf, any other decimal is a
            # finite double (at most sys.float_info.max), an integer literal has any magnitude
            import sys as _sys
            mag, c, flip = (a, b, False) if isinstance(a, Magnitude) else (b, a, True)
            opn = type(op)
            if flip:
                opn = {ast.Lt: ast.Gt, ast.LtE: ast.GtE, ast.Gt: ast.Lt, ast.GtE: ast.LtE}[opn]
            if mag.sym.overflow:
                v = float("inf")
                return {ast.Lt: v < c, ast.LtE: v <= c, ast.Gt: v > c, ast.GtE: v >= c}[opn]
            if c < 0 or (c == 0 and opn in (ast.GtE, ast.Lt)):
                return opn in (ast.Gt, ast.GtE)
            if mag.sym.huge and c <= _sys.float_info.max:
                return opn in (ast.Gt, ast.GtE)
            if not mag.sym.huge and (c > _sys.float_info.max or (c == _sys.float_info.max and opn in (ast.Gt, ast.LtE))):
                return opn in (ast.Lt, ast.LtE)
            return self.choose(f"abs({_describe(mag.sym)}) {opn.__name__} {c!r} at {site}")
        numsym = lambda x: isinstance(x, Sym) and x.kind in ("int", "float")   # noqa: E731
        if (numsym(a) or _isnum(a)) and (numsym(b) or _isnum(b)):
            # the value partition of numeric symbols: overflowing decimals are +-inf, all others finite
            if isinstance(a, Sym) and a.overflow:
                a = a.as_inf()
            if isinstance(b, Sym) and b.overflow:
                b = b.as_inf()
            if _isnum(a) and _math.isinf(a) and isinstance(b, Sym):
                b = 0.0
            if _isnum(b) and _math.isinf(b) and isinstance(a, Sym):
                a = 0.0
        if _isnum(a) and _isnum(b):
            return {ast.Lt: a < b, ast.LtE: a <= b, ast.Gt: a > b, ast.GtE: a >= b}[type(op)]
        if (numsym(a) and _isnum(b) and b == 0) or (numsym(b) and _isnum(a) and a == 0):
            # a literal against zero: a symbol stands for the digits as written, with `neg` when a minus sign precedes them; the
            # digits may be all zeros, so -x < 0 and x > 0 are open (negative zero, zero), the other two directions are not
            sym, opn = (a, type(op)) if numsym(a) else (b, {ast.Lt: ast.Gt, ast.LtE: ast.GtE, ast.Gt: ast.Lt, ast.GtE: ast.LtE}[type(op)])
            if not sym.neg and opn in (ast.Lt, ast.GtE):
                return opn is ast.GtE
            if sym.neg and opn in (ast.Gt, ast.LtE):
                return opn is ast.LtE
            if sym.neg and sym.kind == "int":
                return opn is ast.Lt          # the integer -0 is the integer 0, which the unsigned symbols stand for: a signed one is negative
            what = "is zero" if not sym.neg else "is a negative zero"
            return self.choose(f"{_describe(sym)} {opn.__name__} 0 [i.e. the literal {'is not' if (opn in (ast.Gt, ast.Lt)) else ''} zero: {what} otherwise] at {site}")
        if any(isinstance(x, Sym) and x.kind in ("int", "float") for x in (a, b)) and all(
                _isnum(x) or (isinstance(x, Sym) and x.kind in ("int", "float")) for x in (a, b)):
            return self.choose(f"{_describe(a)} {type(op).__name__} {_describe(b)} at {site}")
        raise Unsupported(f"ordering of {type(a).__name__},{type(b).__name__} at {site}")

    def contains(self, container, x, site):
        if isinstance(container, (ASet, AList)):
            return any(self.equal(x, y, site) for y in container.items)
        if isinstance(container, ADict):
            return self.dict_key(container, x, site) in container.items
        if isinstance(container, Tmpl) and isinstance(x, Tmpl) and container.is_literal() and x.is_literal():
            return x.text() in container.text()
        if isinstance(container, Tmpl) and all(isinstance(p_, str) or (p_.sym.kind == "ident" and p_.render == "str") for p_ in container.parts):
            # substring test on text assembled from identifier names: decided on the placeholder names (the shape
            # family contains names that are substrings of one another)
            text = "".join(p_ if isinstance(p_, str) else p_.sym.name for p_ in container.parts)
            needle = x.name if isinstance(x, Sym) and x.kind == "ident" else (x.text() if isinstance(x, Tmpl) and x.is_literal() else None)
            if needle is not None:
                return needle in text
        if isinstance(container, Sym) and container.kind in ("rawtoken", "str"):
            return self.choose(f"{_describe(x)} in {container.src} at {site}")
        if isinstance(container, Tmpl) and isinstance(x, Tmpl) and x.is_literal():
            # substring test on text that embeds rendered values: decided by the literal pieces when they contain the
            # needle; otherwise it depends on the content of the values (forked)
            needle = x.text()
            if needle == "":
                return True
            if any(isinstance(p_, str) and needle in p_ for p_ in container.parts):
                return True
            open_holes = []
            for p_ in container.parts:
                if isinstance(p_, str):
                    continue
                k_ = p_.sym.kind
                if k_ == "ident":
                    if needle in p_.sym.name:
                        return True
                elif k_ in ("int", "float"):
                    if all(ch in "0123456789.-+einfa" for ch in needle):
                        open_holes.append(p_)
                else:
                    open_holes.append(p_)
            if not open_holes:
                return False
            return self.choose(f"{needle!r} in rendered {open_holes[0].sym.src} at {site}")
        raise Unsupported(f"membership in {type(container).__name__} at {site}")

    def truthy(self, v, what=""):
        if v is None:
            return False
        if isinstance(v, bool):
            return v
        if _isnum(v):
            return v != 0
        if isinstance(v, Tmpl):
            if v.min_len() > 0:
                return True
            if not v.parts:
                return False
            if all(isinstance(p, Hole) and p.sym.kind == "ident" for p in v.parts):
                return True
            return self.choose(f"nonempty({v!r}) at {what}")
        if isinstance(v, (AList, ASet)):
            return len(v.items) > 0
        if isinstance(v, ADict):
            return len(v.items) > 0
        if isinstance(v, Sym):
            if v.kind == "ident":
                return True
            return self.choose(f"truthy({v.src}) at {what}")
        if isinstance(v, ExtVal):
            return True
        if isinstance(v, (ADigest, Opaque, PartialVal)):
            return True             # a digest text is never empty; stand-ins are objects
        if isinstance(v, MinLen):
            if v.n > 0:
                return True
            return self.choose(f"nonzero length at {what}")
        if isinstance(v, (Obj, EnumVal, FuncVal, ClassVal, TokenVal, PVal, ExcVal)):
            return True
        raise Unsupported(f"truthiness of {type(v).__name__} at {what}")

    def _unkey(self, k):
        if isinstance(k, IdentKey) and k.sym is not None:
            return k.sym
        if isinstance(k, str):
            return Tmpl.lit(k)
        if isinstance(k, tuple) and k and k[0] == "sym":
            return _SYMS.get(k[1], k)
        if isinstance(k, tuple) and k and k[0] == "tmpl":
            return _TMPLS.get(k, k)
        return k

    def iterate(self, v, site):
        if isinstance(v, AList):
            return list(v.items)
        if isinstance(v, ASet):
            # iteration order of a set of str depends on PYTHONHASHSEED
            return [_Tagged(x, site) for x in v.items] if len(v.items) > 1 else list(v.items)
        if isinstance(v, ADict):
            return [self._unkey(k) for k in v.items]
        if isinstance(v, Tmpl) and v.is_literal():
            return [Tmpl.lit(ch) for ch in v.text()]
        if self._is_namedtuple(v):
            return [v.attrs[f_[0]] for f_ in self._record_fields(v.cls)]
        if isinstance(v, Opaque) and "__iter__" in v.methods:
            return list(v.methods["__iter__"](self, [], {}, site))
        if isinstance(v, _MapIter):
            return v.items
        if isinstance(v, ClassVal) and v.kind == "enum":
            return [EnumVal(v.name, n) for n, _, _ in self.enum_members(v.name, site)]
        raise Unsupported(f"iteration over {type(v).__name__} at {site}")

    def ev_ListComp(self, n, env):
        items, nd = self._comp(n, env)
        return AList(items, "list", nd)

    def ev_GeneratorExp(self, n, env):
        items, nd = self._comp(n, env)
        return AList(items, "list", nd)

    def ev_SetComp(self, n, env):
        items, nd = self._comp(n, env)
        return ASet(_dedupe(items))

    def _comp(self, n, env):
        out, nd = [], []

        def rec(gi, e):
            if gi == len(n.generators):
                out.append(self.eval(n.elt, e))
                return
            g = n.generators[gi]
            src = self.eval(g.iter, e)
            if isinstance(src, AList):
                nd.extend(src.nondet)
            for x in self.iterate(src, env.mod.site(g.iter)):
                if isinstance(x, _Tagged):
                    nd.append(x.site)
                    x = x.value
                e2 = Env(e.mod, {"__comp__": True}, outer=e)
                self.assign(g.target, x, e2)
                if all(self.truthy(self.eval(c, e2), env.mod.site(c)) for c in g.ifs):
                    rec(gi + 1, e2)
        rec(0, env)
        return out, tuple(nd)

    def ev_DictComp(self, n, env):
        d = ADict({})

        def rec(gi, e):
            if gi == len(n.generators):
                d.items[self.dict_key(d, self.eval(n.key, e), env.mod.site(n))] = self.eval(n.value, e)
                return
            g = n.generators[gi]
            for x in self.iterate(self.eval(g.iter, e), env.mod.site(g.iter)):
                x = x.value if isinstance(x, _Tagged) else x
                e2 = Env(env.mod, {"__comp__": True}, outer=e)
                self.assign(g.target, x, e2)
                if all(self.truthy(self.eval(c_, e2), env.mod.site(c_)) for c_ in g.ifs):
                    rec(gi + 1, e2)
        rec(0, env)
        return d

    def ev_Lambda(self, n, env):
        fn = ast.FunctionDef(name="<lambda>", args=n.args, body=[ast.Return(value=n.body)],
                             decorator_list=[], lineno=n.lineno, col_offset=0)
        return FuncVal(env.mod, fn, closure=env)

    def ev_Starred(self, n, env):
        raise Unsupported("starred expression")

    # -- calls -------------------------------------------------------------
    def ev_Call(self, n, env):
        site = env.mod.site(n)
        f = self.eval(n.func, env)
        args = []
        for a in n.args:
            if isinstance(a, ast.Starred):
                args.extend(self.iterate(self.eval(a.value, env), site))
            else:
                args.append(self.eval(a, env))
        args = [x.value if isinstance(x, _Tagged) else x for x in args]
        kwargs = {}
        for k in n.keywords:
            if k.arg is None:
                d = self.eval(k.value, env)
                if not isinstance(d, ADict):
                    raise Unsupported(f"**kwargs of non-dict at {site}")
                kwargs.update(d.items)
            else:
                kwargs[k.arg] = self.eval(k.value, env)
        if isinstance(f, Builtin) and f.name == "super" and not args:
            e = env
            while e is not None and "__super_args__" not in e.local:
                e = e.outer
            if e is None:
                raise Unsupported(f"super() outside a method at {site}")
            owner, first = e.local["__super_args__"]
            return SuperVal(owner, first)
        return self.apply(f, args, kwargs, site, n)

    def super_attr(self, sv: "SuperVal", attr, site):
        """Attribute lookup through super(): the first base class of the package that defines it, else object's."""
        inst = sv.first if isinstance(sv.first, Obj) else None
        for b in (sv.owner.node.bases if sv.owner.node is not None else []):
            bn = (dotted(b) or "").split(".")[-1]
            m_, node = self.src.resolve_name(sv.owner.mod, bn)
            if isinstance(node, ast.ClassDef):
                try:
                    return self.class_attr(self.class_val(m_, node), attr, inst, site)
                except Unsupported:
                    continue
        if attr == "__new__":
            return Builtin("object.__new__")
        if attr in ("__init__", "__init_subclass__", "__post_init__"):
            return Builtin("object.__init__")
        if attr == "__setattr__":
            return PartialVal(Builtin("object.__setattr__"), [sv.first], {})
        raise Unsupported(f"super().{attr} at {site}")

    def apply(self, f, args, kwargs, site, node=None):
        if isinstance(f, DispatchVal):
            if not args:
                raise RaiseSig("TypeError", site, "singledispatchmethod requires at least 1 positional argument")
            chosen = None
            for tn, fn_ in f.regs:
                if tn != "object" and self.isinstance_name(args[0], tn, None):
                    chosen = fn_          # registered classes of this code base are unrelated to one another: at most one matches
                    break
            target = chosen if chosen is not None else f.default
            return self.call(FuncVal(f.mod, target, f.inst, f.cls), args, kwargs, site)
        if isinstance(f, CachedVal):
            # functools caches: the arguments are the key (compared with == and hash); a result that was computed is handed out
            # again, an exception is not remembered
            for a_ in list(args) + list(kwargs.values()):
                self.check_hashable(a_, site)
            key = tuple(_key(a_) for a_ in args) + tuple((k_, _key(v_)) for k_, v_ in sorted(kwargs.items()))
            if key in f.store:
                return f.store[key]
            r_ = self.apply(f.func, args, kwargs, site, node)
            f.store[key] = r_
            return r_
        if isinstance(f, Builtin) and f.name == "functools.cache-decorator" and len(args) == 1:
            return CachedVal(args[0], {})
        if isinstance(f, FuncVal):
            return self.call(f, args, kwargs, site)
        if isinstance(f, PartialVal):
            return self.apply(f.func, list(f.args) + list(args), {**f.kwargs, **kwargs}, site, node)
        if isinstance(f, Builtin):
            hook = getattr(self, "builtin_hooks", {}).get(f.name)
            if hook is not None:
                return hook(self, args, kwargs, site)
            return self.builtin(f.name, args, kwargs, site)
        if isinstance(f, ClassVal) and f.name in getattr(self, "class_hooks", {}):
            return self.class_hooks[f.name](self, args, kwargs, site)
        if isinstance(f, BoundMethod):
            return self.method(f.recv, f.name, args, kwargs, site)
        if isinstance(f, ClassVal):
            return self.instantiate(f, args, kwargs, site)
        if isinstance(f, ExtVal):
            return self.external(f, args, kwargs, site)
        if isinstance(f, Opaque) and "__call__" in f.methods:
            return f.methods["__call__"](self, args, kwargs, site)
        raise Unsupported(f"call of {type(f).__name__} at {site}")

    def instantiate(self, cv: ClassVal, args, kwargs, site):
        if cv.kind == "exception":
            return ExcVal(cv.name, args)
        if cv.kind == "model":
            return self.model_construct(cv, args, kwargs, site)
        if cv.kind == "enum":
            # Enum(value): the member with that value, ValueError if there is none
            if len(args) != 1 or kwargs:
                raise Unsupported(f"enum call {cv.name}(...) at {site}")
            v = args[0]
            if isinstance(v, EnumVal) and v.cls == cv.name:
                return v
            undecided = None
            for name_, _val, _m in self.enum_members(cv.name, site):
                mv = self.enum_value(EnumVal(cv.name, name_), site)
                if isinstance(v, Sym) and v.kind in ("rawtoken", "str") and isinstance(mv, Tmpl):
                    if v.kind == "rawtoken" and TOKEN_LANGUAGE["fn"] is not None and TOKEN_LANGUAGE["fn"](v.src, mv.text()) is False:
                        continue
                    undecided = undecided or name_
                    if self.choose(f"{v.src} == {mv.text()!r} (enum lookup by value) at {site}"):
                        return EnumVal(cv.name, name_)
                    continue
                try:
                    if self.equal(v, mv, site):
                        return EnumVal(cv.name, name_)
                except Unsupported:
                    pass
            raise RaiseSig("ValueError", site, f"{_describe(v)} is not a valid {cv.name}")
        o = Obj(cv, {})
        new_fn = next((f_ for f_ in cv.node.body if isinstance(f_, ast.FunctionDef) and f_.name == "__new__"), None)
        if new_fn is not None and cv.kind not in ("enum", "model", "exception"):
            # a class with its own __new__: object creation (`super().__new__(cls)` / `object.__new__(cls)`) yields the fresh instance
            old_hooks = dict(getattr(self, "builtin_hooks", {}))
            self.builtin_hooks = {**old_hooks, "object.__new__": lambda it_, a_, k_, s_: o}
            try:
                made = self.call(FuncVal(cv.mod, new_fn, None, cv), [cv] + list(args), dict(kwargs), site)
            finally:
                self.builtin_hooks = old_hooks
            if made is not o:
                return made          # __new__ returned something else: __init__ is not run on it
        try:
            init = self.class_attr(cv, "__init__", o, site)
        except Unsupported:
            init = None
        if init is None and self._record_fields(cv) is not None:
            fields = self._record_fields(cv)

            def _no_init(dflt):
                # dataclasses.field(init=False): not a constructor parameter; set by __post_init__ (or from its default)
                return isinstance(dflt, ast.Call) and (dotted(dflt.func) or "").split(".")[-1] == "field" and any(
                    k_.arg == "init" and isinstance(k_.value, ast.Constant) and k_.value.value is False for k_ in dflt.keywords)
            later = [f_ for f_ in fields if _no_init(f_[1])]
            fields = [f_ for f_ in fields if not _no_init(f_[1])]
            for nme, dflt in later:
                kw_ = {k_.arg: k_.value for k_ in dflt.keywords}
                if "default" in kw_:
                    o.attrs[nme] = self.eval(kw_["default"], Env(cv.mod, {}))
                elif "default_factory" in kw_:
                    o.attrs[nme] = self.apply(self.eval(kw_["default_factory"], Env(cv.mod, {})), [], {}, site)
            names = [f_[0] for f_ in fields]
            if len(args) > len(names):
                raise RaiseSig("TypeError", site, f"{cv.name}() takes {len(names)} positional arguments")
            vals = dict(zip(names, args))
            for k, v in kwargs.items():
                if k not in names or k in vals:
                    raise RaiseSig("TypeError", site, f"{cv.name}() got an unexpected or repeated argument {k}")
                vals[k] = v
            for nme, dflt in fields:
                if nme not in vals:
                    if dflt is None:
                        raise RaiseSig("TypeError", site, f"{cv.name}() missing argument {nme}")
                    dv = dflt
                    if isinstance(dv, ast.Call) and (dotted(dv.func) or "").split(".")[-1] == "field":
                        kw_ = {k_.arg: k_.value for k_ in dv.keywords}
                        if "default" in kw_:
                            vals[nme] = self.eval(kw_["default"], Env(cv.mod, {}))
                        elif "default_factory" in kw_:
                            vals[nme] = self.apply(self.eval(kw_["default_factory"], Env(cv.mod, {})), [], {}, site)
                        else:
                            raise RaiseSig("TypeError", site, f"{cv.name}() missing argument {nme}")
                    else:
                        vals[nme] = self.eval(dv, Env(cv.mod, {}))
            o.attrs.update({nme: vals[nme] for nme in names})
            try:
                post = self.class_attr(cv, "__post_init__", o, site)
            except Unsupported:
                post = None
            if post is not None:
                self.call(post, [], {}, site)
            return o
        if init is not None:
            self.call(init, args, kwargs, site)
        elif args or kwargs:
            raise Unsupported(f"{cv.name}() takes no arguments ({site})")
        return o

    def _record_fields(self, cv: ClassVal):
        """[(name, default expr or None)] for @dataclass classes and typing.NamedTuple subclasses; None otherwise."""
        node = cv.node
        is_dc = any((dotted(d.func) if isinstance(d, ast.Call) else dotted(d) or "").split(".")[-1] == "dataclass" for d in node.decorator_list)
        is_nt = any((dotted(b) or "").split(".")[-1] == "NamedTuple" for b in node.bases)
        if not (is_dc or is_nt):
            return None
        out = []
        for st in node.body:
            if isinstance(st, ast.AnnAssign) and isinstance(st.target, ast.Name):
                if "ClassVar" in norm(st.annotation):
                    continue
                out.append((st.target.id, st.value))
        return out

    def _is_namedtuple(self, o) -> bool:
        return isinstance(o, Obj) and any((dotted(b) or "").split(".")[-1] == "NamedTuple" for b in o.cls.node.bases)

    # pydantic v1 model construction ----------------------------------------
    VALUE_ALTERING_CONFIG = ("anystr_strip_whitespace", "anystr_lower", "anystr_upper", "min_anystr_length", "max_anystr_length")

    def model_fields(self, cv: ClassVal):
        fields = []
        cfg = {}
        validators, root_validators = [], []
        for st in cv.node.body:
            if isinstance(st, ast.AnnAssign) and isinstance(st.target, ast.Name):
                fields.append((st.target.id, st.annotation, st.value, st))
            elif isinstance(st, ast.ClassDef) and st.name == "Config":
                for s2 in st.body:
                    if isinstance(s2, ast.Assign):
                        for t in s2.targets:
                            if isinstance(t, ast.Name):
                                cfg[t.id] = s2.value.value if isinstance(s2.value, ast.Constant) else norm(s2.value)
            elif isinstance(st, ast.FunctionDef):
                for d in st.decorator_list:
                    dn = dotted(d.func if isinstance(d, ast.Call) else d)
                    if dn in ("validator", "field_validator"):
                        targets = [a.value for a in d.args if isinstance(a, ast.Constant)] if isinstance(d, ast.Call) else []
                        kw = {k.arg: getattr(k.value, "value", None) for k in d.keywords} if isinstance(d, ast.Call) else {}
                        validators.append((st, targets, kw))
                    elif dn in ("root_validator", "model_validator"):
                        kw = {k.arg: getattr(k.value, "value", None) for k in d.keywords} if isinstance(d, ast.Call) else {}
                        root_validators.append((st, kw))
        # Config given as class keywords (class M(BaseModel, smart_union=True)) and inherited from base models
        for k_ in cv.node.keywords:
            if k_.arg and isinstance(k_.value, ast.Constant):
                cfg.setdefault(k_.arg, k_.value.value)
        for b_ in cv.node.bases:
            bn = (dotted(b_) or "").split(".")[-1]
            mm_, node_ = self.src.resolve_name(cv.mod, bn)
            if isinstance(node_, ast.ClassDef) and bn != cv.name:
                bcv = self.class_val(mm_, node_)
                if bcv.kind == "model":
                    bfields, _ = self.model_fields(bcv)
                    bcfg, bval, brval = self._model_extra[bcv.name]
                    for k2, v2 in bcfg.items():
                        cfg.setdefault(k2, v2)
                    fields = [f_ for f_ in bfields if f_[0] not in {x_[0] for x_ in fields}] + fields
                    validators = bval + validators
                    root_validators = brval + root_validators
        self._model_extra[cv.name] = (cfg, validators, root_validators)
        return fields, cfg.get("smart_union") is True

    def run_validator(self, cv, fn, call_args: dict, what, site):
        """Abstractly run a pydantic validator; if the domain cannot follow it, record that it may
        rewrite the value and keep the value unchanged."""
        params = [a.arg for a in fn.args.args]
        args = []
        for i, pn in enumerate(params):
            if i == 0:
                args.append(cv)
            elif pn in call_args:
                args.append(call_args[pn])
            elif i == 1:
                args.append(call_args["__value__"])
            else:
                args.append(call_args.get(pn))
        try:
            return True, self.call(FuncVal(cv.mod, fn, None, cv), args, {}, site)
        except Unsupported as e:
            self.pyd_events.append(("validator-rewrite", f"{cv.mod.rel}:{cv.name}.{what}", cv.mod.site(fn), f"{fn.name} ({str(e)[:80]})"))
            return False, None

    def model_construct(self, cv: ClassVal, args, kwargs, site):
        if args:
            raise Unsupported(f"positional arguments to model {cv.name} at {site}")
        fields, smart = self.model_fields(cv)
        cfg, validators, root_validators = self._model_extra[cv.name]
        for rv, kw in root_validators:
            if kw.get("pre"):
                ok, res = self.run_validator(cv, rv, {"__value__": ADict(dict(kwargs)), "values": ADict(dict(kwargs))}, "*", site)
                if ok and isinstance(res, ADict):
                    kwargs = dict(res.items)
        attrs = {}
        for name, ann, default, st in fields:
            # Field(default, alias="x", ...): the constructor takes the value under the alias; under the field's own name it is an
            # unknown keyword, which pydantic ignores unless Config.allow_population_by_field_name
            key = name
            if isinstance(default, ast.Call) and (dotted(default.func) or "").split(".")[-1] == "Field":
                fkw = {k_.arg: k_.value for k_ in default.keywords}
                al = fkw.get("alias")
                if isinstance(al, ast.Constant) and isinstance(al.value, str):
                    key = al.value if (al.value in kwargs or not cfg.get("allow_population_by_field_name") or name not in kwargs) else name
                dexpr = default.args[0] if default.args else fkw.get("default")
                factory = fkw.get("default_factory")
                if key in kwargs:
                    default = None
                elif factory is not None:
                    default = ast.Call(func=factory, args=[], keywords=[])
                elif dexpr is not None and not (isinstance(dexpr, ast.Constant) and dexpr.value is Ellipsis):
                    default = dexpr
                else:
                    default = None
            if key in kwargs:
                v = kwargs[key]
            elif isinstance(default, ast.Constant) and default.value is None:
                v = None
            elif default is not None:
                v = self.eval(default, Env(cv.mod, {}))
            else:
                members = _union_members(ann)
                if any(_ann_name(m) == "None" for m in members):
                    v = None
                else:
                    raise RaiseSig("ValidationError", site, f"{cv.name}.{name} missing")
            for vf, targets, kw in validators:
                if (name in targets or "*" in targets) and kw.get("pre"):
                    ok, res = self.run_validator(cv, vf, {"__value__": v, "values": ADict(dict(attrs))}, name, site)
                    if ok:
                        v = res
            v = self.pyd_validate(v, ann, smart, cv, name, st, site)
            for opt in self.VALUE_ALTERING_CONFIG:
                if cfg.get(opt) and isinstance(v, Sym) and v.kind == "str":
                    where = f"{cv.mod.rel}:{cv.name}.{name}"
                    self.pyd_events.append((f"str->{opt}", where, cv.mod.site(st), v.src))
                    v = Sym("str", v.src, coerced=v.coerced + (("str", opt, where, cv.mod.site(st)),), uid=v.uid)
            for vf, targets, kw in validators:
                if (name in targets or "*" in targets) and not kw.get("pre"):
                    ok, res = self.run_validator(cv, vf, {"__value__": v, "values": ADict(dict(attrs))}, name, site)
                    if ok:
                        if not _same_value(res, v):
                            self.pyd_events.append(("validator-rewrite", f"{cv.mod.rel}:{cv.name}.{name}", cv.mod.site(vf), vf.name))
                        v = res
            attrs[name] = v
        for rv, kw in root_validators:
            if not kw.get("pre"):
                ok, res = self.run_validator(cv, rv, {"__value__": ADict(dict(attrs)), "values": ADict(dict(attrs))}, "*", site)
                if ok and isinstance(res, ADict):
                    attrs = {k: res.items.get(k, attrs.get(k)) for k in attrs}
        return Obj(cv, attrs)

    def pyd_validate(self, v, ann, smart, cv, fname, st, site):
        members = _union_members(ann)
        where = f"{cv.mod.rel}:{cv.name}.{fname}"
        if v is None:
            if any(_ann_name(m) == "None" for m in members):
                return None
            raise RaiseSig("ValidationError", site, f"{where}: None not allowed")
        members = [m for m in members if _ann_name(m) != "None"]

        def exact(m):
            nm = _ann_name(m)
            if isinstance(v, Sym):
                return {"str": v.kind in ("str", "ident"), "int": v.kind == "int", "float": v.kind == "float"}.get(nm, False)
            if isinstance(v, Obj):
                return v.cls.name == nm
            if isinstance(v, EnumVal):
                return v.cls == nm
            if isinstance(v, AList):
                return nm in (v.pytype,) or (nm == v.pytype and True)
            if isinstance(v, bool):
                return nm == "bool"
            return False

        if len(members) > 1 and smart:
            for m in members:
                if exact(m):
                    return self.pyd_coerce(v, m, smart, cv, fname, st, site, exact_hit=True)
        last_err = None
        for m in members:
            try:
                return self.pyd_coerce(v, m, smart, cv, fname, st, site)
            except _NoCoerce as e:
                last_err = e
            except RaiseSig as e:
                if e.exc_name != "ValidationError":
                    raise
                last_err = e.text
        raise RaiseSig("ValidationError", site, f"{where}: {v!r} matches no member ({last_err})")

    def pyd_coerce(self, v, m, smart, cv, fname, st, site, exact_hit=False):
        nm = _ann_name(m)
        where = f"{cv.mod.rel}:{cv.name}.{fname}"
        fsite = cv.mod.site(st)
        if nm in ("float", "NonNegativeFloat", "PositiveFloat", "confloat", "StrictFloat"):
            strict = nm == "StrictFloat"
            if isinstance(v, Sym) and v.kind == "float":
                return v
            if isinstance(v, Sym) and v.kind == "int" and not strict:
                self.pyd_events.append(("int->float", where, fsite, v.src))
                return Sym("float", v.src, neg=v.neg, coerced=v.coerced + (("int", "float", where, fsite),), uid=v.uid)
            if isinstance(v, Sym) and v.kind == "str" and not strict:
                # float("02134") succeeds for numeric-looking text: value-dependent coercion
                self.pyd_events.append(("str->float?", where, fsite, v.src))
                return Sym("str", v.src, coerced=v.coerced + (("str", "float?", where, fsite),), uid=v.uid)
            raise _NoCoerce(nm)
        if nm in ("int", "NonNegativeInt", "PositiveInt", "conint", "StrictInt"):
            strict = nm == "StrictInt"
            if isinstance(v, Sym) and v.kind == "int":
                return v
            if isinstance(v, Sym) and v.kind == "float" and not strict:
                self.pyd_events.append(("float->int", where, fsite, v.src))
                return Sym("int", v.src, neg=v.neg, coerced=v.coerced + (("float", "int", where, fsite),), uid=v.uid)
            if isinstance(v, Sym) and v.kind == "str" and not strict:
                self.pyd_events.append(("str->int?", where, fsite, v.src))
                return Sym("str", v.src, coerced=v.coerced + (("str", "int?", where, fsite),), uid=v.uid)
            raise _NoCoerce(nm)
        if nm in ("str", "StrictStr", "constr"):
            strict = nm == "StrictStr"
            if isinstance(v, Sym) and v.kind in ("str", "ident"):
                return v
            if isinstance(v, Tmpl):
                return v
            if isinstance(v, Sym) and v.kind in ("int", "float") and not strict:
                self.pyd_events.append((f"{v.kind}->str", where, fsite, v.src))
                return Sym("str", v.src, coerced=v.coerced + ((v.kind, "str", where, fsite),), uid=v.uid)
            raise _NoCoerce(nm)
        if nm in ("tuple", "Tuple"):
            if isinstance(v, AList):
                inner = _subscript_arg(m)
                items = list(v.items)
                if inner is not None:
                    elts = inner.elts if isinstance(inner, ast.Tuple) else [inner]
                    variadic = len(elts) == 2 and isinstance(elts[1], ast.Constant) and elts[1].value is Ellipsis
                    if variadic or len(elts) == 1:
                        items = [self.pyd_validate(x, elts[0], smart, cv, fname, st, site) for x in items]
                    elif len(elts) == len(items):
                        items = [self.pyd_validate(x, e_, smart, cv, fname, st, site) for x, e_ in zip(items, elts)]
                    else:
                        raise _NoCoerce(nm)
                return AList(items, "tuple", v.nondet)
            raise _NoCoerce(nm)
        if nm in ("list", "List"):
            if isinstance(v, AList):
                inner = _subscript_arg(m)
                items = list(v.items)
                if inner is not None:
                    items = [self.pyd_validate(x, inner, smart, cv, fname, st, site) for x in items]
                return AList(items, "list", v.nondet)
            raise _NoCoerce(nm)
        if nm == "Any":
            return v
        # a class: model or enum
        target = None
        mm, node = self.src.resolve_name(cv.mod, nm)
        if isinstance(node, ast.Assign) and isinstance(node.value, (ast.Subscript, ast.BinOp, ast.Name, ast.Attribute)):
            # a type alias: validate against what it stands for
            return self.pyd_validate(v, node.value, smart, cv, fname, st, site)
        if isinstance(node, ast.Assign) and isinstance(node.value, ast.Call) and (dotted(node.value.func) or "").split(".")[-1] == "NewType" \
                and len(node.value.args) == 2:
            # typing.NewType("X", base): pydantic validates against the base type (but a value is never an *exact* match of X,
            # so in a smart Union the left-to-right coercion decides)
            return self.pyd_validate(v, node.value.args[1], smart, cv, fname, st, site)
        if isinstance(node, ast.ClassDef):
            target = self.class_val(mm, node)
        if target is None:
            raise Unsupported(f"pydantic field type {nm} of {where} is not modelled")
        if target.kind == "enum":
            if isinstance(v, EnumVal) and v.cls == target.name:
                return v
            raise _NoCoerce(nm)
        if target.kind == "model":
            if isinstance(v, Obj) and v.cls.name == target.name:
                return v
            # pydantic v1 BaseModel.validate: a value that is not the model nor a dict is tried as dict(value) - a sequence of
            # pairs (a tuple literal whose members are all two-element tuples) is one.  Which keys it has depends on the literals.
            pairs = None
            if isinstance(v, AList) and v.items and all(isinstance(x, AList) and len(x.items) == 2 for x in v.items):
                pairs = [(x.items[0], x.items[1]) for x in v.items]
            elif isinstance(v, ADict):
                pairs = [(self._unkey(k_), x) for k_, x in v.items.items()]
            if pairs is not None:
                fields_, _sm = self.model_fields(target)
                got = {}
                for fname_, _ann, default_, _st in fields_:
                    for key_, val_ in pairs:
                        if isinstance(key_, Tmpl) and key_.is_literal():
                            hit = key_.text() == fname_
                        elif isinstance(key_, Sym) and key_.kind == "str":
                            hit = self.choose(f"{key_.src} == {fname_!r} (a sequence of pairs is read as dict(value) for {target.name}) at {fsite}")
                        else:
                            hit = False
                        if hit:
                            got[fname_] = val_
                    if fname_ not in got and default_ is None and "Optional" not in norm(_ann) and "None" not in norm(_ann):
                        raise _NoCoerce(nm)
                try:
                    obj = self.model_construct(target, [], got, site)
                except (RaiseSig, _NoCoerce):
                    raise _NoCoerce(nm)
                self.pyd_events.append(("pairs->model", where, fsite, f"{target.name}"))
                return obj
            raise _NoCoerce(nm)
        raise Unsupported(f"pydantic field type {nm} of {where} is not modelled")

    # builtins --------------------------------------------------------------
    def builtin(self, name, args, kwargs, site):
        if name == "int" and args and isinstance(args[0], ADigest):
            base = args[1] if len(args) > 1 else kwargs.get("base", 10)
            if args[0].kind == "hex" and base == 16:
                from fractions import Fraction
                return ABits(args[0], "big", Fraction(1))
            raise Unsupported(f"int() of a digest with base {base!r} at {site}")
        if name == "int.from_bytes" and args and isinstance(args[0], ADigest) and args[0].kind == "bytes":
            order = args[1] if len(args) > 1 else kwargs.get("byteorder")
            if not (isinstance(order, Tmpl) and order.is_literal()):
                raise Unsupported(f"int.from_bytes with a computed byte order at {site}")
            if kwargs.get("signed"):
                raise Unsupported(f"int.from_bytes(signed=True) at {site}")
            from fractions import Fraction
            return ABits(args[0], order.text(), Fraction(1))
        if name == "float" and args and isinstance(args[0], ABits):
            return args[0]
        if name == "dict.fromkeys" and args:
            d = ADict({})
            for k in self.iterate(args[0], site):
                k = k.value if isinstance(k, _Tagged) else k
                kk = self.dict_key(d, k, site)
                if kk not in d.items:
                    d.items[kk] = args[1] if len(args) > 1 else None
            return d
        if name == "next" and args and isinstance(args[0], (AList, _MapIter)):
            items = self.iterate(args[0], site)
            if items:
                x = items[0]
                return x.value if isinstance(x, _Tagged) else x
            if len(args) > 1:
                return args[1]
            raise RaiseSig("StopIteration", site)
        if name == "iter" and len(args) == 1 and isinstance(args[0], (AList, _MapIter, ADict)):
            return AList([x.value if isinstance(x, _Tagged) else x for x in self.iterate(args[0], site)], "list")
        if name == "filter" and len(args) == 2:
            f, it = args
            out = []
            for x in self.iterate(it, site):
                x = x.value if isinstance(x, _Tagged) else x
                keep = self.truthy(x, site) if f is None else self.truthy(self.apply(f, [x], {}, site), site)
                if keep:
                    out.append(x)
            return AList(out, "list")
        if name == "object.__setattr__" and len(args) == 3:
            return self.builtin("setattr", args, kwargs, site)
        if name == "object.__init__":
            return None
        if name == "object.__new__":
            if args and isinstance(args[0], ClassVal):
                return Obj(args[0], {})
            raise Unsupported(f"object.__new__ at {site}")
        if "." in name and args:          # unbound method of a builtin type: str.lower(x) == x.lower()
            return self.method(args[0], name.split(".", 1)[1], args[1:], kwargs, site)
        if name == "str":
            if not args:
                return Tmpl()
            return self.render(args[0], "str", site)
        if name == "staticmethod" and len(args) == 1 and not kwargs and isinstance(args[0], FuncVal):
            return args[0]            # `name = staticmethod(module_function)` in a class body: called without an instance
        if name == "repr":
            return self.render(args[0], "repr", site)
        if name == "ascii":
            return self.render(args[0], "ascii", site)
        if name == "format" and len(args) == 1:
            return self.render(args[0], "str", site)
        if name == "sum" and args and isinstance(args[0], AList) and args[0].items and not kwargs and all(
                (isinstance(x, Sym) and x.kind in ("int", "float")) or _isnum(x) for x in list(args[0].items) + list(args[1:2])) and any(
                isinstance(x, Sym) for x in args[0].items):
            # a sum of literal values: a computed value, as the chain of additions would give
            acc = args[1] if len(args) > 1 else 0
            for x in args[0].items:
                acc = self.binop(ast.Add(), acc, x, site)
            return acc
        if args and any(isinstance(a_, Num) for a_ in args) or (name in ("sum", "min", "max") and args and isinstance(args[0], AList)
                                                               and any(isinstance(x, Num) for x in args[0].items)):
            sp = _sp()
            if name == "abs":
                return Num(sp.Abs(args[0].e))
            if name == "float":
                return Num(args[0].e, True) if isinstance(args[0], Num) else args[0]
            if name == "int":
                return Num(self.num_floor(args[0], site, "int()"))
            if name in ("min", "max") and (len(args) > 1 or isinstance(args[0], AList)) and getattr(self, "num_oracle", None) is not None \
                    and not kwargs:
                # as Python does it: keep the first, replace it when a later one compares greater / smaller (NaN never does)
                vals = list(args[0].items if len(args) == 1 else args)
                try:
                    best = vals[0]
                    for x in vals[1:]:
                        if self.num_compare("Gt" if name == "max" else "Lt", x, best, site):
                            best = x
                    return best if isinstance(best, Num) else Num(_to_expr(best))
                except Unsupported:
                    pass
            if name in ("min", "max") and (len(args) > 1 or isinstance(args[0], AList)):
                vals = args[0].items if len(args) == 1 else args
                es = [_to_expr(x) for x in vals]
                if all(e is not None for e in es):
                    return Num((sp.Min if name == "min" else sp.Max)(*es))
            if name == "sum":
                es = [_to_expr(x) for x in args[0].items]
                if all(e is not None for e in es):
                    return Num(sum(es, _to_expr(args[1]) if len(args) > 1 else sp.Integer(0)),
                               any(isinstance(x, float) or getattr(x, "fl", False) for x in list(args[0].items) + list(args[1:2])))
            if name == "isinstance":
                t = args[1]
                ts = t.items if isinstance(t, AList) else [t]
                return any(getattr(c_, "name", None) in ("float", "int", "Number", "Real", "object") for c_ in ts)
            if name == "bool":
                return not self.num_compare("Eq", args[0], 0, site)
            if name in ("str", "repr", "format"):
                raise Unsupported(f"{name}() of an abstract number at {site}")
            if name == "round" and isinstance(args[0], Num) and (len(args) == 1 or isinstance(args[1], int)):
                # round to k decimals: floor(x*10**k + 1/2) / 10**k (ties, which Python rounds to even, are a null set)
                k = args[1] if len(args) > 1 else 0
                scale = sp.Integer(10) ** k
                return Num(sp.floor(args[0].e * scale + sp.Rational(1, 2)) / scale)
            if name in ("round", "divmod", "pow"):
                raise Unsupported(f"{name}() of an abstract number at {site}")
        if name in ("min", "max", "abs", "round", "pow", "divmod") and args and not kwargs and all(_isnum(a_) for a_ in args) and (
                len(args) > 1 or name in ("abs", "round")):
            import builtins as _b
            try:
                r_ = getattr(_b, name)(*args)          # arithmetic on concrete numbers
            except (ZeroDivisionError, OverflowError, ValueError) as e_:
                raise RaiseSig(type(e_).__name__, site, name)
            return AList(list(r_), "tuple") if isinstance(r_, tuple) else r_
        if name in ("min", "max") and len(args) == 1 and isinstance(args[0], (AList, ASet)) and args[0].items and all(
                _isnum(x) for x in args[0].items) and set(kwargs) <= {"default"}:
            return (min if name == "min" else max)(args[0].items)
        if name == "len":
            v = args[0]
            if isinstance(v, (AList, ASet)):
                return len(v.items)
            if isinstance(v, ADict):
                return len(v.items)
            if isinstance(v, Tmpl):
                return len(v.text()) if v.is_literal() else MinLen(v.min_len())
            if isinstance(v, PVal):
                return len(v.values)
            if isinstance(v, ClassVal) and v.kind == "enum":
                return len(self.enum_members(v.name, site))
            if isinstance(v, Sym) and v.kind in ("str", "rawtoken") and getattr(self, "hash_domain", False):
                return Opaque("len-of", payload=v)      # the length of an opaque text: equal lengths do not mean equal texts
            raise Unsupported(f"len of {type(v).__name__} at {site}")
        if name == "sorted":
            v = args[0]
            items = v.items if isinstance(v, (AList, ASet)) else self.iterate(v, site)
            items = [x.value if isinstance(x, _Tagged) else x for x in items]
            keyf = kwargs.get("key")
            from_set = isinstance(v, ASet) or (isinstance(v, AList) and v.nondet)
            try:
                kvals = [self.apply(keyf, [x], {}, site) for x in items] if keyf is not None else list(items)
            except Unsupported as e:
                # a sort key the domain cannot follow: the resulting order is undetermined
                kvals = [Sym("str", f"sortkey({_describe(x)}): {str(e)[:60]}") for x in items]

            def concrete(k):
                if isinstance(k, Sym) and k.kind == "ident":
                    return (0, k.name)
                if isinstance(k, Tmpl) and k.is_literal():
                    return (0, k.text())
                if isinstance(k, Tmpl) and all(isinstance(p_, str) or (p_.sym.kind == "ident" and p_.render == "str") for p_ in k.parts):
                    # text assembled from literal pieces and identifier names: its value is known
                    return (0, "".join(p_ if isinstance(p_, str) else p_.sym.name for p_ in k.parts))
                if isinstance(k, int) and not isinstance(k, bool):
                    return (1, k)
                if isinstance(k, AList):
                    sub = [concrete(x) for x in k.items]
                    if all(x is not None for x in sub):
                        return (2, tuple(sub))
                return None
            keys = [concrete(k) for k in kvals]
            rev = bool(kwargs.get("reverse"))
            if all(k is not None for k in keys) and len({k[0] for k in keys}) <= 1:
                order = sorted(range(len(items)), key=lambda i: keys[i], reverse=rev)
                ties = len(set(keys)) < len(keys)
                # equal keys keep their input order: for a set that is its (hash-seed dependent) iteration order
                return AList([items[i] for i in order], "list", (site,) if (ties and from_set) else ())
            if len(items) > 4:
                raise Unsupported(f"sorted() over {len(items)} values whose order depends on literal content at {site}")
            # order depends on opaque literal content: fork on each needed comparison
            out = []
            for i, x in enumerate(items):
                pos = len(out)
                for j, (y, _) in enumerate(out):
                    if self.choose(f"sorts-before({_describe(kvals[i])}, {_describe(y)}) at {site}") != rev:
                        pos = j
                        break
                out.insert(pos, (kvals[i], x))
            return AList([x for _, x in out], "list")
        if name in ("list", "tuple"):
            if not args:
                return AList([], name)
            v = args[0]
            nd = ()
            items = []
            if isinstance(v, AList):
                nd = v.nondet
            for x in self.iterate(v, site):
                if isinstance(x, _Tagged):
                    nd = nd + (x.site,)
                    x = x.value
                items.append(x)
            return AList(items, name, nd)
        if name in ("set", "frozenset"):
            if not args:
                return ASet([])
            items = [x.value if isinstance(x, _Tagged) else x for x in self.iterate(args[0], site)]
            return ASet(self.dedupe_opaque(items, site))
        if name == "vars" and len(args) == 1 and isinstance(args[0], Obj):
            d_ = ADict({})
            d_.items = args[0].attrs          # the instance dictionary itself: changes through it are changes of the object
            return d_
        if name == "dict" and not args:
            return ADict(dict(kwargs))
        if name == "dict" and len(args) == 1 and isinstance(args[0], (AList, _MapIter)) or (
                name == "dict" and len(args) == 1 and isinstance(args[0], ADict)):
            # dict(pairs) / dict(mapping): later pairs overwrite the value of an equal key and keep its position
            d = ADict({})
            if isinstance(args[0], ADict):
                d.items.update(args[0].items)
            else:
                for pr in self.iterate(args[0], site):
                    pr = pr.value if isinstance(pr, _Tagged) else pr
                    if not (isinstance(pr, AList) and len(pr.items) == 2):
                        raise Unsupported(f"dict() of a sequence whose members are not pairs at {site}")
                    d.items[self.dict_key(d, pr.items[0], site)] = pr.items[1]
            for k_, v_ in kwargs.items():
                d.items[k_] = v_
            return d
        if name == "isinstance":
            t = args[1]
            ts = t.items if isinstance(t, AList) else [t]
            for c in ts:
                cn = c.name if isinstance(c, (ClassVal, Builtin)) else None
                if cn is None:
                    raise Unsupported(f"isinstance against {type(c).__name__} at {site}")
                if self.isinstance_name(args[0], cn, None):
                    return True
            return False
        if name == "type":
            v = args[0]
            if isinstance(v, Obj):
                return v.cls
            for cn in ("str", "int", "float", "list", "tuple", "set", "dict", "bool"):
                if self.isinstance_name(v, cn, None):
                    return Builtin(cn)
            if v is None:
                return Builtin("NoneType")
            if isinstance(v, EnumVal):
                for m_ in self.src.modules.values():
                    c_ = m_.classes().get(v.cls)
                    if c_ is not None:
                        return self.class_val(m_, c_)
            raise Unsupported(f"type() of {type(v).__name__} at {site}")
        if name == "map":
            f = args[0]
            items = [x.value if isinstance(x, _Tagged) else x for x in self.iterate(args[1], site)]
            return _MapIter([self.apply(f, [x], {}, site) for x in items])
        if name == "enumerate":
            start = args[1] if len(args) > 1 else kwargs.get("start", 0)
            return AList([AList([i + start, x], "tuple") for i, x in enumerate(self.iterate(args[0], site))])
        if name == "zip":
            cols = [self.iterate(a, site) for a in args]
            return AList([AList(list(r), "tuple") for r in zip(*cols)])
        if name == "range" and all(isinstance(a, int) for a in args):
            return AList(list(range(*args)))
        if name == "reversed":
            return AList(list(reversed(self.iterate(args[0], site))))
        if name in ("any", "all"):
            vals = [self.truthy(x, site) for x in self.iterate(args[0], site)]
            return any(vals) if name == "any" else all(vals)
        if name == "bool":
            return self.truthy(args[0], site) if args else False
        if name in ("int", "float"):
            v = args[0]
            if isinstance(v, Sym) and v.kind == "rawtoken":
                return Sym(name, v.src)
            if isinstance(v, Sym) and v.kind == name:
                return v
            if isinstance(v, Sym) and v.kind in ("int", "float"):
                self.pyd_events.append((f"{v.kind}->{name}", f"{name}() call", site, v.src))
                return Sym(name, v.src, neg=v.neg, coerced=v.coerced + ((v.kind, name, f"{name}() call", site),), uid=v.uid)
            if _isnum(v):
                return int(v) if name == "int" else float(v)
            if isinstance(v, Tmpl) and v.is_literal():
                try:
                    return float(v.text()) if name == "float" else int(v.text())
                except ValueError:
                    raise RaiseSig("ValueError", site, f"{name}({v.text()!r})")
            raise Unsupported(f"{name}() of {v!r} at {site}")
        if name == "print":
            return None
        if name == "id" and len(args) == 1 and getattr(self, "hash_domain", False):
            # the address of an object: equal for the same object, and possibly equal for two objects that never lived at the same time
            self.entropy.append(("id()", site))
            return Opaque("object-id", payload=args[0])
        if name in ("id", "hash"):
            self.entropy.append((name + "()", site))
            raise Unsupported(f"{name}() at {site}: process-dependent value")
        if name in ("setattr", "object.__setattr__") and len(args) == 3 and isinstance(args[1], Tmpl) and args[1].is_literal():
            o = args[0]
            if isinstance(o, (Obj, TokenVal)):
                o.attrs[args[1].text()] = args[2]
                if isinstance(o, Obj) and getattr(self, "trace", None) is not None:
                    self.trace.append(("store", o, args[1].text(), args[2], site))
                return None
            raise Unsupported(f"setattr on {type(o).__name__} at {site}")
        if name == "callable" and len(args) == 1:
            return isinstance(args[0], (FuncVal, PartialVal, BoundMethod, Builtin, ClassVal)) or (isinstance(args[0], Opaque) and "__call__" in args[0].methods)
        if name == "vars" and len(args) == 1 and isinstance(args[0], Obj):
            return ADict(dict(args[0].attrs))
        if name == "getattr":
            nm = args[1]
            if isinstance(nm, Tmpl) and nm.is_literal():
                try:
                    return self.getattr(args[0], nm.text(), site)
                except Unsupported:
                    if len(args) > 2:
                        return args[2]
                    raise
        if name == "hasattr":
            nm = args[1]
            if isinstance(nm, Tmpl) and nm.is_literal() and isinstance(args[0], Obj):
                return nm.text() in args[0].attrs
        if name == "abs" and len(args) == 1 and isinstance(args[0], Sym) and args[0].kind in ("int", "float"):
            return Magnitude(args[0])
        raise Unsupported(f"builtin {name}({', '.join(type(a).__name__ for a in args)}) at {site}")

    def method(self, recv, name, args, kwargs, site):
        args = [x.value if isinstance(x, _Tagged) else x for x in args]
        if isinstance(recv, Opaque):
            if name in recv.methods:
                return recv.methods[name](self, args, kwargs, site)
            raise Unsupported(f"method {name} of {recv.tag} at {site}")
        if isinstance(recv, AHash):
            if name == "update" and len(args) == 1:
                recv.data.append(args[0])
                return None
            if name in ("hexdigest", "digest") and not args:
                return ADigest(recv.algo, tuple(recv.data), "hex" if name == "hexdigest" else "bytes")
            if name == "copy" and not args:
                return AHash(recv.algo, list(recv.data))
            raise Unsupported(f"hash object method {name} at {site}")
        if isinstance(recv, ADigest):
            if name == "hex" and recv.kind == "bytes" and not args and recv.step is None:
                lo, hi = recv.lo, recv.hi
                return ADigest(recv.algo, recv.data, "hex", None if lo is None else lo * 2, None if hi is None else hi * 2)
            raise Unsupported(f"method {name} on a digest at {site}")
        if isinstance(recv, RePattern):
            import re as _re

            def conc(v):
                if isinstance(v, Tmpl) and v.is_literal():
                    return v.text()
                if isinstance(v, Sym) and v.kind == "ident":
                    return v.name
                if isinstance(v, Tmpl) and all(isinstance(p_, str) or (p_.sym.kind == "ident" and p_.render == "str") for p_ in v.parts):
                    return "".join(p_ if isinstance(p_, str) else p_.sym.name for p_ in v.parts)
                return None
            subj = conc(args[-1]) if args else None
            if subj is not None and not kwargs:
                rx_ = _re.compile(recv.pattern)
                if name == "split" and len(args) == 1:
                    return AList([Tmpl.lit(x) if x is not None else None for x in rx_.split(subj)], "list")
                if name == "findall" and len(args) == 1:
                    r_ = rx_.findall(subj)
                    if all(isinstance(x, str) for x in r_):
                        return AList([Tmpl.lit(x) for x in r_], "list")
                if name in ("match", "fullmatch", "search") and len(args) == 1:
                    return ExtVal("re", "Match()") if getattr(rx_, name)(subj) else None
                if name == "sub" and len(args) == 2 and conc(args[0]) is not None:
                    return Tmpl.lit(rx_.sub(conc(args[0]), subj))
            if name in ("match", "fullmatch", "search") and args and isinstance(args[-1], (Sym, Tmpl)):
                return ExtVal("re", "Match()") if self.choose(f"{name}() of {recv.pattern!r} on {_describe(args[-1])} at {site}") else None
            raise Unsupported(f"re.Pattern.{name} on a value that is not known text at {site}")
        if isinstance(recv, Obj) and recv.cls.kind == "model":
            if name == "copy":
                # pydantic v1 BaseModel.copy(update=...): a shallow copy with the given fields replaced, not re-validated
                o2 = Obj(recv.cls, dict(recv.attrs))
                upd = kwargs.get("update")
                if isinstance(upd, ADict):
                    for k, v in upd.items.items():
                        o2.attrs[str(k)] = v
                elif upd is not None:
                    raise Unsupported(f"model.copy(update=<{type(upd).__name__}>) at {site}")
                if any(k not in ("update", "deep") for k in kwargs):
                    raise Unsupported(f"model.copy({sorted(kwargs)}) at {site}")
                return o2
            if name == "dict" and not args and not kwargs:
                return ADict(dict(recv.attrs))
        if isinstance(recv, StrBuf):
            if name == "write":
                v = args[0]
                recv.parts.append(v if isinstance(v, Tmpl) else self.render(v, "str", site))
                return None
            if name == "writelines":
                for v in self.iterate(args[0], site):
                    recv.parts.append(v if isinstance(v, Tmpl) else self.render(v, "str", site))
                return None
            if name == "getvalue":
                out = Tmpl()
                for p_ in recv.parts:
                    out = out + p_
                return out
            if name in ("close", "flush"):
                return None
            raise Unsupported(f"StringIO.{name} at {site}")
        if isinstance(recv, Tmpl):
            if name == "join":
                src = args[0]
                nd = src.nondet if isinstance(src, AList) else ()
                out = Tmpl()
                first = True
                for x in self.iterate(src, site):
                    if isinstance(x, _Tagged):
                        nd = nd + (x.site,)
                        x = x.value
                    if not first:
                        out = out + recv
                    first = False
                    if isinstance(x, Tmpl):
                        out = out + x
                    elif isinstance(x, Sym) and x.kind in ("str", "ident"):
                        out = out + Tmpl((Hole(x, "str", site),))
                    else:
                        raise RaiseSig("TypeError", site, f"join() of a non-string item {x!r}")
                return Tmpl(out.parts, out.nondet + tuple(nd))
            if name == "format" and recv.is_literal():
                import string as _string
                out = Tmpl()
                auto = 0
                for lit, field, spec, conv in _string.Formatter().parse(recv.text()):
                    out = out + Tmpl.lit(lit)
                    if field is None:
                        continue
                    if spec:
                        raise Unsupported(f"str.format with a format spec at {site}")
                    if field == "":
                        val = args[auto]
                        auto += 1
                    elif field.isdigit():
                        val = args[int(field)]
                    elif field in kwargs:
                        val = kwargs[field]
                    else:
                        raise Unsupported(f"str.format field {field!r} at {site}")
                    out = out + self.render(val, {None: "str", "s": "str", "r": "repr", "a": "ascii"}[conv], site)
                return out
            if name in ("splitlines",) or (name == "split" and len(args) == 1 and isinstance(args[0], Tmpl) and args[0].is_literal() and args[0].text() == "\n"):
                keep = name == "splitlines" and bool(args) and args[0] is True
                lines, cur = [], []
                for p_ in recv.parts:
                    if isinstance(p_, str):
                        segs = p_.split("\n")
                        for i_, seg in enumerate(segs):
                            if i_:
                                if keep:
                                    cur.append("\n")
                                lines.append(Tmpl(cur, recv.nondet))
                                cur = []
                            if seg:
                                cur.append(seg)
                    else:
                        cur.append(p_)
                if cur or name == "split":
                    lines.append(Tmpl(cur, recv.nondet))
                return AList(lines)
            if name in ("strip", "lstrip", "rstrip") and not recv.is_literal() and all(isinstance(a, Tmpl) and a.is_literal() for a in args):
                chars = args[0].text() if args else None
                parts = list(recv.parts)
                if name in ("strip", "lstrip") and parts and isinstance(parts[0], str):
                    parts[0] = parts[0].lstrip(chars)
                if name in ("strip", "rstrip") and parts and isinstance(parts[-1], str):
                    parts[-1] = parts[-1].rstrip(chars)
                edge_holes = (name in ("strip", "lstrip") and parts and isinstance(parts[0], Hole) and parts[0].sym.kind != "ident") or \
                             (name in ("strip", "rstrip") and parts and isinstance(parts[-1], Hole) and parts[-1].sym.kind != "ident")
                if edge_holes:
                    raise Unsupported(f"str.{name} cuts into a rendered literal at {site}")
                return Tmpl(parts, recv.nondet)
            if name in ("startswith", "endswith") and not recv.is_literal() and isinstance(args[0], Tmpl) and args[0].is_literal():
                edge = recv.parts[0] if name == "startswith" else recv.parts[-1]
                t_ = args[0].text()
                if isinstance(edge, str) and len(edge) >= len(t_):
                    return edge.startswith(t_) if name == "startswith" else edge.endswith(t_)
                return self.choose(f"{name}({t_!r}) on generated text at {site}")
            if name == "replace" and len(args) >= 2 and isinstance(args[0], Tmpl) and args[0].is_literal() and args[0].text() \
                    and isinstance(args[1], (Tmpl, Sym)) and not (recv.is_literal() and isinstance(args[1], Tmpl) and args[1].is_literal()):
                # replacement in text that embeds rendered values (or by such text): exact in the literal pieces; a value
                # whose rendering may contain the needle is marked - what lands in the text is then no longer that value
                needle = args[0].text()
                new = args[1] if isinstance(args[1], Tmpl) else self.render(args[1], "str", site)
                out = Tmpl()
                for p_ in recv.parts:
                    if isinstance(p_, str):
                        pieces = p_.split(needle)
                        for i_, piece in enumerate(pieces):
                            if i_:
                                out = out + new
                            out = out + Tmpl.lit(piece)
                        continue
                    k_ = p_.sym.kind
                    may = (k_ in ("str", "rawtoken")) or (k_ == "ident" and needle in p_.sym.name) or \
                        (k_ in ("int", "float") and all(ch in "0123456789.-+einfa" for ch in needle))
                    out = out + Tmpl((Hole(p_.sym, p_.render + f"|replace({needle})", site) if may else p_,))
                return Tmpl(out.parts, recv.nondet + (new.nondet if isinstance(new, Tmpl) else ()))
            if recv.is_literal():
                s = recv.text()
                if name in ("strip", "lstrip", "rstrip", "lower", "upper", "title") and all(
                        isinstance(a, Tmpl) and a.is_literal() for a in args):
                    return Tmpl.lit(getattr(s, name)(*[a.text() for a in args]))
                if name in ("startswith", "endswith") and isinstance(args[0], Tmpl) and args[0].is_literal():
                    return getattr(s, name)(args[0].text())
                if name == "split" and all(isinstance(a, Tmpl) and a.is_literal() for a in args):
                    return AList([Tmpl.lit(x) for x in s.split(*[a.text() for a in args])])
                if name == "replace" and all(isinstance(a, Tmpl) and a.is_literal() for a in args):
                    return Tmpl.lit(s.replace(*[a.text() for a in args]))
                if name == "encode":
                    return recv
                if name in ("isdigit", "isdecimal", "isnumeric", "isalpha", "isalnum", "isidentifier", "islower", "isupper", "isspace",
                            "isascii") and not args:
                    return getattr(s, name)()
                if name in ("casefold", "capitalize", "swapcase") and not args:
                    return Tmpl.lit(getattr(s, name)())
                if name in ("count", "find", "rfind", "index") and all(isinstance(a, Tmpl) and a.is_literal() for a in args) and args:
                    try:
                        return getattr(s, name)(*[a.text() for a in args])
                    except ValueError:
                        raise RaiseSig("ValueError", site)
            raise Unsupported(f"str.{name} on a non-literal string at {site}")
        if isinstance(recv, ASet):
            if name == "add":
                if not _member(args[0], recv.items):
                    recv.items.append(args[0])
                return None
            if name == "update":
                for a in args:
                    for x in self.iterate(a, site):
                        x = x.value if isinstance(x, _Tagged) else x
                        if not _member(x, recv.items):
                            recv.items.append(x)
                return None
            if name in ("union", "__or__"):
                items = list(recv.items)
                for a in args:
                    items += [x.value if isinstance(x, _Tagged) else x for x in self.iterate(a, site)]
                return ASet(_dedupe(items))
            if name == "difference":
                other = []
                for a in args:
                    other += [x.value if isinstance(x, _Tagged) else x for x in self.iterate(a, site)]
                return ASet([x for x in recv.items if not _member(x, other)])
            if name == "intersection":
                other = [x.value if isinstance(x, _Tagged) else x for x in self.iterate(args[0], site)]
                return ASet([x for x in recv.items if _member(x, other)])
            if name == "copy":
                return ASet(list(recv.items))
            if name == "clear":
                del recv.items[:]
                return None
            if name == "discard":
                recv.items[:] = [x for x in recv.items if not self.equal(x, args[0], site)]
                return None
            raise Unsupported(f"set.{name} at {site}")
        if isinstance(recv, AList):
            if name == "sort" and recv.pytype == "list":
                res = self.builtin("sorted", [recv], kwargs, site)
                recv.items[:] = res.items
                recv.nondet = tuple(recv.nondet) + tuple(res.nondet)
                return None
            if name == "reverse" and recv.pytype == "list":
                recv.items.reverse()
                return None
            if name == "append" and recv.pytype in ("list", "deque"):
                recv.items.append(args[0])
                return None
            if recv.pytype == "deque" and name in ("appendleft", "popleft", "extendleft", "rotate"):
                if name == "appendleft":
                    recv.items.insert(0, args[0])
                    return None
                if name == "popleft":
                    if not recv.items:
                        raise RaiseSig("IndexError", site)
                    return recv.items.pop(0)
                if name == "extendleft":
                    for x in self.iterate(args[0], site):
                        recv.items.insert(0, x.value if isinstance(x, _Tagged) else x)
                    return None
                raise Unsupported(f"deque.{name} at {site}")
            if name == "extend" and recv.pytype in ("list", "deque"):
                recv.items.extend(x.value if isinstance(x, _Tagged) else x for x in self.iterate(args[0], site))
                return None
            if name == "insert" and recv.pytype == "list" and isinstance(args[0], int):
                recv.items.insert(args[0], args[1])
                return None
            if name == "copy":
                return AList(list(recv.items), recv.pytype, recv.nondet)
            if name == "pop" and (recv.pytype == "list" or (recv.pytype == "deque" and not args)) and (not args or isinstance(args[0], int)):
                try:
                    return recv.items.pop(*args)
                except IndexError:
                    raise RaiseSig("IndexError", site)
            if name == "clear" and recv.pytype in ("list", "deque"):
                del recv.items[:]
                return None
            if name == "index":
                for i, x in enumerate(recv.items):
                    if self.equal(x, args[0], site):
                        return i
                raise RaiseSig("ValueError", site)
            if name == "count":
                return sum(1 for x in recv.items if self.equal(x, args[0], site))
            raise Unsupported(f"{recv.pytype}.{name} at {site}")
        if isinstance(recv, ADict):
            if name == "get":
                k = self.dict_key(recv, args[0], site)
                return recv.items.get(k, args[1] if len(args) > 1 else None)
            if name == "clear":
                recv.items.clear()
                return None
            if name == "setdefault":
                k = self.dict_key(recv, args[0], site)
                return recv.items.setdefault(k, args[1] if len(args) > 1 else None)
            if name == "items":
                return AList([AList([self._unkey(k), v], "tuple") for k, v in recv.items.items()])
            if name == "keys":
                return AList([self._unkey(k) for k in recv.items])
            if name == "values":
                return AList(list(recv.items.values()))
            if name == "update":
                for src_ in list(args):
                    if isinstance(src_, ADict):
                        for k, v in src_.items.items():
                            recv.items[self.dict_key(recv, self._unkey(k), site)] = v
                    else:
                        for pair in self.iterate(src_, site):
                            k, v = self.iterate(pair, site)
                            recv.items[self.dict_key(recv, k, site)] = v
                for k, v in kwargs.items():
                    recv.items[k] = v
                return None
            if name == "copy":
                d = type(recv)(dict(recv.items))
                return d
            if name == "pop":
                k = self.dict_key(recv, args[0], site)
                if k in recv.items:
                    return recv.items.pop(k)
                if len(args) > 1:
                    return args[1]
                raise RaiseSig("KeyError", site, f"pop({args[0]!r})")
            if name == "__contains__":
                return self.dict_key(recv, args[0], site) in recv.items
            if name == "most_common" and isinstance(recv, ACounter):
                raise Unsupported(f"Counter.most_common at {site}")
            raise Unsupported(f"dict.{name} at {site}")
        if isinstance(recv, Sym):
            if recv.kind == "ident" and name in ("lower", "upper", "casefold") and not args:
                return Tmpl.lit(getattr(recv.name, name)())
            if name in ("removeprefix", "removesuffix") and len(args) == 1 and isinstance(args[0], Sym):
                # stripping the token's own first / last character: the same as slicing it off
                base = recv.src.split("[")[0]
                edge = args[0].src
                same_ends = TOKEN_ENDS_EQUAL["fn"](base) if TOKEN_ENDS_EQUAL["fn"] is not None else False
                if name == "removeprefix" and recv.kind == "rawtoken" and edge == base + "[0]":
                    return Sym("str", base + "[1:None]")
                if name == "removesuffix" and edge in (base + "[-1]",) + ((base + "[0]",) if same_ends else ()):
                    if recv.kind == "rawtoken":
                        return Sym("str", base + "[None:-1]")
                    if recv.src == base + "[1:None]":
                        return Sym("str", base + "[1:-1]")
            if recv.kind == "rawtoken" and name == "count":
                return Sym("int", recv.src + ".count")
            if recv.kind == "rawtoken" and name in ("partition", "rpartition"):
                return AList([Sym("rawtoken", recv.src), Sym("rawtoken", recv.src + ".sep"), Sym("rawtoken", recv.src)], "tuple")
            if recv.kind == "rawtoken" and name in ("isdigit", "isdecimal", "isnumeric", "isalpha", "isidentifier", "startswith", "endswith", "isascii"):
                return self.choose(f"{recv.src}.{name}() at {site}")
            if recv.kind == "rawtoken" and name in ("find", "index"):
                return Sym("int", recv.src + "." + name)
            if name == "encode" and recv.kind in ("str", "rawtoken") and getattr(self, "hash_domain", False):
                def lit(v_, dflt):
                    if v_ is None:
                        return dflt
                    if isinstance(v_, Tmpl) and v_.is_literal():
                        return v_.text()
                    raise Unsupported(f"encode() with a computed argument at {site}")
                codec = lit(args[0] if args else kwargs.get("encoding"), "utf-8")
                errors = lit(args[1] if len(args) > 1 else kwargs.get("errors"), "strict")
                return ABytes(recv, codec.lower().replace("_", "-"), errors)
            exc = ContentDependent if name in ("split", "rsplit", "partition", "rpartition", "splitlines") and (
                "STRING_LITERAL" in recv.src or recv.kind == "rawtoken") else Unsupported
            raise exc(
                f"method .{name}() on an opaque {recv.kind} value ({recv.src}) at {site}: "
                "the generated text would depend on the literal's content")
        raise Unsupported(f"method {name} on {type(recv).__name__} at {site}")

    def external(self, f: "ExtVal", args, kwargs, site):
        q = f"{f.module}.{f.attr}" if f.attr else f.module
        root = q.split(".")[0]
        hook = getattr(self, "ext_hooks", {}).get(q)
        if hook is not None:
            return hook(self, args, kwargs, site)
        if root in ("logging", "warnings") or ".Logger()" in q:
            if q in ("logging.getLogger", "logging.Logger", "logging.LoggerAdapter"):
                return ExtVal("logging", "Logger()")
            if q.endswith(".getChild"):
                return ExtVal("logging", "Logger()")
            if q.endswith(".isEnabledFor"):
                return False
            return None            # emitting a log record / warning does not affect the compiled text
        if root == "hashlib":
            algo = q.split(".")[-1]
            rest = list(args)
            if algo == "new":
                if not (rest and isinstance(rest[0], Tmpl) and rest[0].is_literal()):
                    raise Unsupported(f"hashlib.new with a computed algorithm at {site}")
                algo = rest.pop(0).text()
            if "data" in kwargs:
                rest.append(kwargs["data"])
            return AHash(algo.lower(), rest[:1])
        if q in ("zlib.crc32", "zlib.adler32", "binascii.crc32") and args and getattr(self, "hash_domain", False):
            return ADigest(q, tuple(args[:1]), "int")      # a 32-bit checksum: a value of the data, but not a hashlib digest
        if q in ("binascii.hexlify",) and args and isinstance(args[0], ADigest) and args[0].kind == "bytes":
            return self.method(args[0], "hex", [], {}, site)
        if q in ("keyword.iskeyword", "keyword.issoftkeyword") and len(args) == 1:
            import keyword as _kw
            v = args[0]
            if isinstance(v, Tmpl) and v.is_literal():
                return getattr(_kw, q.split(".")[1])(v.text())
            if isinstance(v, Sym) and v.kind == "ident" and v.name:
                # identifiers of a shape carry a concrete spelling; the families contain names spelled like soft keywords
                return getattr(_kw, q.split(".")[1])(v.name)
            if isinstance(v, Sym) and v.kind in ("ident", "str", "rawtoken"):
                # an identifier of the DSL may be spelled like any word, also like one Python reserves
                which = "a Python keyword" if q.endswith("iskeyword") else "a Python soft keyword (match, case, type, _)"
                return self.choose(f"{_describe(v)} is spelled like {which} at {site}")
        if q == "sys.getrecursionlimit":
            return 1000
        if q == "sys.get_int_max_str_digits":
            return 4300
        if q == "sys.set_int_max_str_digits":
            return None            # a process setting (C17 judges the call itself)
        if q in ("sys.setrecursionlimit", "sys.setswitchinterval", "gc.collect", "gc.disable", "gc.enable"):
            return None            # process settings do not change what text is generated (C17 judges the call itself)
        if q in ("functools.lru_cache", "lru_cache", "functools.cache", "cache"):
            # lru_cache(maxsize=...) -> decorator; cache(f) / lru_cache(f) -> the memoised function
            if args and isinstance(args[0], (FuncVal, PartialVal, BoundMethod)):
                return CachedVal(args[0], {})
            return Builtin("functools.cache-decorator")
        if q in ("functools.partial", "partial") and args:
            return PartialVal(args[0], list(args[1:]), dict(kwargs))
        if q in ("functools.wraps", "wraps", "functools.update_wrapper"):
            if q.endswith("update_wrapper"):
                return args[0]
            ident = ast.parse("lambda _f: _f", mode="eval").body
            return self.ev_Lambda(ident, Env(next(iter(self.src.modules.values())), {}))
        if q in ("types.MappingProxyType", "MappingProxyType") and len(args) == 1:
            return args[0]            # a read-only view: the same keys and values
        if q in ("typing.cast",) and len(args) == 2:
            return args[1]
        if q in ("math.ldexp", "ldexp") and len(args) == 2 and isinstance(args[0], ABits) and isinstance(args[1], int):
            from fractions import Fraction
            return ABits(args[0].digest, args[0].byteorder, args[0].scale * Fraction(2) ** args[1])
        if root == "math" and args and not kwargs and all(_isnum(a_) for a_ in args) and q.count(".") == 1 and q.split(".")[1] in (
                "sqrt", "log", "log2", "log10", "exp", "floor", "ceil", "trunc", "fabs", "pow", "isfinite", "isinf", "isnan", "copysign",
                "fsum", "gcd", "hypot", "erf", "erfc", "sin", "cos", "tan", "atan", "asin", "acos", "ldexp", "frexp", "fmod", "expm1", "log1p"):
            import math as _math
            try:
                r_ = getattr(_math, q.split(".")[1])(*args)       # a pure function of constants
            except (ValueError, OverflowError, ZeroDivisionError, TypeError) as e_:
                raise RaiseSig(type(e_).__name__, site, q)
            return AList(list(r_), "tuple") if isinstance(r_, tuple) else r_
        if q in ("math.isclose", "isclose") and len(args) == 2 and any(isinstance(a_, Sym) and a_.kind in ("int", "float") for a_ in args) \
                and all((isinstance(a_, Sym) and a_.kind in ("int", "float")) or _isnum(a_) for a_ in args):
            # a literal (or a value computed from literals) close to a number or to another literal: either may be the case
            return self.choose(f"isclose({_describe(args[0])}, {_describe(args[1])}) at {site}")
        if root in ("math", "cmath") and args and any(isinstance(a_, Num) for a_ in args):
            sp = _sp()
            fn_ = q.split(".")[-1]
            e0 = _to_expr(args[0])
            if fn_ in ("isfinite", "isinf", "isnan"):
                fact = getattr(self, "num_fact", None)
                r = fact(fn_, e0) if fact is not None else None
                if r is None:
                    raise Unsupported(f"math.{fn_} of an abstract number is outside the domain of the analysis at {site}")
                return r
            if fn_ == "isclose" and len(args) == 2:
                # equal values are close; for unequal ones closeness depends on how near they are, which no ordering class
                # fixes (a point strictly inside a slice may lie within the tolerance of its boundary): both outcomes
                try:
                    same = self.num_compare("Eq", args[0], args[1], site)
                except Unsupported:
                    same = None
                if same is True:
                    return True
                return self.choose(f"isclose({args[0]!r}, {args[1]!r}) although the values differ at {site}")
            if fn_ in ("floor", "trunc"):
                return Num(self.num_floor(args[0], site, "floor" if fn_ == "floor" else "int()"))
            if fn_ == "ceil":
                return Num(sp.ceiling(e0))
            table = {"sqrt": sp.sqrt, "log": sp.log, "exp": sp.exp, "fabs": sp.Abs, "atanh": sp.atanh, "tanh": sp.tanh, "erf": sp.erf,
                     "log1p": lambda x: sp.log(1 + x), "expm1": lambda x: sp.exp(x) - 1}
            if fn_ in table and len(args) == 1:
                return Num(table[fn_](e0), True)
            if fn_ == "log" and len(args) == 2:
                return Num(sp.log(e0, _to_expr(args[1])))
            if fn_ == "pow" and len(args) == 2:
                return Num(e0 ** _to_expr(args[1]))
            if fn_ == "ldexp" and len(args) == 2 and isinstance(args[1], int):
                return Num(e0 * sp.Integer(2) ** args[1])
            if fn_ == "copysign" or fn_ == "fsum":
                raise Unsupported(f"math.{fn_} of an abstract number at {site}")
        if q in ("itertools.accumulate", "accumulate") and args and isinstance(args[0], (AList, _MapIter)) and len(args) == 1 and not kwargs:
            items = [x.value if isinstance(x, _Tagged) else x for x in self.iterate(args[0], site)]
            out, acc = [], None
            for x in items:
                acc = x if acc is None else self.binop(ast.Add(), acc, x, site)
                out.append(acc)
            return _MapIter(out)
        if root == "bisect" and len(args) >= 2 and isinstance(args[0], AList):
            fn_ = q.split(".")[-1]
            if fn_ in ("bisect", "bisect_right", "bisect_left"):
                keyf_ = kwargs.get("key")
                a_, x_ = args[0].items, args[1]
                if keyf_ is not None:
                    a_ = [self.apply(keyf_, [y_], {}, site) for y_ in a_]
                lo = args[2] if len(args) > 2 else kwargs.get("lo", 0)
                hi = args[3] if len(args) > 3 else kwargs.get("hi", None)
                hi = len(a_) if hi is None else hi
                if not (isinstance(lo, int) and isinstance(hi, int)):
                    raise Unsupported(f"bisect bounds are not concrete integers at {site}")
                if lo < 0:
                    raise RaiseSig("ValueError", site, "lo must be non-negative")
                while lo < hi:          # the algorithm of the stdlib module
                    mid = (lo + hi) // 2
                    if mid >= len(a_):
                        raise RaiseSig("IndexError", site)
                    if fn_ == "bisect_left":
                        go_right = self.order(ast.Lt(), a_[mid], x_, site)
                    else:
                        go_right = not self.order(ast.Lt(), x_, a_[mid], site)
                    if go_right:
                        lo = mid + 1
                    else:
                        hi = mid
                return lo
        if q in ("collections.Counter", "Counter"):
            c = ACounter({})
            if args:
                for x in self.iterate(args[0], site):
                    x = x.value if isinstance(x, _Tagged) else x
                    kk = self.dict_key(c, x, site)
                    c.items[kk] = c.items.get(kk, 0) + 1
            return c
        if q in ("collections.deque", "deque") and len(args) <= 1 and not kwargs:
            items_ = [x.value if isinstance(x, _Tagged) else x for x in self.iterate(args[0], site)] if args else []
            return AList(items_, "deque")
        if q in ("collections.OrderedDict", "OrderedDict") and not args:
            return ADict({})
        if q in ("collections.defaultdict", "defaultdict") and len(args) == 1 and isinstance(args[0], Builtin) and args[0].name == "int":
            return ACounter({})
        if q in ("math.isinf", "math.isfinite", "math.isnan") and len(args) == 1:
            import math as _math
            v = args[0]
            if isinstance(v, Sym) and v.kind == "int" and v.huge:
                raise RaiseSig("OverflowError", site, "int too large to convert to float")       # math.is*() converts its argument
            if isinstance(v, Sym) and v.kind in ("int", "float"):
                v = v.as_inf() if v.overflow else 0.0
            if _isnum(v):
                return getattr(_math, q.split(".")[1])(v)
        if q in ("copy.copy", "copy.deepcopy") and args:
            return args[0]
        if q in ("io.StringIO", "StringIO"):
            return StrBuf([args[0]] if args and isinstance(args[0], Tmpl) else [])
        if q == "operator.itemgetter" and len(args) > 1 and all(isinstance(a_, int) or (isinstance(a_, Tmpl) and a_.is_literal()) for a_ in args):
            keys_ = ", ".join(repr(a_) if isinstance(a_, int) else repr(a_.text()) for a_ in args)
            lam = ast.parse(f"lambda _x: ({', '.join('_x[' + k_.strip() + ']' for k_ in keys_.split(', '))},)", mode="eval").body
            return self.ev_Lambda(lam, Env(next(iter(self.src.modules.values())), {}))
        if q in ("operator.itemgetter", "operator.attrgetter") and len(args) == 1:
            key_ = args[0]
            fn_src = f"lambda _x: _x[{key_!r}]" if q.endswith("itemgetter") and isinstance(key_, int) else None
            if q.endswith("attrgetter") and isinstance(key_, Tmpl) and key_.is_literal() and key_.text().isidentifier():
                fn_src = f"lambda _x: _x.{key_.text()}"
            if q.endswith("itemgetter") and isinstance(key_, Tmpl) and key_.is_literal():
                fn_src = f"lambda _x: _x[{key_.text()!r}]"
            if fn_src is None:
                raise Unsupported(f"{q} at {site}")
            lam = ast.parse(fn_src, mode="eval").body
            some_mod = next(iter(self.src.modules.values()))
            return self.ev_Lambda(lam, Env(some_mod, {}))
        if root == "operator" and q.split(".")[-1] in ("lt", "le", "gt", "ge", "eq", "ne", "add", "sub", "mul", "truediv", "neg", "not_",
                                                        "getitem", "contains") and args:
            nm_ = q.split(".")[-1]
            cmp_ = {"lt": ast.Lt, "le": ast.LtE, "gt": ast.Gt, "ge": ast.GtE}
            if nm_ in cmp_ and len(args) == 2:
                return self.order(cmp_[nm_](), args[0], args[1], site)
            if nm_ in ("eq", "ne") and len(args) == 2:
                r_ = self.equal(args[0], args[1], site)
                return r_ if nm_ == "eq" else not r_
            ops_ = {"add": ast.Add, "sub": ast.Sub, "mul": ast.Mult, "truediv": ast.Div}
            if nm_ in ops_ and len(args) == 2:
                return self.binop(ops_[nm_](), args[0], args[1], site)
            if nm_ == "not_":
                return not self.truthy(args[0], site)
            if nm_ == "contains" and len(args) == 2:
                return self.contains(args[0], args[1], site)
        if q == "re.escape" and args and isinstance(args[0], Tmpl) and args[0].is_literal():
            import re as _re
            return Tmpl.lit(_re.escape(args[0].text()))
        if q == "re.compile":
            if args and isinstance(args[0], Tmpl) and args[0].is_literal() and len(args) == 1 and not kwargs:
                return RePattern(args[0].text())
            return ExtVal("re", "Pattern()")
        if q in ("re.split", "re.sub", "re.findall", "re.match", "re.fullmatch", "re.search") and args and isinstance(args[0], Tmpl) \
                and args[0].is_literal() and not kwargs:
            try:
                return self.method(RePattern(args[0].text()), q.split(".")[1], args[1:], {}, site)
            except Unsupported:
                pass
        if q in ("re.Pattern().match", "re.Pattern().fullmatch", "re.Pattern().search", "re.match", "re.fullmatch", "re.search"):
            subj = args[-1] if args else None
            if isinstance(subj, (Sym, Tmpl)):
                return True if self.choose(f"{q.split('.')[-1]}() of a pattern on {_describe(subj)} at {site}") else None
        if q in ("json.dumps",) and args:
            v = args[0]
            if isinstance(v, AList):
                out = Tmpl.lit("[")
                for i_, x_ in enumerate(v.items):
                    if i_:
                        out = out + Tmpl.lit(", ")
                    out = out + (Tmpl((Hole(x_, "json", site),)) if isinstance(x_, Sym) else self.render(x_, "repr", site))
                return out + Tmpl.lit("]")
            if isinstance(v, Sym):
                return Tmpl((Hole(v, "json", site),))
            if isinstance(v, Tmpl) and v.is_literal():
                import json as _json
                return Tmpl.lit(_json.dumps(v.text()))
        if q in ("shlex.quote", "pprint.pformat", "reprlib.repr") and args and isinstance(args[0], Sym):
            return Tmpl((Hole(args[0], q, site),))
        if q in ("textwrap.dedent", "inspect.cleandoc") and args and isinstance(args[0], Tmpl) and args[0].is_literal():
            import textwrap as _tw
            return Tmpl.lit(_tw.dedent(args[0].text()))
        if q in ("textwrap.indent",) and len(args) >= 2 and isinstance(args[0], Tmpl) and isinstance(args[1], Tmpl) \
                and args[1].is_literal():
            pre = args[1].text()
            parts, at_start = [], True
            for p_ in args[0].parts:
                if isinstance(p_, str):
                    for ch in p_:
                        if at_start and ch != "\n":
                            parts.append(pre)
                            at_start = False
                        parts.append(ch)
                        if ch == "\n":
                            at_start = True
                else:
                    if at_start:
                        parts.append(pre)
                        at_start = False
                    parts.append(p_)
            return Tmpl(parts, args[0].nondet)
        self.unresolved.append(f"{q} at {site}")
        raise Unsupported(f"call to external {q} at {site} is not modelled")

    # rendering --------------------------------------------------------------
    def render(self, v, how, site) -> Tmpl:
        """str()/repr()/format() of an abstract value as a template."""
        if isinstance(v, _Tagged):
            v = v.value
        if getattr(self, "trace", None) is not None and not getattr(self, "_in_render", False):
            self.trace.append(("render", v, how, site))
            self._in_render = True
            try:
                return self.render(v, how, site)
            finally:
                self._in_render = False
        if isinstance(v, Tmpl):
            if how == "str":
                return v
            if v.is_literal():
                return Tmpl.lit(repr(v.text()) if how == "repr" else ascii(v.text()))
            # repr() of text that embeds opaque values: quotes + escaped literal pieces + each value's repr interior
            parts = ["'"]
            for p_ in v.parts:
                if isinstance(p_, str):
                    parts.append(repr(p_)[1:-1])
                else:
                    parts.append(Hole(p_.sym, p_.render + "|repr-inner", site))
            parts.append("'")
            return Tmpl(parts, v.nondet)
        if isinstance(v, Sym):
            if v.kind == "rawtoken":
                return Tmpl((Hole(v, how, site),))
            return Tmpl((Hole(v, how, site),))
        if v is None or isinstance(v, (bool, int, float)):
            return Tmpl.lit(repr(v) if how != "str" else str(v))
        if isinstance(v, AList):
            inner = [self.render(x, "repr" if how != "ascii" else "ascii", site) for x in v.items]
            op, cl = ("[", "]") if v.pytype == "list" else ("(", ")")
            out = Tmpl.lit(op)
            for i, t in enumerate(inner):
                if i:
                    out = out + Tmpl.lit(", ")
                out = out + t
            if v.pytype == "tuple" and len(inner) == 1:
                out = out + Tmpl.lit(",")
            out = out + Tmpl.lit(cl)
            return Tmpl(out.parts, out.nondet + tuple(v.nondet))
        if isinstance(v, ASet):
            if len(v.items) > 1:
                out = Tmpl.lit("{")
                for i, x in enumerate(v.items):
                    if i:
                        out = out + Tmpl.lit(", ")
                    out = out + self.render(x, "repr", site)
                return Tmpl((out + Tmpl.lit("}")).parts, (site,))
            if not v.items:
                return Tmpl.lit("set()")
            return Tmpl.lit("{") + self.render(v.items[0], "repr", site) + Tmpl.lit("}")
        if isinstance(v, EnumVal):
            return Tmpl.lit(f"{v.cls}.{v.member}" if how == "str" else f"<{v.cls}.{v.member}: ?>")
        if isinstance(v, Obj):
            if v.cls.kind == "model":
                # pydantic v1: __str__ = "k=v k=v" with repr of values; __repr__ = "Cls(k=v, ...)"
                parts = []
                for k, x in v.attrs.items():
                    parts.append(Tmpl.lit(f"{k}=") + self.render(x, "repr", site))
                sep = " " if how == "str" else ", "
                out = Tmpl()
                for i, p in enumerate(parts):
                    if i:
                        out = out + Tmpl.lit(sep)
                    out = out + p
                if how == "str":
                    return out
                return Tmpl.lit(f"{v.cls.name}(") + out + Tmpl.lit(")")
            for dunder in (("__str__", "__repr__") if how == "str" else ("__repr__",)):
                try:
                    f = self.class_attr(v.cls, dunder, v, site)
                except Unsupported:
                    continue
                r = self.call(f, [], {}, site) if isinstance(f, FuncVal) else None
                if isinstance(r, Tmpl):
                    return r
                if isinstance(r, Sym):
                    return self.render(r, "str", site)
            raise Unsupported(f"str() of a {v.cls.name} instance at {site}")
        if isinstance(v, ClassVal):
            return Tmpl.lit(f"<class '{v.name}'>")
        if isinstance(v, Builtin):
            return Tmpl.lit(f"<class '{v.name}'>")
        if isinstance(v, _MapIter):
            self.entropy.append(("repr of a map object (address)", site))
            raise Unsupported(f"str() of a map iterator at {site}")
        if isinstance(v, Num):
            return Tmpl((Hole(Sym("float", f"NUMBER:{str(v.e)[:40]}"), how, site),))       # e.g. inside an error message
        if isinstance(v, Magnitude):
            import dataclasses as _dc
            return self.render(_dc.replace(v.sym, neg=False), how, site)      # the digits without the sign (uid kept)
        if isinstance(v, ADict):
            out = Tmpl.lit("{")
            for i, (k, x) in enumerate(v.items.items()):
                if i:
                    out = out + Tmpl.lit(", ")
                out = out + self.render(self._unkey(k), "repr", site) + Tmpl.lit(": ") + self.render(x, "repr", site)
            return out + Tmpl.lit("}")
        if isinstance(v, ADigest) and v.kind == "hex":
            # the text of a hex digest: an opaque string of hex digits
            return Tmpl((Hole(Sym("str", f"HEXDIGEST:{v.algo}"), how, site),))
        raise Unsupported(f"cannot render {type(v).__name__} at {site}")


class NeedChoiceOrUnsupported(Unsupported):
    def __init__(self, interp, msg):
        super().__init__(msg)


class _NoCoerce(Exception):
    pass


@dataclass(eq=False)
class _Tagged:
    """An element obtained by iterating a set: carries the site of the order-dependent iteration."""
    value: object
    site: str


@dataclass(eq=False)
class _MapIter:
    items: list


@dataclass(frozen=True)
class ExtVal:
    module: str
    attr: str | None


def _ext(modname, attr):
    if modname == "math" and attr in ("inf", "nan", "pi", "e", "tau"):
        import math as _math
        return getattr(_math, attr)
    return ExtVal(modname, attr)


class Env:
    __slots__ = ("mod", "local", "outer")

    def __init__(self, mod: Module, local: dict, outer=None):
        self.mod, self.local, self.outer = mod, local, outer


def _load(t):
    import copy
    t2 = copy.copy(t)
    t2.ctx = ast.Load()
    return t2


def _describe(v):
    if isinstance(v, Sym):
        return v.src
    return repr(v)[:40]


def _digest_size(algo):
    """Digest length in bytes of a hashlib algorithm (a constant of the algorithm)."""
    import hashlib as _h
    try:
        return _h.new(algo).digest_size if algo in _h.algorithms_guaranteed and not algo.startswith("shake") else None
    except Exception:  # noqa: BLE001
        return None


def _isnum(v):
    return isinstance(v, (int, float)) and not isinstance(v, bool)


_SYMS: dict = {}
TOKEN_ENDS_EQUAL = {"fn": None}   # installed by the pipeline: token type -> do all its texts begin and end with the same character?
TOKEN_LANGUAGE = {"fn": None}     # installed by the pipeline: (token type, text) -> may the token's text be `text`?
_TMPLS: dict = {}


class IdentKey(str):
    """A dict/set key that is the text of a DSL identifier: equal to (and hashing like) the plain string, but it
    remembers the symbol so that iterating the container gives the identifier back with its provenance."""
    sym = None


def _key(k):
    if isinstance(k, Tmpl):
        if k.is_literal():
            return k.text()
        # text with rendered opaque values in it: equal when built from the same values in the same way (two
        # different literals are treated as different texts)
        kk = ("tmpl", tuple(p_ if isinstance(p_, str) else ("hole", p_.sym.uid, p_.sym.name, p_.render) for p_ in k.parts))
        _TMPLS[kk] = k
        return kk
    if isinstance(k, Sym):
        if k.kind == "ident":
            ik = IdentKey(k.name)
            ik.sym = k
            return ik
        _SYMS[k.uid] = k
        return ("sym", k.uid)
    return k


def _same(a, b) -> bool:
    if isinstance(a, Sym) and isinstance(b, Sym):
        if a.kind == "ident" and b.kind == "ident":
            return a.name == b.name
        return a.uid == b.uid
    if isinstance(a, Tmpl) and isinstance(b, Tmpl):
        return a.parts == b.parts
    if isinstance(a, (Sym, Tmpl)) and isinstance(b, (Sym, Tmpl)):
        s, t = (a, b) if isinstance(a, Sym) else (b, a)
        return s.kind == "ident" and t.is_literal() and t.text() == s.name
    if isinstance(a, EnumVal) or isinstance(b, EnumVal):
        return a == b
    if _isnum(a) and _isnum(b):
        return a == b
    return a is b


def _same_value(a, b) -> bool:
    if isinstance(a, AList) and isinstance(b, AList):
        return a.pytype == b.pytype and len(a.items) == len(b.items) and all(_same_value(x, y) for x, y in zip(a.items, b.items))
    return _same(a, b) or a is b


def _member(x, items) -> bool:
    return any(_same(x, y) for y in items)


def _dedupe(items):
    out = []
    for x in items:
        if not _member(x, out):
            out.append(x)
    return out


def _union_members(ann):
    """Members of a Union[...] / X | Y / Optional[X] annotation, left to right."""
    if isinstance(ann, ast.Subscript):
        base = (dotted(ann.value) or "").split(".")[-1]
        if base == "Union":
            elts = ann.slice.elts if isinstance(ann.slice, ast.Tuple) else [ann.slice]
            out = []
            for e in elts:
                out.extend(_union_members(e))
            return out
        if base == "Optional":
            return _union_members(ann.slice) + [ast.Constant(None)]
    if isinstance(ann, ast.BinOp) and isinstance(ann.op, ast.BitOr):
        return _union_members(ann.left) + _union_members(ann.right)
    if isinstance(ann, ast.Constant) and isinstance(ann.value, str):
        try:
            return _union_members(ast.parse(ann.value, mode="eval").body)
        except SyntaxError:
            return [ann]
    return [ann]


def _ann_name(m) -> str:
    if isinstance(m, ast.Constant):
        if m.value is None:
            return "None"
        if isinstance(m.value, str):
            return m.value
    if isinstance(m, ast.Subscript):
        return (dotted(m.value) or "?").split(".")[-1]
    d = dotted(m)
    return d.split(".")[-1] if d else "?"


def _subscript_arg(m):
    if isinstance(m, ast.Subscript):
        return m.slice
    return None


# ------------------------------------------------------------------ driver with forking
def run_forking(src: Source, fn, max_forks=192):
    """Run `fn(interp)` under every combination of undetermined choices.
    Returns [(assumptions, result-or-signal, interp)]."""
    results = []
    pending = [()]
    while pending:
        ch = pending.pop()
        it = Interp(src, ch)
        try:
            r = fn(it)
            results.append((list(it.assumptions), r, it))
        except NeedChoice:
            pending.append(ch + (True,))
            pending.append(ch + (False,))
        except RaiseSig as e:
            results.append((list(it.assumptions), e, it))
        if len(results) + len(pending) > max_forks:
            raise Unsupported("too many undetermined decisions in the analysed code")
    if os.environ.get("PYAB_FORKSTAT"):
        with open(os.environ["PYAB_FORKSTAT"], "a") as fh:
            fh.write(f"{len(results)}\n")
    return results

"""E2: reconstruct each sly Lexer subclass exactly as sly's metaclass would build it, from the
class body in statement order, without importing anything.

sly semantics encoded here (read from sly/lex.py; `check_sly_anchors` verifies the statements
they were read from are still there, otherwise exit 2):
  * rules are collected in class-dict insertion order (LexerMeta/_collect_rules iterate
    `cls._attributes.items()`); re-binding a name keeps its original position, so a function
    `def ignore_newline` defined after the string `ignore_newline = ...` keeps the string's slot
    and inherits its pattern (LexerMetaDict.__setitem__);
  * a rule is: NAME = str with NAME in `tokens`; ignore_NAME = str; any function carrying a
    pattern (decorated with @_(...) or named like an earlier string);
  * @_(p1, p2) gives the pattern "(p1)|(p2)";
  * the master regex is "|".join("(?P<name>pattern)") in that order, matched with
    `_master_re.match(text, index)`; the token type is `m.lastgroup`;
  * a token function returning a falsy value drops the token; ignore_ rules are dropped;
  * when nothing matches, `self.error(tok)` is called and lexing resumes at `self.index`.
"""
from __future__ import annotations

import ast
import re
from dataclasses import dataclass, field

from .core import AnalysisError
from .srcmodel import Module, Source, dotted, norm, walk_no_nested


@dataclass
class ActionSummary:
    returns_token: bool = False        # some path returns the token parameter
    returns_none: bool = False         # some path returns None / falls off the end
    returns_other: list = field(default_factory=list)
    value_rewrites: list = field(default_factory=list)   # unparsed RHS of t.value = ...
    type_rewrites: list = field(default_factory=list)
    pushes: list = field(default_factory=list)           # state class names
    begins: list = field(default_factory=list)
    pops: int = 0
    self_writes: list = field(default_factory=list)      # attribute names written on self
    other_calls: list = field(default_factory=list)
    raises: bool = False


@dataclass
class Rule:
    name: str
    pattern: str
    kind: str            # 'token' | 'trivia' | 'action'
    func: ast.FunctionDef | None
    node: ast.AST
    site: str
    action: ActionSummary | None = None
    in_tokens: bool = False

    @property
    def emits(self) -> bool:
        """Can this rule hand a token to the parser?"""
        if self.kind == "trivia":
            return False
        if self.func is None:
            return True
        return self.action.returns_token or bool(self.action.returns_other)


@dataclass
class LexerClass:
    name: str
    node: ast.ClassDef
    mod: Module
    tokens: list
    rules: list
    ignore_chars: str
    literals: list
    error_func: ast.FunctionDef | None     # None => sly's default (raises LexError)
    error_owner: str
    remaps: list
    bases: list

    def rule(self, name) -> Rule | None:
        for r in self.rules:
            if r.name == name:
                return r
        return None

    def index(self, name) -> int:
        for i, r in enumerate(self.rules):
            if r.name == name:
                return i
        return -1


_CALL_EVAL = {"fn": None}


def fold_str(node, env: dict):
    """Constant-fold a string expression built from literals, +, f-strings and known names; calls to
    module-level helper functions are evaluated by the abstract interpreter when one is installed."""
    if isinstance(node, ast.Call) and _CALL_EVAL["fn"] is not None:
        r = _CALL_EVAL["fn"](node, env)
        if r is not None:
            return r
    if isinstance(node, ast.Constant) and isinstance(node.value, str):
        return node.value
    if isinstance(node, ast.BinOp) and isinstance(node.op, ast.Add):
        a, b = fold_str(node.left, env), fold_str(node.right, env)
        return None if a is None or b is None else a + b
    if isinstance(node, ast.JoinedStr):
        out = ""
        for v in node.values:
            if isinstance(v, ast.Constant):
                out += str(v.value)
            elif isinstance(v, ast.FormattedValue) and v.conversion == -1 and v.format_spec is None:
                s = fold_str(v.value, env)
                if s is None:
                    return None
                out += s
            else:
                return None
        return out
    if isinstance(node, ast.Name) and node.id in env and isinstance(env[node.id], str):
        return env[node.id]
    return None


def _module_str_env(mod: Module) -> dict:
    env = {}
    for n in mod.tree.body:
        if isinstance(n, ast.Assign) and len(n.targets) == 1 and isinstance(n.targets[0], ast.Name):
            s = fold_str(n.value, env)
            if s is not None:
                env[n.targets[0].id] = s
    return env


def is_lexer_class(src: Source, mod: Module, c: ast.ClassDef, seen=()) -> bool:
    for b in c.bases:
        name = dotted(b)
        if name is None:
            continue
        last = name.split(".")[-1]
        if last == "Lexer":
            m2, node = src.resolve_name(mod, name.split(".")[0])
            if m2 is not None and m2.rel.startswith("sly/"):
                return True
            if isinstance(node, ast.ClassDef) and node.name == "Lexer":
                return True
        if last in mod.classes() and last not in seen:
            if is_lexer_class(src, mod, mod.classes()[last], seen + (c.name,)):
                return True
    return False


def summarise_action(fn: ast.FunctionDef) -> ActionSummary:
    a = ActionSummary()
    params = [x.arg for x in fn.args.args]
    self_name = params[0] if params else "self"
    tok = params[1] if len(params) > 1 else None
    body = ast.Module(body=list(fn.body), type_ignores=[])
    for n in walk_no_nested(body):
        if isinstance(n, ast.Return):
            if n.value is None or (isinstance(n.value, ast.Constant) and n.value.value is None):
                a.returns_none = True
            elif isinstance(n.value, ast.Name) and n.value.id == tok:
                a.returns_token = True
            else:
                a.returns_other.append(norm(n.value))
        elif isinstance(n, ast.Raise):
            a.raises = True
        elif isinstance(n, (ast.Assign, ast.AugAssign, ast.AnnAssign)):
            targets = n.targets if isinstance(n, ast.Assign) else [n.target]
            for t in targets:
                d = dotted(t)
                if d == f"{tok}.value":
                    a.value_rewrites.append(norm(n.value) if not isinstance(n, ast.AugAssign) else norm(n))
                elif d == f"{tok}.type":
                    a.type_rewrites.append(norm(n.value))
                elif d and d.startswith(self_name + "."):
                    a.self_writes.append(d.split(".", 1)[1])
                elif isinstance(t, ast.Subscript) and dotted(t.value) and dotted(t.value).startswith(self_name + "."):
                    a.self_writes.append(dotted(t.value).split(".", 1)[1] + "[]")
        elif isinstance(n, ast.Call):
            d = dotted(n.func)
            if d == f"{self_name}.push_state":
                a.pushes.append(dotted(n.args[0]) if n.args else "?")
            elif d == f"{self_name}.begin":
                a.begins.append(dotted(n.args[0]) if n.args else "?")
            elif d == f"{self_name}.pop_state":
                a.pops += 1
            else:
                a.other_calls.append(d or norm(n.func))
    # falling off the end returns None
    if not _always_leaves(fn.body):
        a.returns_none = True
    return a


def _always_leaves(body) -> bool:
    """Does every path through `body` end in return/raise? (syntactic, conservative)"""
    for st in body:
        if isinstance(st, (ast.Return, ast.Raise)):
            return True
        if isinstance(st, ast.If) and st.orelse and _always_leaves(st.body) and _always_leaves(st.orelse):
            return True
        if isinstance(st, ast.Match):
            has_wild = any(isinstance(c.pattern, ast.MatchAs) and c.pattern.pattern is None and c.guard is None
                           for c in st.cases)
            if has_wild and all(_always_leaves(c.body) for c in st.cases):
                return True
        if isinstance(st, ast.Try) and st.finalbody and _always_leaves(st.finalbody):
            return True
    return False


def _fold_str_list(src: Source, mod: Module, node, env: dict):
    """A constant sequence of strings (`*PATTERNS`, `*(f"{q}.*?{q}" for q in QUOTES)`), evaluated abstractly."""
    from . import absint as A
    try:
        it = A.Interp(src)
        r = it.eval(node, A.Env(mod, {k: A.Tmpl.lit(v) for k, v in env.items() if isinstance(v, str)}))
        items = it.iterate(r, mod.site(node))
        out = []
        for x in items:
            x = x.value if isinstance(x, A._Tagged) else x
            if not (isinstance(x, A.Tmpl) and x.is_literal()):
                return None
            out.append(x.text())
        return out
    except (A.Unsupported, A.RaiseSig, A.NeedChoice, AnalysisError):
        return None


def _install_call_eval(src: Source, mod: Module):
    def ev(call: ast.Call, env: dict):
        from . import absint as A
        name = dotted(call.func)
        if name not in mod.functions():
            # any other constant string expression ("|".join(f(q) for q in QUOTES), re.escape(...)): evaluate it abstractly
            try:
                it = A.Interp(src)
                r = it.eval(call, A.Env(mod, {k: A.Tmpl.lit(v) for k, v in env.items() if isinstance(v, str)}))
                return r.text() if isinstance(r, A.Tmpl) and r.is_literal() else None
            except (A.Unsupported, A.RaiseSig, A.NeedChoice, AnalysisError):
                return None
        it = A.Interp(src)
        # arguments: literals / folded strings / keyword literals
        args, kwargs = [], {}
        for a in call.args:
            s_ = fold_str(a, env)
            if s_ is None:
                return None
            args.append(A.Tmpl.lit(s_))
        for k in call.keywords:
            s_ = fold_str(k.value, env)
            if s_ is None or k.arg is None:
                return None
            kwargs[k.arg] = A.Tmpl.lit(s_)
        try:
            r = it.call(A.FuncVal(mod, mod.functions()[name]), args, kwargs)
        except (A.Unsupported, A.RaiseSig, A.NeedChoice):
            return None
        return r.text() if isinstance(r, A.Tmpl) and r.is_literal() else None
    _CALL_EVAL["fn"] = ev


def extract_lexers(src: Source, rel="language/lexer.py") -> dict[str, LexerClass]:
    mod = src.mod(rel)
    _install_call_eval(src, mod)
    menv = _module_str_env(mod)
    out: dict[str, LexerClass] = {}
    for c in mod.tree.body:
        if isinstance(c, ast.ClassDef) and is_lexer_class(src, mod, c):
            out[c.name] = _extract_class(src, mod, c, menv, out)
    if not out:
        raise AnalysisError(f"no sly Lexer subclass found in {rel}")
    return out


def _extract_class(src, mod: Module, c: ast.ClassDef, menv: dict, done: dict) -> LexerClass:
    env = dict(menv)
    order: list[str] = []            # class-dict insertion order
    binding: dict[str, tuple] = {}   # name -> ('str', pattern, node) | ('func', fn, pattern or None)
    tokens: list[str] = []
    ignore_chars, literals = "", []
    remaps, deletes, before = [], [], {}
    reflags = None

    base_rules: list[Rule] = []
    base_tokens: list[str] = []
    bases = []
    inherited_error = (None, "sly.Lexer")
    for b in c.bases:
        bn = (dotted(b) or "").split(".")[-1]
        bases.append(bn)
        if bn in done:
            base_rules.extend(done[bn].rules)
            base_tokens.extend(done[bn].tokens)
            inherited_error = (done[bn].error_func, done[bn].error_owner)

    def bind(name, val):
        if name not in binding:
            order.append(name)
        binding[name] = val

    for st in c.body:
        if isinstance(st, ast.Expr) and isinstance(st.value, ast.Constant):
            continue  # docstring
        if isinstance(st, ast.Pass):
            continue
        if isinstance(st, ast.Assign) and len(st.targets) == 1:
            t = st.targets[0]
            if isinstance(t, ast.Name):
                name = t.id
                if name == "tokens":
                    tokens = _token_names(st.value, seqs=module_str_seqs(mod))
                    continue
                if name == "ignore":
                    s = fold_str(st.value, env)
                    if s is None:
                        raise AnalysisError(f"{c.name}.ignore is not a constant string")
                    ignore_chars = s
                    continue
                if name == "literals":
                    literals = _token_names(st.value, allow_str=True)
                    continue
                if name == "reflags":
                    reflags = norm(st.value)
                    continue
                if isinstance(st.value, ast.Call) and dotted(st.value.func) == "before" and len(st.value.args) == 2:
                    pat = fold_str(st.value.args[1], env)
                    if pat is None:
                        raise AnalysisError(f"{c.name}.{name}: before(...) pattern is not constant")
                    before[name] = dotted(st.value.args[0])
                    bind(name, ("str", pat, st))
                    env[name] = pat
                    continue
                s = fold_str(st.value, env)
                if s is not None:
                    prior = binding.get(name)
                    if prior is not None and prior[0] == "str":
                        raise AnalysisError(f"{c.name}.{name} redefined (sly raises AttributeError)")
                    bind(name, ("str", s, st))
                    env[name] = s
                    continue
                if name.isupper() or name.startswith("ignore_"):
                    raise AnalysisError(
                        f"{c.name}.{name}: pattern expression not understood: {norm(st.value)}")
                continue  # some other class attribute
            if isinstance(t, ast.Subscript) and isinstance(t.value, ast.Name):
                key = t.slice.value if isinstance(t.slice, ast.Constant) else None
                # sly accepts the new type as a name (a string-valued class attribute) or as a string
                new_t = st.value.value if isinstance(st.value, ast.Constant) and isinstance(st.value.value, str) else dotted(st.value)
                remaps.append((t.value.id, key, new_t))
                continue
            raise AnalysisError(f"{c.name}: class-body statement not understood: {norm(st)}")
        if isinstance(st, ast.AnnAssign):
            continue
        if isinstance(st, ast.Delete):
            for t in st.targets:
                if isinstance(t, ast.Name):
                    deletes.append(t.id)
                elif isinstance(t, ast.Subscript) and isinstance(t.value, ast.Name):
                    remaps.append((t.value.id, getattr(t.slice, "value", None), t.value.id))
            continue
        if isinstance(st, ast.FunctionDef) and st.name in ("tokenize", "begin", "push_state", "pop_state", "__init__", "__new__"):
            raise AnalysisError(f"{c.name} overrides the runtime's {st.name}(): the text or the state handling is changed outside the "
                                "rule table the lexer model is built from")
        if isinstance(st, ast.FunctionDef):
            pats = []
            other_deco = False
            for d in st.decorator_list:
                if isinstance(d, ast.Call) and dotted(d.func) == "_":
                    for a in d.args:
                        if isinstance(a, ast.Starred):
                            many = _fold_str_list(src, mod, a.value, env)
                            if many is None:
                                raise AnalysisError(f"{c.name}.{st.name}: @_ pattern is not constant")
                            pats.extend(many)
                            continue
                        s = fold_str(a, env)
                        if s is None:
                            raise AnalysisError(f"{c.name}.{st.name}: @_ pattern is not constant")
                        pats.append(s)
                else:
                    other_deco = True
            if other_deco and pats:
                raise AnalysisError(f"{c.name}.{st.name}: extra decorator on a token rule")
            pattern = "|".join(f"({p})" for p in pats) if pats else None
            prior = binding.get(st.name)
            if prior is not None and prior[0] == "str":
                pattern = prior[1]        # LexerMetaDict.__setitem__: value.pattern = prior
            bind(st.name, ("func", st, pattern))
            continue
        if isinstance(st, (ast.ClassDef, ast.Import, ast.ImportFrom, ast.If)):
            raise AnalysisError(f"{c.name}: class-body statement not understood: {type(st).__name__}")
        raise AnalysisError(f"{c.name}: class-body statement not understood: {norm(st)}")

    ascii_flag = reflags in ("re.ASCII", "re.A")
    if reflags not in (None, "0") and not ascii_flag:
        raise AnalysisError(f"{c.name}.reflags = {reflags}: regex flags are not supported")

    token_names = set(base_tokens) | set(tokens)
    rules: list[Rule] = list(base_rules)

    def mk(name):
        kind_, a, b = binding[name]
        if kind_ == "str":
            node, func, pattern = b, None, a
        else:
            node, func, pattern = a, a, b
        kind = "trivia" if name.startswith("ignore_") else ("action" if func is not None else "token")
        r = Rule(name, pattern, kind, func, node, mod.site(node), in_tokens=name in token_names)
        if func is not None:
            r.action = summarise_action(func)
        return r

    for name in order:
        kind_, a, b = binding[name]
        is_rule = (name in token_names) or name.startswith("ignore_") or (kind_ == "func" and b is not None)
        if not is_rule:
            continue
        if kind_ == "func" and b is None:
            raise AnalysisError(f"{c.name}.{name}: function has no regex pattern (sly LexerBuildError)")
        r = mk(name)
        existing = [x.name for x in rules]
        if name in existing:
            rules[existing.index(name)] = r
        elif kind_ == "str" and name in before and before[name] in existing:
            rules.insert(existing.index(before[name]), r)
        else:
            rules.append(r)
    rules = [r for r in rules if r.name not in deletes]
    if ascii_flag:
        # the master pattern of this class is compiled with re.ASCII: \d \s \w \b of every rule (inherited ones too) are ASCII-only
        import copy as _copy
        scoped = []
        for r in rules:
            r2 = _copy.copy(r)
            if not r2.pattern.startswith("(?a:"):
                r2.pattern = f"(?a:{r2.pattern})"
            scoped.append(r2)
        rules = scoped

    if ignore_chars:
        # sly tests `text[index] in ignore` before it tries the master regex and skips that one character: the same as a silent
        # one-character rule in front of all others
        import re as _re
        cls_pat = "[" + "".join(_re.escape(ch) if ch in "\\]^-[" else ch for ch in ignore_chars) + "]"
        node0 = next((st for st in c.body if isinstance(st, ast.Assign) and any(isinstance(t, ast.Name) and t.id == "ignore" for t in st.targets)), c)
        rules = [Rule("ignore", cls_pat, "trivia", None, node0, mod.site(node0))] + [r for r in rules if r.name != "ignore"]
    ef = None
    for st in c.body:
        if isinstance(st, ast.FunctionDef) and st.name == "error":
            ef = st
    if ef is not None:
        error_func, owner = ef, c.name
    else:
        error_func, owner = inherited_error

    return LexerClass(c.name, c, mod, sorted(token_names), rules, ignore_chars, literals,
                      error_func, owner, remaps, bases)


def module_str_seqs(mod) -> dict:
    """Module-level names bound to a tuple / list / set display of string constants (token-name groups)."""
    out = {}
    for st in mod.tree.body:
        val = None
        if isinstance(st, ast.Assign) and len(st.targets) == 1 and isinstance(st.targets[0], ast.Name):
            name, val = st.targets[0].id, st.value
        elif isinstance(st, ast.AnnAssign) and isinstance(st.target, ast.Name) and st.value is not None:
            name, val = st.target.id, st.value
        if isinstance(val, (ast.Tuple, ast.List, ast.Set)) and val.elts and all(isinstance(e, ast.Constant) and isinstance(e.value, str) for e in val.elts):
            out[name] = [e.value for e in val.elts]
    return out


def _token_names(node, allow_str=False, seqs=None) -> list[str]:
    if isinstance(node, (ast.Set, ast.List, ast.Tuple)):
        out = []
        for e in node.elts:
            if isinstance(e, ast.Starred) and isinstance(e.value, ast.Name) and seqs and e.value.id in seqs:
                out.extend(seqs[e.value.id])
            elif isinstance(e, ast.Name):
                out.append(e.id)
            elif isinstance(e, ast.Constant) and isinstance(e.value, str):
                out.append(e.value)
            else:
                raise AnalysisError(f"token set element not understood: {norm(e)}")
        return out
    if isinstance(node, ast.Call) and dotted(node.func) == "set" and not node.args:
        return []
    raise AnalysisError(f"tokens/literals expression not understood: {norm(node)}")


# ------------------------------------------------------------------ anchors in the vendored sly
SLY_LEX_ANCHORS = [
    # (function, normalised statement text that must occur in it, what it guarantees)
    ("Lexer._collect_rules", "for key, value in cls._attributes.items():",
     "rules are taken in class-dict insertion order"),
    ("Lexer._collect_rules", "rules.append((key, value))", "new rules are appended in that order"),
    ("Lexer._build", "part = f'(?P<{tokname}>{pattern})'", "one named group per rule"),
    ("Lexer._build", "cls._master_re = cls.regex_module.compile('|'.join(parts), cls.reflags)",
     "master regex is the ordered alternation"),
    ("Lexer.tokenize", r"re:m = [\w.]*master_(re\.)?match\(text, index\)",
     "match at the current index (the pattern or its bound match method may be held in a local or in a record)"),
    ("Lexer.tokenize", "tok.type = m.lastgroup", "token type = the alternative that matched"),
    ("Lexer.tokenize", "tok = self.error(tok)", "error() is called when nothing matches"),
    ("Lexer.tokenize", "index = self.index", "lexing resumes where error()/actions leave self.index"),
    ("LexerMetaDict.__setitem__", "value.pattern = prior", "a function named like an earlier string inherits its pattern"),
    ("Lexer.error", "raise LexError(f'Illegal character {t.value[0]!r} at index {self.index}', t.value, self.index)",
     "the default error() raises"),
    ("Lexer.push_state", "self.__state_stack.append(type(self))", "push_state saves the current state"),
    ("Lexer.pop_state", "self.begin(self.__state_stack.pop())", "pop_state restores it"),
]


def check_sly_anchors(src: Source, anchors=SLY_LEX_ANCHORS, rel="sly/lex.py") -> int:
    mod = src.mod(rel)
    n = 0
    for qual, text, why in anchors:
        cls, _, meth = qual.partition(".")
        fn = mod.get_method(cls, meth)
        want = " ".join(text.split())
        found = False
        rx_ = re.compile(want[3:]) if want.startswith("re:") else None
        for st in ast.walk(fn):
            if isinstance(st, ast.stmt):
                t = norm(st)
                if (rx_.fullmatch(t) is not None) if rx_ is not None else (t == want or t.startswith(want)):
                    found = True
                    break
        if not found:
            from .core import AnchorError
            raise AnchorError(
                f"vendored sly changed: {rel}:{qual} no longer contains `{text}` ({why}); "
                "the lexer model must be re-derived")
        n += 1
    if rel == "sly/lex.py" and anchors is SLY_LEX_ANCHORS:
        # the model describes ONE consumer of the input: the master regex.  A second way of advancing over the text
        # (another regex matched against it, str.find/index/startswith on it) is outside the model.
        tok = mod.get_method("Lexer", "tokenize")
        consumers = []
        for c in ast.walk(tok):
            if isinstance(c, ast.Call) and isinstance(c.func, ast.Attribute) and c.func.attr in (
                    "match", "search", "fullmatch", "finditer", "scanner", "find", "index", "startswith", "partition", "split"):
                if any(isinstance(a_, ast.Name) and a_.id in ("text", "index") for a_ in c.args) or dotted(c.func.value) in ("text", "self.text"):
                    consumers.append(norm(c))
            elif isinstance(c, ast.Call) and isinstance(c.func, ast.Name) and "match" in c.func.id and any(
                    isinstance(a_, ast.Name) and a_.id == "text" for a_ in c.args):
                consumers.append(norm(c))        # a bound match method kept in a local
        if len(consumers) != 1:
            raise AnalysisError(f"vendored sly changed: {rel}:Lexer.tokenize advances over the text in {len(consumers)} ways "
                                f"({'; '.join(x[:50] for x in consumers)}); the lexer model knows the master regex only")
    return n

"""E7: statement-level path enumeration, may-raise classification, state-write classification.

The functions analysed here are small (a handful of branches), so instead of a graph with
dominators every *path* through the structured body is enumerated, with a light feasibility
filter on simple tests of unassigned names (x, not x, x is None, x is not None, x == const).
Loops are unrolled 0 and 1 times.  A `try` body statement that may raise gets an extra path
into each handler that may catch.
"""
from __future__ import annotations

import ast
from dataclasses import dataclass, field

from .core import AnalysisError
from .srcmodel import dotted, norm


@dataclass
class Path:
    events: list            # ast.stmt, or ('test', expr, bool), or ('exc', stmt), ('enter', helper, call), ('leave', helper)
    exit: str               # 'return' | 'raise' | 'fall'
    exit_node: object = None
    facts: dict = field(default_factory=dict)

    def stmts(self):
        return [e for e in self.events if isinstance(e, ast.AST)]

    def expanded_stmts(self):
        """ids of caller statements whose helper calls were expanded right before them (their raising behaviour
        is already represented by the spliced helper paths)."""
        out = set()
        prev_leave = False
        for e in self.events:
            if isinstance(e, tuple) and e[0] == "leave":
                prev_leave = True
                continue
            if prev_leave and isinstance(e, ast.AST):
                out.add(id(e))
            prev_leave = False
        return out

    def own_stmts(self):
        """Statements of the analysed function itself (not those spliced in from helpers)."""
        out, depth = [], 0
        for e in self.events:
            if isinstance(e, tuple) and e[0] == "enter":
                depth += 1
            elif isinstance(e, tuple) and e[0] == "leave":
                depth -= 1
            elif isinstance(e, ast.AST) and depth == 0:
                out.append(e)
        return out


class _Exit(Exception):
    pass


RISKY_ATTRS: set = set()      # names of properties of the package whose body can raise (filled by the rule that knows the source)


def risky_properties(modules) -> set:
    """Attribute names that are properties (property / cached_property) of a class of the package and whose body contains a
    `raise`, a division or a modulo outside any try: reading such an attribute is a point where the reader can fail."""
    out = set()
    for m in modules:
        for c in m.classes().values():
            for f in c.body:
                if not isinstance(f, (ast.FunctionDef,)):
                    continue
                decos = {(d.attr if isinstance(d, ast.Attribute) else getattr(d, "id", None)) for d in f.decorator_list}
                if not decos & {"property", "cached_property"}:
                    continue
                guarded = {id(x) for t in ast.walk(f) if isinstance(t, ast.Try) for b in t.body for x in ast.walk(b)}
                for x in ast.walk(f):
                    if id(x) in guarded:
                        continue
                    if isinstance(x, ast.Raise) or (isinstance(x, ast.BinOp) and isinstance(x.op, (ast.Div, ast.FloorDiv, ast.Mod))
                                                    and not isinstance(x.left, ast.Constant)):
                        out.add(f.name)
                        break
    return out


def may_raise_expr(e) -> bool:
    """Conservative: calls, subscript loads, await/yield, division may raise; names, constants,
    attribute loads, displays, boolean/compare operators on those do not - except the load of an attribute that is a property of
    the package whose body can raise (RISKY_ATTRS)."""
    if e is None:
        return False
    for n in ast.walk(e):
        if isinstance(n, ast.Attribute) and isinstance(n.ctx, ast.Load) and n.attr in RISKY_ATTRS:
            return True
        if isinstance(n, ast.Call) and is_benign_call(n):
            continue
        if isinstance(n, (ast.Call, ast.Await, ast.Yield, ast.YieldFrom)):
            return True
        if isinstance(n, ast.Subscript) and isinstance(n.ctx, ast.Load):
            return True
        if isinstance(n, ast.BinOp) and isinstance(n.op, (ast.Div, ast.FloorDiv, ast.Mod, ast.Pow)):
            return True
    return False


BENIGN_PREFIXES = ("logging.", "logger.", "log.", "_logger.", "_log.", "LOGGER.", "LOG.", "warnings.warn", "self.logger.", "self._logger.",
                   "self.log.", "self._log.")
BENIGN_NAMES = {"print", "len", "isinstance", "repr", "str", "id", "type", "bool", "callable", "hasattr"}


def is_benign_call(n: ast.Call) -> bool:
    """Calls that emit diagnostics or are total on any argument: they do not count as a point where a compile can
    fail (a log handler that raises is swallowed by logging itself)."""
    d = dotted(n.func) or ""
    if d in BENIGN_NAMES and all(isinstance(a, (ast.Name, ast.Constant, ast.Attribute)) for a in n.args):
        return True
    return any(d.startswith(p) for p in BENIGN_PREFIXES)


def is_diagnostic_stmt(st) -> bool:
    return isinstance(st, ast.Expr) and isinstance(st.value, ast.Call) and (
        any((dotted(st.value.func) or "").startswith(p) for p in BENIGN_PREFIXES) or dotted(st.value.func) == "print")


def may_raise_stmt(st) -> bool:
    if isinstance(st, ast.Raise):
        return True
    if isinstance(st, (ast.Assert, ast.Import, ast.ImportFrom, ast.With, ast.Delete)):
        return True
    if isinstance(st, (ast.Assign, ast.AnnAssign, ast.AugAssign)):
        tg = st.targets if isinstance(st, ast.Assign) else [st.target]
        if any(isinstance(t, ast.Subscript) for t in tg):
            return True
        return may_raise_expr(st.value) or any(may_raise_expr(t) for t in tg if not isinstance(t, ast.Name))
    if isinstance(st, ast.Expr):
        return may_raise_expr(st.value)
    if isinstance(st, ast.Return):
        return may_raise_expr(st.value)
    if isinstance(st, (ast.Pass, ast.Break, ast.Continue, ast.Global, ast.Nonlocal)):
        return False
    if isinstance(st, (ast.FunctionDef, ast.ClassDef)):
        return bool(st.decorator_list)
    return True


def _fact_of(test, truth: bool):
    """(name, fact) implied by `test` being `truth`, for simple shapes; else None."""
    if isinstance(test, ast.UnaryOp) and isinstance(test.op, ast.Not):
        return _fact_of(test.operand, not truth)
    if isinstance(test, ast.Name):
        return (test.id, "truthy" if truth else "falsy")
    if isinstance(test, ast.Compare) and len(test.ops) == 1 and isinstance(test.left, ast.Name):
        op, right = test.ops[0], test.comparators[0]
        if isinstance(right, ast.Constant) and right.value is None:
            if isinstance(op, ast.Is):
                return (test.left.id, "none" if truth else "notnone")
            if isinstance(op, ast.IsNot):
                return (test.left.id, "notnone" if truth else "none")
        if isinstance(right, ast.Constant) and isinstance(op, (ast.Eq, ast.NotEq)):
            eq = truth if isinstance(op, ast.Eq) else not truth
            return (test.left.id, ("eq", repr(right.value)) if eq else ("ne", repr(right.value)))
    return None


def _consistent(old, new) -> bool:
    if old is None:
        return True
    pairs = {("truthy", "falsy"), ("none", "notnone"), ("truthy", "none")}
    if (old, new) in pairs or (new, old) in pairs:
        return False
    if isinstance(old, tuple) and isinstance(new, tuple):
        if old[0] == "eq" and new[0] == "eq" and old[1] != new[1]:
            return False
        if {old[0], new[0]} == {"eq", "ne"} and old[1] == new[1]:
            return False
    return True


def enumerate_paths(fn: ast.FunctionDef, max_paths=20000, resolver=None, _depth=0, _memo=None) -> list[Path]:
    """resolver(call) -> FunctionDef | None makes the enumeration interprocedural: a simple statement (or return)
    that calls a resolvable helper is expanded with every path of the helper (events spliced in between
    ('enter', helper, call) and ('leave', helper); a raising helper path raises here).  Facts about names passed as
    arguments are carried into and out of the helper."""
    out: list[Path] = []
    _memo = {} if _memo is None else _memo

    def helper_calls(st):
        """Resolvable helper calls of a statement in evaluation order (arguments before the call)."""
        if resolver is None or _depth >= 3:
            return []
        found = []

        def visit(n):
            for ch in ast.iter_child_nodes(n):
                visit(ch)
            if isinstance(n, ast.Call):
                f = resolver(n)
                if f is not None and f is not fn:
                    found.append((f, n))
        visit(st)
        return found

    def helper_call(st):
        hc = helper_calls(st)
        return hc[0] if hc else (None, None)

    def callee_paths(f):
        if id(f) not in _memo:
            _memo[id(f)] = enumerate_paths(f, max_paths, resolver, _depth + 1, _memo)
        return _memo[id(f)]

    def arg_map(f, call):
        params = [a.arg for a in f.args.args]
        if params and params[0] in ("self", "cls") and isinstance(call.func, ast.Attribute):
            params = params[1:]
        m = {}
        for p_, a_ in zip(params, call.args):
            if isinstance(a_, ast.Name):
                m[p_] = a_.id
        for k_ in call.keywords:
            if k_.arg and isinstance(k_.value, ast.Name):
                m[k_.arg] = k_.value.id
        return m

    def assigned_names(st):
        names = set()
        for n in ast.walk(st):
            if isinstance(n, ast.Name) and isinstance(n.ctx, (ast.Store, ast.Del)):
                names.add(n.id)
        return names

    def run(stmts, events, facts, handlers, k):
        """Continue with statement list `stmts`; k(events, facts) is the continuation."""
        if len(out) > max_paths:
            raise AnalysisError(f"too many paths in {fn.name}")
        if not stmts:
            return k(events, facts)
        st, rest = stmts[0], stmts[1:]

        def nxt(ev, fc):
            return run(rest, ev, fc, handlers, k)

        def implicit_raise(node, ev, fc):
            # an exception raised by `node`: goes to the innermost handlers, else leaves the function
            if handlers:
                handlers[-1](ev + [("exc", node)], fc, None)
            else:
                out.append(Path(ev + [("exc", node)], "raise", node, dict(fc)))

        def expand(f, call, ev, fc, after):
            """Splice the helper's paths; `after(ev, fc)` continues in the caller for returning paths."""
            amap = arg_map(f, call)
            for cp in callee_paths(f):
                # entering facts must be consistent with what the helper's path assumed about its parameters
                if any(not _consistent(fc.get(a_), cp.facts.get(p_)) for p_, a_ in amap.items() if cp.facts.get(p_) is not None
                       and fc.get(a_) is not None):
                    continue
                ev2 = ev + [("enter", f, call)] + list(cp.events)
                if cp.exit == "raise":
                    name = None
                    if isinstance(cp.exit_node, ast.Raise) and cp.exit_node.exc is not None:
                        e_ = cp.exit_node.exc.func if isinstance(cp.exit_node.exc, ast.Call) else cp.exit_node.exc
                        name = dotted(e_)
                    if handlers:
                        handlers[-1](ev2, fc, name)
                    else:
                        out.append(Path(ev2, "raise", cp.exit_node, dict(fc)))
                    continue
                fc2 = dict(fc)
                stored = {n.id for e_ in cp.events if isinstance(e_, ast.AST) for n in ast.walk(e_)
                          if isinstance(n, ast.Name) and isinstance(n.ctx, ast.Store)}
                for p_, a_ in amap.items():
                    if p_ not in stored and cp.facts.get(p_) is not None:
                        fc2[a_] = cp.facts[p_]
                # nullness of the returned value, for `x = helper(...)`
                rf = None
                if cp.exit == "return" and isinstance(cp.exit_node, ast.Return):
                    rv = cp.exit_node.value
                    if rv is None or (isinstance(rv, ast.Constant) and rv.value is None):
                        rf = "none"
                    elif isinstance(rv, ast.Name):
                        rf = cp.facts.get(rv.id)
                    elif isinstance(rv, (ast.Call, ast.List, ast.Dict, ast.Tuple, ast.Set, ast.JoinedStr, ast.ListComp, ast.Constant)):
                        rf = "notnone" if not isinstance(rv, ast.Call) or dotted(rv.func) in ("list", "tuple", "dict", "set", "str", "int", "float", "sorted") else None
                elif cp.exit == "fall":
                    rf = "none"
                fc2["__ret__"] = (id(call), rf)
                after(ev2 + [("leave", f)], fc2)

        def expand_all(calls, ev, fc, after):
            if not calls:
                return after(ev, fc)
            (f0, c0), more = calls[0], calls[1:]
            return expand(f0, c0, ev, fc, lambda e2, f2: expand_all(more, e2, f2, after))

        if isinstance(st, ast.Return):
            hcs = helper_calls(st)
            if hcs:
                def fin(ev, fc):
                    out.append(Path(ev + [st], "return", st, {k_: v for k_, v in fc.items() if k_ != "__ret__"}))
                expand_all(hcs, events, facts, fin)
                return
            if handlers and may_raise_expr(st.value):
                implicit_raise(st, events, facts)
            out.append(Path(events + [st], "return", st, dict(facts)))
            return
        if isinstance(st, ast.Raise):
            name = None
            if st.exc is not None:
                e = st.exc.func if isinstance(st.exc, ast.Call) else st.exc
                name = dotted(e)
            if handlers:
                handlers[-1](events + [st], facts, name)
            else:
                out.append(Path(events + [st], "raise", st, dict(facts)))
            return
        if isinstance(st, ast.If):
            for truth, body in ((True, st.body), (False, st.orelse)):
                f = _fact_of(st.test, truth)
                fc = dict(facts)
                if f is not None:
                    if not _consistent(fc.get(f[0]), f[1]):
                        continue
                    fc[f[0]] = f[1]
                if isinstance(st.test, ast.Constant):
                    if bool(st.test.value) != truth:
                        continue
                if handlers and may_raise_expr(st.test):
                    implicit_raise(st, events, facts)
                run(list(body) + rest, events + [("test", st.test, truth)], fc, handlers, k)
            return
        if isinstance(st, ast.Match):
            wild = False
            for case in st.cases:
                run(list(case.body) + rest, events + [("case", st.subject, case.pattern)], dict(facts), handlers, k)
                if isinstance(case.pattern, ast.MatchAs) and case.pattern.pattern is None and case.guard is None:
                    wild = True
            if not wild:
                nxt(events + [("case", st.subject, None)], dict(facts))
            return
        if isinstance(st, (ast.For, ast.While)):
            fc = dict(facts)
            for nme in assigned_names(st):
                fc.pop(nme, None)
            # zero iterations
            if not (isinstance(st, ast.While) and isinstance(st.test, ast.Constant) and st.test.value):
                run(list(st.orelse) + rest, events + [("loop0", st)], dict(fc), handlers, k)
            # one iteration (break/continue end the iteration)
            body = [s for s in st.body]
            run(body + list(st.orelse) + rest, events + [("loop1", st)], dict(fc), handlers, k)
            return
        if isinstance(st, (ast.Break, ast.Continue)):
            return nxt(events + [st], facts)
        if isinstance(st, ast.With):
            # the event is the `with` header alone: its body follows as events of its own
            head = ast.copy_location(ast.With(items=st.items, body=[ast.copy_location(ast.Pass(), st)], type_comment=None), st)
            return run(list(st.body) + rest, events + [head], facts, handlers, k)
        if isinstance(st, ast.Try):
            def after_try(ev, fc):
                return run(list(st.orelse) + list(st.finalbody) + rest, ev, fc, handlers, k)

            def handler(ev, fc, excname):
                caught = False
                for h in st.handlers:
                    names = None
                    if h.type is not None:
                        names = [dotted(e) for e in (h.type.elts if isinstance(h.type, ast.Tuple) else [h.type])]
                    may = names is None or excname is None or any(
                        n and n.split(".")[-1] in (excname.split(".")[-1], "Exception", "BaseException") for n in names)
                    if may:
                        run(list(h.body) + list(st.finalbody) + rest, ev + [("except", h)], dict(fc), handlers, k)
                    if names is None or any(n in ("Exception", "BaseException") for n in names if n):
                        caught = True
                        break
                if not caught:
                    if handlers:
                        handlers[-1](ev, fc, excname)
                    else:
                        out.append(Path(ev, "raise", st, dict(fc)))
            return run(list(st.body), events, facts, handlers + [handler], after_try)
        # simple statement
        names = assigned_names(st)
        hcs = helper_calls(st)
        if hcs:
            def cont(ev, fc):
                fc3 = {k_: v for k_, v in fc.items() if k_ not in names and k_ != "__ret__"}
                ret = fc.get("__ret__")
                if ret and ret[1] and isinstance(st, ast.Assign) and len(st.targets) == 1 and isinstance(st.targets[0], ast.Name) \
                        and isinstance(st.value, ast.Call) and id(st.value) == ret[0]:
                    fc3[st.targets[0].id] = ret[1]
                return nxt(ev + [st], fc3)
            expand_all(hcs, events, facts, cont)
            return
        fc = facts
        if names:
            fc = {k_: v for k_, v in facts.items() if k_ not in names}
        if handlers and may_raise_stmt(st):
            implicit_raise(st, events, facts)
        return nxt(events + [st], fc)

    def done(events, facts):
        out.append(Path(events, "fall", None, dict(facts)))

    run(list(fn.body), [], {}, [], done)
    return out


# ------------------------------------------------------------------ write classification
def classify_write(target, self_name="self", class_names=(), module_globals=(), declared_global=()):
    """Classify an assignment target: ('instance', attr) | ('class', text) | ('module', name) |
    ('local', name) | ('shared-mutable', text) | ('other', text)."""
    if isinstance(target, ast.Name):
        if target.id in declared_global:
            return ("module", target.id)
        return ("local", target.id)
    if isinstance(target, ast.Attribute):
        base = target.value
        d = dotted(base)
        if d == self_name:
            return ("instance", target.attr)
        if d in class_names or d == "cls" or d == f"{self_name}.__class__":
            return ("class", norm(target))
        if isinstance(base, ast.Call) and dotted(base.func) == "type":
            return ("class", norm(target))
        if d and d.split(".")[0] in module_globals:
            return ("module", norm(target))
        if d and d.startswith(self_name + "."):
            return ("instance-nested", norm(target))
        return ("other", norm(target))
    if isinstance(target, ast.Subscript):
        d = dotted(target.value)
        if d and d.startswith(self_name + "."):
            return ("instance-container", norm(target))
        if d and (d.split(".")[0] in module_globals or d.split(".")[0] in class_names or d.split(".")[0] == "cls"):
            return ("module" if d.split(".")[0] in module_globals else "class", norm(target))
        if isinstance(target.value, ast.Name):
            return ("local-container", target.value.id)
        return ("other", norm(target))
    return ("other", norm(target))


MUTATORS = {"append", "extend", "insert", "pop", "remove", "sort", "reverse", "clear", "update",
            "add", "discard", "setdefault", "popitem", "__setitem__", "__delitem__", "appendleft",
            "cache_clear"}

"""E1 source model: parse every module of pyab_experiment once, index classes, functions and
imports, resolve anchors and fail closed (AnalysisError) when one is missing.

Nothing here imports pyab_experiment; everything is `ast` over the files under <root>/src.
"""
from __future__ import annotations

import ast
from dataclasses import dataclass, field
from pathlib import Path

from .core import PKG, AnalysisError, Report


@dataclass
class Module:
    rel: str                 # path relative to the package, e.g. "language/lexer.py"
    dotted: str              # pyab_experiment.language.lexer
    path: Path
    text: str
    tree: ast.Module
    imports: dict = field(default_factory=dict)   # local name -> (module dotted, attr or None)

    def site(self, node) -> str:
        return f"{PKG}/{self.rel}:{getattr(node, 'lineno', 0)}"

    def classes(self) -> dict:
        return {n.name: n for n in self.tree.body if isinstance(n, ast.ClassDef)}

    def functions(self) -> dict:
        return {n.name: n for n in self.tree.body
                if isinstance(n, (ast.FunctionDef, ast.AsyncFunctionDef))}

    def get_class(self, name) -> ast.ClassDef:
        c = self.classes().get(name)
        if c is None:
            raise AnalysisError(f"anchor vanished: class {name} not found in {self.rel}")
        return c

    def get_function(self, name) -> ast.FunctionDef:
        f = self.functions().get(name)
        if f is None:
            raise AnalysisError(f"anchor vanished: function {name} not found in {self.rel}")
        return f

    def get_method(self, cls, name, required=True):
        c = self.get_class(cls) if isinstance(cls, str) else cls
        found = None
        for n in c.body:
            if isinstance(n, (ast.FunctionDef, ast.AsyncFunctionDef)) and n.name == name:
                found = n   # the last definition wins, as in Python
        if found is None and required:
            raise AnalysisError(f"anchor vanished: method {c.name}.{name} not found in {self.rel}")
        return found


class Source:
    def __init__(self, root: Path, rep: Report | None = None):
        self.root = Path(root)
        self.pkgdir = self.root / PKG
        if not self.pkgdir.is_dir():
            raise AnalysisError(f"package directory {self.pkgdir} not found")
        self.modules: dict[str, Module] = {}
        self.rep = rep
        for p in sorted(self.pkgdir.rglob("*.py")):
            rel = p.relative_to(self.pkgdir).as_posix()
            text = p.read_text(encoding="utf-8")
            try:
                tree = ast.parse(text, filename=str(p))
            except SyntaxError as e:
                raise AnalysisError(f"{rel} does not parse: {e}") from e
            dotted = "pyab_experiment." + rel[:-3].replace("/", ".")
            if dotted.endswith(".__init__"):
                dotted = dotted[: -len(".__init__")]
            m = Module(rel, dotted, p, text, tree)
            m.imports = _imports(m)
            self.modules[rel] = m

    def mod(self, rel: str) -> Module:
        m = self.modules.get(rel)
        if m is None:
            raise AnalysisError(f"anchor vanished: module {rel} not found")
        if self.rep is not None:
            self.rep.file(f"{PKG}/{rel}", m.text)
        return m

    def by_dotted(self, dotted: str) -> Module | None:
        for m in self.modules.values():
            if m.dotted == dotted:
                return m
        return None

    def own_modules(self):
        """Package modules outside the vendored sly runtime."""
        return [m for r, m in self.modules.items() if not r.startswith("sly/")]

    def resolve_name(self, mod: Module, name: str, depth=0):
        """Resolve a module-level name to (Module, defining node) following `from x import y`
        chains inside the package; returns (None, ('ext', module, attr)) for external names."""
        if depth > 8:
            return None, None
        for n in mod.tree.body:
            if isinstance(n, (ast.FunctionDef, ast.ClassDef, ast.AsyncFunctionDef)) and n.name == name:
                return mod, n
            if isinstance(n, ast.Assign):
                for t in n.targets:
                    if isinstance(t, ast.Name) and t.id == name:
                        return mod, n
            if isinstance(n, ast.AnnAssign) and isinstance(n.target, ast.Name) and n.target.id == name:
                return mod, n
        if name in mod.imports:
            src, attr = mod.imports[name]
            target = self.by_dotted(src)
            if target is None:
                # `from pkg import submodule`
                if attr and self.by_dotted(f"{src}.{attr}") is not None:
                    return self.by_dotted(f"{src}.{attr}"), None
                return None, ("ext", src, attr)
            if attr is None:
                return target, None
            # star re-exports (sly/__init__)
            r = self.resolve_name(target, attr, depth + 1)
            if r == (None, None):
                for s in target.imports.get("*", []):
                    t2 = self.by_dotted(s)
                    if t2 is not None:
                        r = self.resolve_name(t2, attr, depth + 1)
                        if r != (None, None):
                            return r
            return r
        return None, None


def _imports(m: Module) -> dict:
    out: dict = {}
    pkg_parts = m.dotted.split(".")
    is_pkg = m.rel.endswith("__init__.py")
    for n in ast.walk(m.tree):
        if isinstance(n, ast.Import):
            for a in n.names:
                out[a.asname or a.name.split(".")[0]] = (a.name, None)
        elif isinstance(n, ast.ImportFrom):
            base = n.module or ""
            if n.level:
                anchor = pkg_parts if is_pkg else pkg_parts[:-1]
                anchor = anchor[: len(anchor) - (n.level - 1)]
                base = ".".join(anchor + ([n.module] if n.module else []))
            for a in n.names:
                if a.name == "*":
                    out.setdefault("*", []).append(base)
                else:
                    out[a.asname or a.name] = (base, a.name)
    return out


# ---------------------------------------------------------------- small ast helpers
def norm(node) -> str:
    """Normalised statement text: the key of a finding (never a line number)."""
    try:
        return " ".join(ast.unparse(node).split())
    except Exception:  # noqa: BLE001
        return type(node).__name__


def const_str(node):
    if isinstance(node, ast.Constant) and isinstance(node.value, str):
        return node.value
    return None


def call_name(node) -> str | None:
    """Dotted name of the callee of a Call (a.b.c) or None."""
    if not isinstance(node, ast.Call):
        return None
    return dotted(node.func)


def dotted(node) -> str | None:
    if isinstance(node, ast.Name):
        return node.id
    if isinstance(node, ast.Attribute):
        b = dotted(node.value)
        return f"{b}.{node.attr}" if b else None
    return None


def walk_no_nested(node):
    """Walk a function body without descending into nested function/class definitions."""
    stack = list(ast.iter_child_nodes(node))
    while stack:
        n = stack.pop()
        yield n
        if isinstance(n, (ast.FunctionDef, ast.AsyncFunctionDef, ast.ClassDef, ast.Lambda)):
            continue
        stack.extend(ast.iter_child_nodes(n))

"""End-to-end template extraction for the compile pipeline and its reference semantics.

For a *program shape* (a grammatical experiment whose literals and identifiers are opaque
symbols) this module
  (A) emits its token sequence, parses it with the LALR table built from the *extracted* grammar,
      evaluates the production actions abstractly (absint) into the abstract DSL AST, evaluates
      PythonCodeGen abstractly into a text template, instantiates the template with placeholder
      constants and parses it with `ast.parse`, and normalises the Python AST into an IR;
  (B) computes the IR the property statements prescribe directly from the shape (predicates are
      re-parsed from their token sequence with an independent precedence-climbing parser:
      not > and > or, parentheses override).
The rules compare (A) with (B) and inspect the holes (which renderer every opaque value went
through).  Nothing of pyab_experiment is imported or executed.
"""
from __future__ import annotations

import ast
import itertools
from dataclasses import dataclass, field

from . import absint as A
from .core import AnalysisError
from .gramspec import Grammar, extract_grammar
from .lexspec import LexerClass, extract_lexers
from .lr import Table
from .srcmodel import Source, dotted, norm

CMP_TOKENS = {  # documented token -> the comparison it denotes (language/README.rst)
    "KW_EQ": "==", "KW_NE": "!=", "KW_GT": ">", "KW_LT": "<", "KW_GE": ">=", "KW_LE": "<=",
    "KW_IN": "in", "KW_NOT_IN": "not in",
}
PY_CMP = {ast.Eq: "==", ast.NotEq: "!=", ast.Gt: ">", ast.Lt: "<", ast.GtE: ">=", ast.LtE: "<=",
          ast.In: "in", ast.NotIn: "not in"}


# ------------------------------------------------------------------ shapes
@dataclass(eq=False)
class Tok:
    type: str
    value: object = None


class ShapeBuilder:
    """Creates opaque symbols with stable placeholder names and emits token sequences."""

    def __init__(self):
        self.n = 0
        self.syms: dict[int, A.Sym] = {}

    def _reg(self, s):
        self.syms[s.uid] = s
        return s

    def ident(self, name):
        return self._reg(A.Sym("ident", f"ID:{name}", name=name))

    def string(self, tag="s"):
        self.n += 1
        return self._reg(A.Sym("str", f"STRING_LITERAL:{tag}{self.n}"))

    def integer(self, tag="i", huge=False):
        """huge: an integer with more digits than the largest double has (abs() of it exceeds sys.float_info.max)."""
        self.n += 1
        return self._reg(A.Sym("int", f"NON_NEG_INTEGER{':HUGE' if huge else ''}:{tag}{self.n}"))

    def decimal(self, tag="f", overflow=False):
        """overflow: a decimal with more digits than a float holds (float() of it is inf); at most one per program."""
        self.n += 1
        return self._reg(A.Sym("float", f"NON_NEG_FLOAT{':OVERFLOW' if overflow else ''}:{tag}{self.n}"))


# terms: ('lit', Sym, neg) | ('id', Sym) | ('tuple', [terms])
# predicate token-level expression: list of items among '(' ')' 'not' 'and' 'or' and ('cmp', op_token, lterm, rterm)
# body: ('groups', [(lit term, weight Sym)]) | ('if', predtokens, body, else) with else in None | ('else', body) | ('elif', predtokens, body, else)
@dataclass(eq=False)
class Prog:
    name: A.Sym
    salt: A.Sym | None
    splitters: list
    body: tuple
    label: str = ""


def term_tokens(t) -> list:
    k = t[0]
    if k == "lit":
        s, neg = t[1], t[2]
        tt = {"str": "STRING_LITERAL", "int": "NON_NEG_INTEGER", "float": "NON_NEG_FLOAT"}[s.kind]
        return ([Tok("MINUS")] if neg else []) + [Tok(tt, s)]
    if k == "id":
        return [Tok("ID", t[1])]
    if k == "tuple":
        out = [Tok("LPAREN")]
        for i, m in enumerate(t[1]):
            if i:
                out.append(Tok("COMMA"))
            out += term_tokens(m)
        return out + [Tok("RPAREN")]
    raise ValueError(t)


def pred_tokens(items) -> list:
    out = []
    for it in items:
        if it == "(":
            out.append(Tok("LPAREN"))
        elif it == ")":
            out.append(Tok("RPAREN"))
        elif it in ("not", "and", "or"):
            out.append(Tok({"not": "KW_NOT", "and": "KW_AND", "or": "KW_OR"}[it]))
        else:
            _, op, l, r = it
            out += term_tokens(l) + [Tok(op)] + term_tokens(r)
    return out


def body_tokens(b) -> list:
    k = b[0]
    if k == "groups":
        out = [Tok("KW_RETURN")]
        for i, (lit, w) in enumerate(b[1]):
            if i:
                out.append(Tok("COMMA"))
            out += term_tokens(lit) + [Tok("KW_WEIGHTED"), Tok("NON_NEG_INTEGER" if w.kind == "int" else "NON_NEG_FLOAT", w)]
        return out
    if k == "if":
        _, p, then, els = b
        return [Tok("KW_IF")] + pred_tokens(p) + [Tok("LBRACE")] + body_tokens(then) + [Tok("RBRACE")] + else_tokens(els)
    raise ValueError(b)


def else_tokens(e) -> list:
    if e is None:
        return []
    if e[0] == "else":
        return [Tok("KW_ELSE"), Tok("LBRACE")] + body_tokens(e[1]) + [Tok("RBRACE")]
    if e[0] == "elif":
        _, p, then, els = e
        return [Tok("KW_ELIF")] + pred_tokens(p) + [Tok("LBRACE")] + body_tokens(then) + [Tok("RBRACE")] + else_tokens(els)
    raise ValueError(e)


def prog_tokens(p: Prog) -> list:
    out = [Tok("KW_DEF"), Tok("ID", p.name), Tok("LBRACE")]
    if p.salt is not None:
        out += [Tok("KW_SALT"), Tok("COLON"), Tok("STRING_LITERAL", p.salt)]
    if p.splitters:
        out += [Tok("KW_SPLITTERS"), Tok("COLON")]
        for i, s in enumerate(p.splitters):
            if i:
                out.append(Tok("COMMA"))
            out.append(Tok("ID", s))
    return out + body_tokens(p.body) + [Tok("RBRACE")]


# ------------------------------------------------------------------ reference semantics (B)
OVERFLOW_UID = -1      # the (single) overflowing decimal of a program: its value, inf, cannot carry a uid


def ref_uid(s):
    return OVERFLOW_UID if getattr(s, "overflow", False) else s.uid


def ref_term(t):
    if t[0] == "lit":
        s = t[1]
        return ("const", s.kind, ref_uid(s), bool(t[2]))
    if t[0] == "id":
        return ("name", t[1].name)
    return ("tuple", tuple(ref_term(m) for m in t[1]))


def ref_pred(items):
    """Precedence climbing over the item list: or < and < not; parentheses override."""
    pos = [0]

    def peek():
        return items[pos[0]] if pos[0] < len(items) else None

    def take():
        pos[0] += 1
        return items[pos[0] - 1]

    def p_or():
        xs = [p_and()]
        while peek() == "or":
            take()
            xs.append(p_and())
        return xs[0] if len(xs) == 1 else ("or", tuple(xs))

    def p_and():
        xs = [p_not()]
        while peek() == "and":
            take()
            xs.append(p_not())
        return xs[0] if len(xs) == 1 else ("and", tuple(xs))

    def p_not():
        if peek() == "not":
            take()
            return ("not", p_not())
        return p_atom()

    def p_atom():
        t = take()
        if t == "(":
            x = p_or()
            if take() != ")":
                raise AnalysisError("reference predicate: unbalanced parentheses in a shape")
            return x
        if isinstance(t, tuple) and t[0] == "cmp":
            return ("cmp", CMP_TOKENS[t[1]], ref_term(t[2]), ref_term(t[3]))
        raise AnalysisError(f"reference predicate: unexpected item {t!r}")
    r = p_or()
    if pos[0] != len(items):
        raise AnalysisError("reference predicate: trailing items in a shape")
    return flatten_pred(r)


def flatten_pred(p):
    if p[0] in ("and", "or"):
        xs = []
        for x in p[1]:
            x = flatten_pred(x)
            if x[0] == p[0]:
                xs.extend(x[1])
            else:
                xs.append(x)
        return (p[0], tuple(xs))
    if p[0] == "not":
        return ("not", flatten_pred(p[1]))
    return p


def ref_body(b):
    if b[0] == "groups":
        return [("return_choice", tuple(ref_term(l) for l, _ in b[1]),
                 tuple(("weight", ref_uid(w)) for _, w in b[1]))]
    _, p, then, els = b
    return [("if", ref_pred(p), tuple(ref_body(then)), tuple(ref_else(els)))]


def ref_else(e):
    if e is None:
        return []
    if e[0] == "else":
        return ref_body(e[1])
    _, p, then, els = e
    return [("if", ref_pred(p), tuple(ref_body(then)), tuple(ref_else(els)))]


def pred_idents(items):
    out = []

    def t_ids(t):
        if t[0] == "id":
            out.append(t[1].name)
        elif t[0] == "tuple":
            for m in t[1]:
                t_ids(m)
    for it in items:
        if isinstance(it, tuple) and it[0] == "cmp":
            t_ids(it[2])
            t_ids(it[3])
    return out


def body_idents(b):
    if b is None:
        return []
    if b[0] == "groups":
        return []
    if b[0] == "else":
        return body_idents(b[1])
    _, p, then, els = b
    return pred_idents(p) + body_idents(then) + body_idents(els)


def ref_module(p: Prog):
    cond = sorted(set(body_idents(p.body)))
    split = sorted({s.name for s in p.splitters})
    return {
        "name": p.name.name,
        "params": set(split) | set(cond),
        "helper_params": set(cond),
        "key": None if not split else
        [("const", ("sym", p.salt.uid) if p.salt is not None else "")] + [("str", n) for n in split],
        "body": tuple(ref_body(p.body)) + (("raise", "ExperimentConditionalFailedError"),),
    }


# ------------------------------------------------------------------ (A) the pipeline
class Pipeline:
    def __init__(self, src: Source):
        self.src = src
        self.lexers = extract_lexers(src)
        self.main_lexer = self._main_lexer()
        self.grammar: Grammar = extract_grammar(src, {k: v.tokens for k, v in self.lexers.items()})
        self.table = Table(self.grammar)
        self.gen_mod = src.mod("codegen/python/python_generator.py")
        self.gen_cls = self.gen_mod.get_class("PythonCodeGen")
        self.token_value_src = {}
        A.TOKEN_LANGUAGE["fn"] = self.token_may_be
        A.TOKEN_ENDS_EQUAL["fn"] = self.token_ends_equal
        self.token_kinds = self._token_kinds()
        first = self.grammar.by_name(self.grammar.start)[0].syms[0] if self.grammar.by_name(self.grammar.start) else None
        cands = [pr.syms[1] for pr in self.grammar.by_name(first) if len(pr.syms) == 2 and pr.syms[1] in self.grammar.terminals] if first else []
        self.ident_token = cands[0] if cands else "ID"
        self.use_entry_points = True
        self.through_entry_point = 0       # shapes whose text was obtained through recompile / generate_code
        self.direct_generator = 0          # shapes for which the generator was called directly
        self.entry_point_failures = []     # (entry point, why it could not be followed)

    def _main_lexer(self) -> LexerClass:
        # the lexer whose tokens the parser uses / that parse_source instantiates
        cands = [l for l in self.lexers.values() if any(r.action and r.action.pushes for r in l.rules)]
        if "ExperimentLexer" in self.lexers:
            return self.lexers["ExperimentLexer"]
        if len(cands) == 1:
            return cands[0]
        raise AnalysisError("cannot identify the main lexer class")

    def _token_kinds(self):
        """Abstract value of each token type, by evaluating the rule's action abstractly."""
        kinds = {}
        self.token_kind_notes = {}
        for r in self.main_lexer.rules:
            if r.kind == "trivia":
                continue
            if r.func is None:
                kinds[r.name] = ("raw", None)
                continue
            def job(it, r=r):
                tok = A.TokenVal({"value": A.Sym("rawtoken", r.name), "type": A.Tmpl.lit(r.name),
                                  "lineno": 1, "index": 0, "end": 1})
                lexobj = A.Obj(it.class_val(self.main_lexer.mod, self.main_lexer.node), {"lineno": 1, "index": 0})
                return it.call(A.FuncVal(self.main_lexer.mod, r.func, lexobj), [tok], {})
            try:
                outcomes = A.run_forking(self.src, job, max_forks=16)
                if any(isinstance(o_[1], A.RaiseSig) for o_ in outcomes) and not all(isinstance(o_[1], A.RaiseSig) for o_ in outcomes):
                    self.token_kind_notes[r.name] = "the action raises for some token texts"
                reses = [o_[1] for o_ in outcomes if not isinstance(o_[1], A.RaiseSig)]
                if not reses:
                    raise outcomes[0][1]
                for res in reses[1:]:
                    if isinstance(res, A.TokenVal):
                        v = res.attrs.get("value")
                        ty = res.attrs.get("type")
                        tyn = ty.text() if isinstance(ty, A.Tmpl) and ty.is_literal() else r.name
                        kinds[tyn] = ("value", v.kind if isinstance(v, A.Sym) else type(v).__name__)
                res = reses[0]
                if isinstance(res, A.TokenVal):
                    ty = res.attrs.get("type")
                    tyn = ty.text() if isinstance(ty, A.Tmpl) and ty.is_literal() else r.name
                    if tyn != r.name:
                        v = res.attrs.get("value")
                        kinds[tyn] = ("value", v.kind if isinstance(v, A.Sym) else type(v).__name__)
                        if len(reses) == 1:
                            continue
            except A.Unsupported as e:
                # the action does something the abstract domain cannot follow: keep the value opaque
                # (a string) so taint rules still see it; C05.TOKEN-CONV reports the action itself
                self.token_kind_notes[r.name] = str(e)
                kinds[r.name] = ("value", "str") if (r.action and r.action.returns_token) else ("dropped", None)
                continue
            except A.RaiseSig as e:
                kinds[r.name] = ("raises", e.exc_name)
                continue
            if isinstance(res, A.TokenVal):
                v = res.attrs.get("value")
                kinds[r.name] = ("value", v.kind if isinstance(v, A.Sym) else type(v).__name__)
                if isinstance(v, A.Sym) and len(reses) == 1:
                    self.token_value_src[r.name] = v.src        # e.g. "STRING_LITERAL[1:-1]": which piece of the text the value is
            else:
                kinds[r.name] = ("dropped", None)
        return kinds

    def token_ends_equal(self, ttype: str) -> bool:
        """Every alternative of the token's pattern begins and ends with one and the same literal character (quoted strings)."""
        import re._parser as P
        import re._constants as C
        r = self.main_lexer.rule(ttype.split(".")[0].split("[")[0])
        if r is None or r.pattern is None:
            return False
        try:
            tree = P.parse(r.pattern)
        except Exception:  # noqa: BLE001
            return False
        while len(tree) == 1 and tree[0][0] is C.SUBPATTERN:
            tree = tree[0][1][3]           # a group around the whole pattern (sly wraps composed patterns)
        alts = [tree]
        if len(tree) == 1 and tree[0][0] is C.BRANCH:
            alts = tree[0][1][1]
        for alt in alts:
            items = list(alt)
            if len(items) < 2 or items[0][0] is not C.LITERAL or items[-1][0] is not C.LITERAL or items[0][1] != items[-1][1]:
                return False
        return True

    def token_may_be(self, ttype: str, text: str):
        """Can the matched text of token `ttype` be `text`?  (None: unknown token.)"""
        import re as _re
        r = self.main_lexer.rule(ttype.split(".")[0].split("[")[0])
        if r is None or r.pattern is None:
            return None
        try:
            return _re.fullmatch(r.pattern, text) is not None
        except _re.error:
            return None

    def token_text(self, ttype: str):
        """The value of a token whose rule has no action (its matched text), for an action that reads it: the spelling
        itself when the pattern is a literal (optionally followed by a word boundary), otherwise an opaque text (the
        spelling varies, e.g. with the white space inside `not   in`)."""
        cache = self.__dict__.setdefault("_token_text", {})
        if ttype not in cache:
            import re._parser as sp_
            val = A.Sym("rawtoken", ttype)
            r = self.main_lexer.rule(ttype)
            remapped = [(rule, lit) for rule, lit, new in self.main_lexer.remaps if new == ttype and lit is not None]
            if r is not None and r.func is None:
                try:
                    items = list(sp_.parse(r.pattern))
                    while items and items[-1][0] == sp_.AT and items[-1][1] == sp_.AT_BOUNDARY:
                        items.pop()
                    if items and all(op == sp_.LITERAL for op, _ in items):
                        val = A.Tmpl.lit("".join(chr(av) for _, av in items))
                except Exception:  # noqa: BLE001
                    pass
            elif r is None and len(remapped) == 1:
                val = A.Tmpl.lit(remapped[0][1])
            cache[ttype] = val
        return cache[ttype]

    # -- grammar actions ---------------------------------------------------
    def parse_to_ast(self, toks: list, interp: A.Interp):
        tree = self.table.parse([t.type for t in toks])
        if tree is None:
            return None
        parser_obj = A.Obj(interp.class_val(self.grammar.mod, self.grammar.cls), {})

        def ev(node):
            head, kids = node
            if isinstance(head, str):       # terminal leaf: (type, position)
                v = toks[kids].value
                return v if v is not None else self.token_text(head)
            prod = self.grammar.prods[head]
            vals = [ev(k) for k in kids]
            if prod.index == 0:
                return vals[0]
            if prod.builtin:
                # productions sly generates for EBNF groups, with the values its generated actions return
                b_ = prod.builtin
                if b_ in ("opt-some", "item"):
                    return A.AList(list(vals), "tuple")
                if b_ == "opt-none":
                    return A.AList([None] * prod.nvals, "tuple")
                if b_ == "rep":
                    return vals[0]
                if b_ == "rep-empty":
                    return A.AList([], "list")
                if b_ == "many":
                    return A.AList(list(vals[0].items) + [vals[1]], "list")
                if b_ == "many1":
                    return A.AList([vals[0]], "list")
                if b_ == "choice":
                    return vals[0]
            p = A.PVal(prod.syms, vals, prod.aliases)
            # sly sets parser.production to the rule being reduced before it calls the action
            parser_obj.attrs["production"] = A.Opaque("production", attrs={
                "prod": A.AList([A.Tmpl.lit(s_) for s_ in prod.syms], "tuple"), "name": A.Tmpl.lit(prod.name),
                "len": len(prod.syms), "namemap": A.Opaque("namemap")})
            return interp.call(A.FuncVal(self.grammar.mod, prod.func, parser_obj), [p], {})
        return ev(tree)

    def generate(self, root, interp: A.Interp, expose: bool):
        cv = interp.class_val(self.gen_mod, self.gen_cls)
        gen = interp.instantiate(cv, [root], {"expose_experiment_variant_function": expose}, "pipeline")
        return interp.apply(interp.getattr(gen, "generate", "pipeline"), [], {}, "pipeline")

    def via_entry_point(self, root, it: A.Interp, expose: bool, prev_root=None):
        """The text the library's own entry point produces for this tree: ExperimentEvaluator.recompile (what it hands to
        compile/exec) for the evaluator's layout, generate_code(text, True) for the exposed one.  The entry point is interpreted
        as written - its own steps around parsing and generating (options passed to the generator, checks, rewriting of the tree or
        of the text) are part of what runs - with the lexer and parser classes replaced by stand-ins that deliver this tree.  None
        when the entry point cannot be followed (the generator is then called directly, as the documented pipeline does).
        With prev_root (evaluator layout only) the evaluator is first constructed from another text whose tree is prev_root and
        then given this text through recompile(): the result is what a recompiled evaluator hands to compile/exec."""
        text = A.Sym("str", "SOURCE-TEXT")
        cur = {"root": root if prev_root is None else prev_root, "parses": 0}
        captured = []
        saved = {k: getattr(it, k, None) for k in ("class_hooks", "builtin_hooks", "ext_hooks", "hash_domain", "extra_globals")}
        lexer_names = {n for n, lc in self.lexers.items()}
        parser_name = self.grammar.cls.name

        def mk_lexer(it_, a_, k_, s_):
            # the stream is a sequence the entry point may wrap or iterate; the parser stand-in ignores what it is given
            return A.Opaque("lexer", methods={"tokenize": lambda i2, a2, k2, s2: A.AList([A.Opaque("token")], "list")})

        def mk_parser(it_, a_, k_, s_):
            def parse_(i2, a2, k2, s2):
                cur["parses"] += 1
                return cur["root"]
            return A.Opaque("parser", methods={"parse": parse_})

        def compile_(it_, a_, k_, s_):
            src = a_[0] if a_ else k_.get("source")
            captured.append(src)
            return A.Opaque("code", payload=src)

        def exec_(it_, a_, k_, s_):
            src = a_[0] if a_ else None
            if not (isinstance(src, A.Opaque) and src.tag == "code"):
                captured.append(src)
            loc = a_[2] if len(a_) > 2 else k_.get("locals")
            glb = a_[1] if len(a_) > 1 else k_.get("globals")
            target = loc if isinstance(loc, A.ADict) else (glb if isinstance(glb, A.ADict) else None)
            name = cur["root"].attrs.get("id") if isinstance(cur["root"], A.Obj) else None
            if target is not None and name is not None:
                target.items[A._key(name)] = A.Opaque("compiled-function", payload={"text": src})
            return None
        gstore = {}
        it.extra_globals = gstore

        def _gk(k):
            return k.text() if isinstance(k, A.Tmpl) and k.is_literal() else A._key(k)

        def _globals_standin():
            # the module's namespace as a mapping: what is put there (a lazily imported name) can be read back
            g = A.Opaque("module-globals")
            g.methods["setdefault"] = lambda i2, a2, k2, s2: gstore.setdefault(_gk(a2[0]), a2[1] if len(a2) > 1 else None)
            g.methods["get"] = lambda i2, a2, k2, s2: gstore.get(_gk(a2[0]), a2[1] if len(a2) > 1 else None)
            g.methods["update"] = lambda i2, a2, k2, s2: None
            return g
        it.class_hooks = {**(saved["class_hooks"] or {}), **{n: mk_lexer for n in lexer_names}, parser_name: mk_parser}
        it.builtin_hooks = {**(saved["builtin_hooks"] or {}), "compile": compile_, "exec": exec_,
                            "globals": lambda i2, a2, k2, s2: _globals_standin()}
        it.ext_hooks = {**(saved["ext_hooks"] or {}), "black.format_str": lambda i2, a2, k2, s2: a2[0],
                        "black.FileMode": lambda i2, a2, k2, s2: A.Opaque("black-mode"),
                        "black.Mode": lambda i2, a2, k2, s2: A.Opaque("black-mode")}
        it.hash_domain = True
        try:
            if not expose:
                em = self.src.mod("experiment_evaluator.py")
                ec = em.classes().get("ExperimentEvaluator")
                if ec is None:
                    return None
                cv = it.class_val(em, ec)
                ev_ = it.instantiate(cv, [text], {}, "pipeline")
                if prev_root is not None:
                    n0 = len([c for c in captured if isinstance(c, A.Tmpl)])
                    cur["root"] = root
                    it.apply(it.getattr(ev_, "recompile", "pipeline"), [A.Sym("str", "SOURCE-TEXT-2")], {}, "pipeline")
                    texts = [c for c in captured if isinstance(c, A.Tmpl)]
                    return texts[-1] if len(texts) > n0 and cur["parses"] >= 2 else None
                texts = [c for c in captured if isinstance(c, A.Tmpl)]
                return texts[-1] if texts else None
            wm = self.src.mod("utils/wraper_functions.py")
            fn = wm.functions().get("generate_code")
            if fn is None:
                return None
            params = [a.arg for a in fn.args.args]
            kw = {params[1]: True} if len(params) > 1 else {}
            out = it.call(A.FuncVal(wm, fn), [text], kw)
            return out if isinstance(out, A.Tmpl) else None
        except A.Unsupported as e:
            if prev_root is None:
                self.entry_point_failures.append(("recompile" if not expose else "generate_code", str(e)))
            else:
                self.history_failures = getattr(self, "history_failures", []) + [str(e)]
            return None
        finally:
            for k, v in saved.items():
                if v is None:
                    if hasattr(it, k):
                        try:
                            delattr(it, k)
                        except AttributeError:
                            pass
                else:
                    setattr(it, k, v)

    def run(self, prog: Prog, expose: bool, toks=None):
        """Return a list of Outcome (one per fork of undetermined decisions)."""
        toks = prog_tokens(prog) if toks is None else toks

        def job(it: A.Interp):
            root = self.parse_to_ast(toks, it)
            if root is None:
                return ("syntax-error", None, None)
            tmpl = self.via_entry_point(root, it, expose) if self.use_entry_points else None
            if tmpl is None:
                self.direct_generator += 1
                tmpl = self.generate(root, it, expose)
            else:
                self.through_entry_point += 1
            return ("ok", root, tmpl)
        outs = []
        for assumptions, res, it in A.run_forking(self.src, job):
            o = Outcome(prog, expose, assumptions, it)
            if isinstance(res, A.RaiseSig):
                o.status, o.error = "raises", f"{res.exc_name} at {res.site}: {res.text}"
            else:
                o.status, o.root, o.tmpl = res
                if o.status == "ok":
                    if not isinstance(o.tmpl, A.Tmpl):
                        o.status, o.error = "not-text", f"generate() returned {type(o.tmpl).__name__}"
                    else:
                        o.finish()
            outs.append(o)
        return outs


def run_history(pl: "Pipeline", prev: Prog, prog: Prog):
    """[(assumptions, text after construct(prev) + recompile(prog) or None, text of a fresh evaluator of prog or None)] per fork."""
    ptoks, toks = prog_tokens(prev), prog_tokens(prog)

    def job(it: A.Interp):
        r0 = pl.parse_to_ast(ptoks, it)
        r1 = pl.parse_to_ast(toks, it)
        if r0 is None or r1 is None:
            return None
        after = pl.via_entry_point(r1, it, False, prev_root=r0)
        fresh = pl.via_entry_point(r1, it, False)
        return (after, fresh)
    out = []
    for assumptions, res, it in A.run_forking(pl.src, job):
        if isinstance(res, A.RaiseSig) or res is None:
            out.append((assumptions, None, None))
            continue
        render = lambda t: None if not isinstance(t, A.Tmpl) else "".join(  # noqa: E731
            p if isinstance(p, str) else placeholder(p.sym, p.render) for p in t.parts)
        out.append((assumptions, render(res[0]), render(res[1])))
    return out


PLACE_INT = 7000000


def placeholder(sym: A.Sym, render: str) -> str:
    if "[" in render:
        # a renderer followed by index/slice operations, e.g. repr[:-1]
        base, ops = render.split("[", 1)
        txt = placeholder(sym, base)
        for op in ("[" + ops).replace("][", "]|[").split("|"):
            body = op[1:-1]
            if ":" in body:
                a, b = (body.split(":") + [""])[:2]
                txt = txt[(int(a) if a else None):(int(b) if b else None)]
            else:
                txt = txt[int(body)]
        return txt
    if "|repr-inner" in render:
        base = render.replace("|repr-inner", "")
        return repr(placeholder(sym, base))[1:-1]
    if getattr(sym, "overflow", False) and (render.startswith("format:") or render in ("str", "repr", "ascii", "json")):
        v = sym.as_inf()
        if render == "json":
            import json
            return json.dumps(v)
        try:
            return format(v, render.split(":", 1)[1]) if render.startswith("format:") else repr(v)
        except Exception:  # noqa: BLE001
            return repr(v)
    if render.startswith("format:"):
        spec = render.split(":", 1)[1]
        try:
            if sym.kind == "int":
                return format((-1 if sym.neg else 1) * (PLACE_INT + sym.uid), spec)
            if sym.kind == "float":
                return format((-1 if sym.neg else 1) * (PLACE_INT + sym.uid + 0.5), spec)
            return format(placeholder(sym, "str"), spec)
        except Exception:  # noqa: BLE001
            return placeholder(sym, "str")
    if render == "json":
        import json
        return json.dumps(f"S{sym.uid}x") if sym.kind in ("str", "rawtoken") else placeholder(sym, "str")
    if render not in ("str", "repr", "ascii"):
        return placeholder(sym, "repr")
    if sym.kind == "ident":
        return repr(sym.name) if render in ("repr", "ascii") else sym.name
    if sym.kind in ("str", "rawtoken"):
        body = f"S{sym.uid}x"
        return repr(body) if render in ("repr", "ascii") else body
    if sym.kind == "int":
        return ("-" if sym.neg else "") + str(PLACE_INT + sym.uid)
    if sym.kind == "float":
        return ("-" if sym.neg else "") + str(PLACE_INT + sym.uid) + ".5"
    raise AnalysisError(f"no placeholder for symbol kind {sym.kind}")


def sym_of_constant(v):
    """Inverse of placeholder(): (kind, uid, neg) or None."""
    if isinstance(v, str) and v.startswith("S") and v.endswith("x") and v[1:-1].isdigit():
        return ("str", int(v[1:-1]), False)
    if isinstance(v, bool):
        return None
    if isinstance(v, float) and v in (float("inf"), float("-inf")):
        return ("float", OVERFLOW_UID, v < 0)
    if isinstance(v, int) and abs(v) > PLACE_INT:
        return ("int", abs(v) - PLACE_INT, v < 0)
    if isinstance(v, float) and abs(v) > PLACE_INT:
        frac = abs(v) - int(abs(v))
        return ("float" if frac == 0.5 else "float-from-int", int(abs(v)) - PLACE_INT, v < 0)
    return None


@dataclass(eq=False)
class Outcome:
    prog: Prog
    expose: bool
    assumptions: list
    interp: A.Interp
    status: str = ""
    error: str = ""
    root: object = None
    tmpl: A.Tmpl | None = None
    text: str = ""
    tree: ast.Module | None = None
    syntax_error: str = ""

    def finish(self):
        self.text = "".join(p if isinstance(p, str) else placeholder(p.sym, p.render) for p in self.tmpl.parts)
        try:
            self.tree = ast.parse(self.text)
            # symbol-table errors (duplicate argument, return outside function, ...) are only found by the
            # compiler proper; compile() does not execute anything
            compile(self.text, "<generated>", "exec", dont_inherit=True)
        except SyntaxError as e:
            self.tree = None
            self.syntax_error = f"{e.msg} (line {e.lineno}: {(e.text or '').strip()[:80]})"

    def holes(self):
        return self.tmpl.holes() if self.tmpl is not None else []


# ------------------------------------------------------------------ Python-side IR
class ModuleShapeError(AnalysisError):
    pass


def py_term(n):
    if isinstance(n, ast.Constant):
        s = sym_of_constant(n.value)
        if s is None:
            return ("pyconst", repr(n.value))
        return ("const",) + s
    if isinstance(n, ast.UnaryOp) and isinstance(n.op, ast.USub) and isinstance(n.operand, ast.Constant):
        s = sym_of_constant(n.operand.value)
        if s is not None:
            return ("const", s[0], s[1], True)
    if isinstance(n, ast.Name):
        return ("name", n.id)
    if isinstance(n, ast.Tuple):
        return ("tuple", tuple(py_term(e) for e in n.elts))
    if isinstance(n, ast.List):
        return ("list", tuple(py_term(e) for e in n.elts))
    if isinstance(n, ast.Call):
        return ("call", norm(n))
    return ("expr", norm(n))


def py_pred(n):
    if isinstance(n, ast.BoolOp):
        op = "and" if isinstance(n.op, ast.And) else "or"
        return flatten_pred((op, tuple(py_pred(v) for v in n.values)))
    if isinstance(n, ast.UnaryOp) and isinstance(n.op, ast.Not):
        return ("not", py_pred(n.operand))
    if isinstance(n, ast.Compare):
        if len(n.ops) != 1:
            return ("chained-compare", norm(n))
        return ("cmp", PY_CMP.get(type(n.ops[0]), type(n.ops[0]).__name__), py_term(n.left), py_term(n.comparators[0]))
    return ("expr", norm(n))


def py_stmts(stmts, names):
    out = []
    for st in stmts:
        if isinstance(st, ast.If):
            out.append(("if", py_pred(st.test), tuple(py_stmts(st.body, names)), tuple(py_stmts(st.orelse, names))))
        elif isinstance(st, ast.Return):
            out.append(py_return(st, names))
        elif isinstance(st, ast.Raise):
            exc = st.exc
            if isinstance(exc, ast.Call) and not exc.args and not exc.keywords:
                exc = exc.func
            out.append(("raise", dotted(exc) if exc is not None else None))
        elif isinstance(st, ast.Pass) or (isinstance(st, ast.Expr) and isinstance(st.value, ast.Constant)):
            continue          # a docstring or a bare constant does nothing
        else:
            out.append(("stmt", norm(st)))
    return out


def py_return(st: ast.Return, names):
    v = st.value
    if isinstance(v, ast.Call) and dotted(v.func) in ("partial", "functools.partial") and v.args \
            and dotted(v.args[0]) == "deterministic_choice":
        # bind the remaining arguments against deterministic_choice(input_id, population, weights=None, *, cum_weights=None)
        pos = ["population", "weights"]   # input_id is supplied by the later call
        bound = {}
        for name, a in zip(pos, v.args[1:]):
            bound[name] = a
        if len(v.args) - 1 > len(pos):
            return ("return", norm(v))
        for k in v.keywords:
            if k.arg is None or k.arg in bound:
                return ("return", norm(v))
            bound[k.arg] = k.value
        extra = set(bound) - {"population", "weights"}
        if extra or "population" not in bound:
            return ("return", norm(v))
        pop = bound["population"]
        w = bound.get("weights")
        if not isinstance(pop, (ast.List, ast.Tuple)):
            return ("return", norm(v))
        weights = None
        if w is not None:
            if not isinstance(w, (ast.List, ast.Tuple)):
                return ("return", norm(v))
            weights = []
            for e in w.elts:
                t = py_term(e)
                weights.append(("weight", t[2]) if t[0] == "const" and t[1] in ("int", "float", "float-from-int") and not t[3] else t)
            weights = tuple(weights)
        return ("return_choice", tuple(py_term(e) for e in pop.elts), weights)
    return ("return", norm(v) if v is not None else None)


def key_pieces(n):
    """Canonical concatenation sequence denoted by the key expression (C12.KEY-DESCRIPTOR)."""
    if isinstance(n, ast.Constant):
        if n.value is None:
            return None
        if isinstance(n.value, str):
            s = sym_of_constant(n.value)
            return [("const", ("sym", s[1]) if s else n.value)]
        return [("pyconst", repr(n.value))]
    if isinstance(n, ast.BinOp) and isinstance(n.op, ast.Add):
        a, b = key_pieces(n.left), key_pieces(n.right)
        if a is None or b is None:
            return [("expr", norm(n))]
        return a + b
    if isinstance(n, ast.JoinedStr):
        out = []
        for v in n.values:
            if isinstance(v, ast.Constant):
                out += key_pieces(v)
            elif v.conversion in (-1, 115) and v.format_spec is None:
                out += _str_of(v.value)
            else:
                out.append(("expr", norm(v)))
        return out
    if isinstance(n, ast.Call):
        d = dotted(n.func)
        if d == "str" and len(n.args) == 1:
            return _str_of(n.args[0])
        if isinstance(n.func, ast.Attribute) and n.func.attr == "join" and len(n.args) == 1 \
                and isinstance(n.func.value, ast.Constant) and isinstance(n.func.value.value, str):
            sep = n.func.value.value
            items = _joined_items(n.args[0])
            if items is None:
                return [("expr", norm(n))]
            out = []
            for i, it in enumerate(items):
                if i and sep:
                    out.append(("const", sep))
                out += it
            return out
    return [("expr", norm(n))]


def _str_of(n):
    if isinstance(n, ast.Name):
        return [("str", n.id)]
    if isinstance(n, ast.Constant) and isinstance(n.value, str):
        return key_pieces(n)
    return [("expr", f"str({norm(n)})")]


def _seq_names(n):
    if isinstance(n, (ast.List, ast.Tuple)):
        return list(n.elts)
    return None


def _joined_items(arg):
    # map(str, [a, b])
    if isinstance(arg, ast.Call) and dotted(arg.func) == "map" and len(arg.args) == 2 and dotted(arg.args[0]) == "str":
        elts = _seq_names(arg.args[1])
        if elts is not None:
            return [_str_of(e) for e in elts]
    # [str(x) for x in [a, b]] / (str(x) for x in (a, b)) / f"{x}" for x in ...
    if isinstance(arg, (ast.ListComp, ast.GeneratorExp)) and len(arg.generators) == 1:
        g = arg.generators[0]
        elts = _seq_names(g.iter)
        if elts is not None and isinstance(g.target, ast.Name):
            out = []
            for e in elts:
                sub = _Subst(g.target.id, e).visit(_copy(arg.elt))
                pieces = key_pieces(sub)
                if g.ifs:
                    pieces = [("conditional", norm(g.ifs[0]), tuple(pieces))]
                out.append(pieces)
            return out
    elts = _seq_names(arg)
    if elts is not None:
        return [key_pieces(e) for e in elts]
    return None


def _copy(n):
    import copy
    return copy.deepcopy(n)


class _Subst(ast.NodeTransformer):
    def __init__(self, name, repl):
        self.name, self.repl = name, repl

    def visit_Name(self, n):
        return _copy(self.repl) if n.id == self.name else n


def free_names(fn: ast.FunctionDef, postponed_annotations: bool = False) -> set:
    """Names read in fn's body that are not its parameters or local bindings (one level)."""
    bound = {a.arg for a in fn.args.args + fn.args.kwonlyargs}
    if fn.args.vararg:
        bound.add(fn.args.vararg.arg)
    if fn.args.kwarg:
        bound.add(fn.args.kwarg.arg)
    loads = set()
    # evaluated when the `def` statement runs, in the enclosing scope: decorators, defaults and - unless the module postpones them -
    # the annotations of the parameters and of the result.  A name read there must be bound like any other free name
    deftime = list(fn.decorator_list) + list(fn.args.defaults) + [d for d in fn.args.kw_defaults if d is not None]
    if not postponed_annotations:
        deftime += [a.annotation for a in fn.args.posonlyargs + fn.args.args + fn.args.kwonlyargs + [fn.args.vararg, fn.args.kwarg]
                    if a is not None and a.annotation is not None]
        if fn.returns is not None:
            deftime.append(fn.returns)
    for e in deftime:
        for n in ast.walk(e):
            if isinstance(n, ast.Name) and isinstance(n.ctx, ast.Load):
                loads.add(n.id)
            elif isinstance(n, ast.Constant) and isinstance(n.value, str) and e is not n:
                pass
    deftime_loads = set(loads)
    for st in fn.body:
        if isinstance(st, ast.FunctionDef):
            bound.add(st.name)
            loads |= free_names(st, postponed_annotations)
            continue
        for n in ast.walk(st):
            if isinstance(n, ast.Name):
                if isinstance(n.ctx, ast.Store):
                    bound.add(n.id)
                else:
                    loads.add(n.id)
    return (loads - bound) | deftime_loads


def module_ir(tree: ast.Module, main_name: str):
    imports = []
    defs = {}
    other = []
    for st in tree.body:
        if isinstance(st, ast.ImportFrom):
            for a in st.names:
                imports.append((st.module, a.name, a.asname or a.name))
        elif isinstance(st, ast.Import):
            for a in st.names:
                imports.append((a.name, None, a.asname or a.name))
        elif isinstance(st, ast.FunctionDef):
            if st.name in defs:
                raise ModuleShapeError(f"generated module defines {st.name} twice")
            defs[st.name] = st
        elif isinstance(st, ast.Expr) and isinstance(st.value, ast.Constant):
            continue
        else:
            other.append(norm(st))
    ir = {"imports": imports, "module_level_other": other, "defs": sorted(defs)}
    main = defs.get(main_name)
    if main is None:
        raise ModuleShapeError(f"generated module does not define a function named {main_name!r} (defs: {sorted(defs)})")
    a = main.args
    ir["main_params"] = [x.arg for x in a.args]
    ir["main_posonly"] = [x.arg for x in a.posonlyargs]
    ir["main_kwonly"] = [x.arg for x in a.kwonlyargs]
    ir["main_kwargs"] = a.kwarg.arg if a.kwarg else None
    ir["main_vararg"] = a.vararg.arg if a.vararg else None
    ir["main_defaults"] = len(a.defaults) + sum(1 for d in a.kw_defaults if d is not None)
    ir["main_decorators"] = [norm(d) for d in main.decorator_list]
    nested = [st for st in main.body if isinstance(st, ast.FunctionDef)]
    rest = [st for st in main.body if not isinstance(st, ast.FunctionDef)
            and not (isinstance(st, ast.Expr) and isinstance(st.value, ast.Constant))]
    # plain local assignments in front of the return (`key = ...`, `variant = helper(...)`) are folded into it; the names
    # they bind are recorded: a field of the same name would be overwritten by them
    main_locals = []
    # `a, b = x, y` in front of the return is the same as `a = x; b = y` when no right-hand side reads a target bound earlier in
    # the same statement (simultaneous assignment)
    flat_ = []
    for s_ in rest:
        if (isinstance(s_, ast.Assign) and len(s_.targets) == 1 and isinstance(s_.targets[0], ast.Tuple) and isinstance(s_.value, ast.Tuple)
                and len(s_.targets[0].elts) == len(s_.value.elts) and all(isinstance(t_, ast.Name) for t_ in s_.targets[0].elts)):
            names_ = [t_.id for t_ in s_.targets[0].elts]
            if all(not any(isinstance(n_, ast.Name) and n_.id in names_[:j_] for n_ in ast.walk(v_)) for j_, v_ in enumerate(s_.value.elts)):
                for t_, v_ in zip(s_.targets[0].elts, s_.value.elts):
                    flat_.append(ast.copy_location(ast.Assign(targets=[ast.Name(id=t_.id, ctx=ast.Store())], value=v_), s_))
                continue
        flat_.append(s_)
    rest = flat_
    if rest and isinstance(rest[-1], ast.Return) and all(
            isinstance(s_, ast.Assign) and len(s_.targets) == 1 and isinstance(s_.targets[0], ast.Name) for s_ in rest[:-1]):
        import copy as _copy
        env_ = {}
        for s_ in rest[:-1]:
            val_ = _copy.deepcopy(s_.value)

            class _Sub(ast.NodeTransformer):
                def visit_Name(self, n_):
                    if isinstance(n_.ctx, ast.Load) and n_.id in env_:
                        return _copy.deepcopy(env_[n_.id])
                    return n_
            env_[s_.targets[0].id] = _Sub().visit(val_)
            main_locals.append(s_.targets[0].id)
        if env_:
            class _Sub2(ast.NodeTransformer):
                def visit_Name(self, n_):
                    if isinstance(n_.ctx, ast.Load) and n_.id in env_:
                        return _copy.deepcopy(env_[n_.id])
                    return n_
            folded = ast.Return(value=_Sub2().visit(_copy.deepcopy(rest[-1].value)))
            ast.copy_location(folded, rest[-1])
            ast.fix_missing_locations(folded)
            rest = [folded]
    ir["main_locals"] = main_locals
    if len(rest) != 1 or not isinstance(rest[0], ast.Return):
        raise ModuleShapeError("main function body is not `[def helper] return helper(...)(key)`: "
                               + "; ".join(norm(s)[:60] for s in rest))
    ret = rest[0].value
    if not (isinstance(ret, ast.Call) and isinstance(ret.func, ast.Call) and isinstance(ret.func.func, ast.Name)):
        raise ModuleShapeError(f"main function return is not helper(...)(key): {norm(ret)[:100]}")
    if len(ret.args) != 1 or ret.keywords:
        raise ModuleShapeError(f"the chosen partial is not applied to exactly one key argument: {norm(ret)[:100]}")
    helper_name = ret.func.func.id
    helper = None
    nested_helper = False
    for st in nested:
        if st.name == helper_name:
            helper, nested_helper = st, True
    if helper is None:
        helper = defs.get(helper_name)
    if helper is None:
        raise ModuleShapeError(f"helper function {helper_name} is not defined in the generated module")
    ir["helper_name"] = helper_name
    ir["helper_nested"] = nested_helper
    ir["extra_nested_defs"] = [st.name for st in nested if st.name != helper_name]
    ha = helper.args
    ir["helper_params"] = [x.arg for x in ha.args]
    ir["helper_other_params"] = bool(ha.vararg or ha.kwarg or ha.kwonlyargs or ha.posonlyargs or ha.defaults)
    hcall = ret.func
    binding = {}
    for p, v in zip(ir["helper_params"], hcall.args):
        binding[p] = py_term(v)
    for k in hcall.keywords:
        binding[k.arg] = py_term(k.value)
    ir["helper_call_binding"] = binding
    ir["helper_call_positional"] = len(hcall.args)
    ir["key_expr"] = ret.args[0]
    ir["key"] = key_pieces(ret.args[0])
    ir["body"] = tuple(py_stmts(helper.body, None))
    postponed = any(isinstance(st, ast.ImportFrom) and st.module == "__future__" and any(a.name == "annotations" for a in st.names)
                    for st in tree.body)
    ir["helper_free"] = free_names(helper, postponed)
    ir["main_free"] = free_names(main, postponed)
    # the same when annotations are not evaluated (text compiled by a module that itself postpones annotations: compile() inherits
    # the future flags of the calling code)
    ir["helper_free_postponed"] = free_names(helper, True)
    ir["main_free_postponed"] = free_names(main, True)
    ir["helper_node"] = helper
    ir["main_node"] = main
    ir["statement_kinds"] = sorted({type(n).__name__ for n in ast.walk(tree) if isinstance(n, ast.stmt)})
    ir["calls"] = sorted({dotted(n.func) or norm(n.func) for n in ast.walk(tree) if isinstance(n, ast.Call)})
    ir["has_global"] = any(isinstance(n, (ast.Global, ast.Nonlocal)) for n in ast.walk(tree))
    return ir


# ------------------------------------------------------------------ shape families
ALL_CMP = ["KW_EQ", "KW_NE", "KW_GT", "KW_LT", "KW_GE", "KW_LE", "KW_IN", "KW_NOT_IN"]


class Family:
    """Systematic enumeration of program shapes (every recursive position of the generator and
    every production of the grammar is exercised; thorough adds depth)."""

    def __init__(self, tier="quick", options=()):
        self.tier = tier
        self.options = set(options)
        self.b = ShapeBuilder()
        self._gid = 0

    # helpers
    def groups(self, n=2, kinds=("str", "int", "float"), wkinds=("int", "float")):
        gs = []
        for i in range(n):
            k = kinds[i % len(kinds)]
            lit = {"str": self.b.string, "int": self.b.integer, "float": self.b.decimal}[k]("g")
            w = {"int": self.b.integer, "float": self.b.decimal}[wkinds[i % len(wkinds)]]("w")
            gs.append((("lit", lit, False), w))
        return ("groups", gs)

    def cmp(self, op="KW_EQ", left=None, right=None, name="c0"):
        l = left if left is not None else ("id", self.b.ident(name))
        if right is None:
            right = ("tuple", [("lit", self.b.integer(), False), ("lit", self.b.string(), False)]) \
                if op in ("KW_IN", "KW_NOT_IN") else ("lit", self.b.integer(), False)
        return ("cmp", op, l, right)

    def prog(self, body, salt=True, splitters=("zeta_s", "alpha_s"), label="", name="exp_name"):
        return Prog(self.b.ident(name), self.b.string("salt") if salt else None,
                    [self.b.ident(s) for s in splitters], body, label)

    def programs(self):
        yield from self.header_variants()
        yield from self.operator_variants()
        yield from self.term_variants()
        yield from self.conditional_variants()
        yield from self.predicate_variants()
        yield from self.sharing_variants()
        if "overflow" in self.options:
            yield from self.overflow_variants()
        if "skeleton-names" in self.options:
            # a condition field spelled like a name the generated module imports (both layouts and the evaluator must still agree)
            for nm in ("partial", "deterministic_choice"):
                yield self.prog(("if", [("cmp", "KW_EQ", ("id", self.b.ident(nm)), ("lit", self.b.integer(), False))], self.groups(1),
                                 ("else", self.groups(1))), True, ("a",), f"condition field named {nm}")

    def overflow_variants(self):
        """A decimal literal with more digits than a float can hold (the lexer's float() gives inf), in every
        position a number can be written."""
        b = self.b
        big = lambda: ("lit", b.decimal("big", overflow=True), False)      # noqa: E731
        x = lambda: ("id", b.ident("x_num"))                                 # noqa: E731
        yield self.prog(("if", [("cmp", "KW_GT", x(), big())], self.groups(1), ("else", self.groups(1))), True, ("a",),
                        "overflowing decimal as right operand")
        yield self.prog(("if", [("cmp", "KW_LT", ("lit", b.decimal("big", overflow=True), True), x())], self.groups(1), None), True, ("a",),
                        "negative overflowing decimal as left operand")
        yield self.prog(("if", [("cmp", "KW_IN", x(), ("tuple", [("lit", b.integer(), False), big()]))], self.groups(1), None), True, ("a",),
                        "overflowing decimal as tuple member")
        yield self.prog(("groups", [(big(), b.integer("w")), (("lit", b.string("g"), False), b.integer("w"))]), True, ("a",),
                        "overflowing decimal as returned group")
        yield self.prog(("groups", [(("lit", b.string("g"), False), b.decimal("big", overflow=True)),
                                    (("lit", b.string("g"), False), b.integer("w"))]), True, ("a",),
                        "overflowing decimal as weight")
        # an integer beyond the range of a float is still that integer
        huge = lambda neg=False: ("lit", b.integer("huge", huge=True), neg)      # noqa: E731
        yield self.prog(("if", [("cmp", "KW_EQ", x(), huge())], self.groups(1), ("else", self.groups(1))), True, ("a",),
                        "integer beyond the float range as right operand")
        yield self.prog(("if", [("cmp", "KW_LT", huge(True), x())], self.groups(1), None), True, ("a",),
                        "negative integer beyond the float range as left operand")
        yield self.prog(("if", [("cmp", "KW_IN", x(), ("tuple", [("lit", b.integer(), False), huge()]))], self.groups(1), None), True, ("a",),
                        "integer beyond the float range as tuple member")
        yield self.prog(("groups", [(huge(), b.integer("w")), (("lit", b.string("g"), False), b.integer("w"))]), True, ("a",),
                        "integer beyond the float range as returned group")
        yield self.prog(("groups", [(("lit", b.string("g"), False), b.integer("huge", huge=True)),
                                    (("lit", b.string("g"), False), b.integer("w"))]), True, ("a",),
                        "integer beyond the float range as weight")

    def header_variants(self):
        for salt in (True, False):
            for sp in ((), ("zeta_s",), ("zeta_s", "alpha_s"), ("mid_s", "zeta_s", "alpha_s")):
                yield self.prog(self.groups(2), salt, sp, f"header salt={salt} splitters={len(sp)}")
                yield self.prog(("if", [self.cmp()], self.groups(1), ("else", self.groups(2))), salt, sp,
                                f"header+if salt={salt} splitters={len(sp)}")
        yield self.prog(self.groups(1, ("int",)), True, ("a",), "single int group")
        yield self.prog(self.groups(3, ("float", "str", "int"), ("float", "float", "int")), False, ("a",), "mixed groups")
        neg = ("groups", [(("lit", self.b.integer("g"), True), self.b.integer("w")),
                          (("lit", self.b.decimal("g"), True), self.b.decimal("w"))])
        yield self.prog(neg, True, ("a",), "negative literals as groups")
        if self.tier == "thorough":
            yield self.prog(self.groups(8), True, ("a", "b"), "eight groups")

    def operator_variants(self):
        for op in ALL_CMP:
            yield self.prog(("if", [self.cmp(op)], self.groups(1), None), True, ("a",), f"operator {op}")
            # literal on the left, identifier on the right
            right = ("id", self.b.ident("c1"))
            left = ("lit", self.b.integer(), False) if op not in ("KW_IN", "KW_NOT_IN") else ("lit", self.b.string(), False)
            yield self.prog(("if", [self.cmp(op, left, right)], self.groups(1), ("else", self.groups(1))), True, ("a",),
                            f"operator {op} literal-first")
        # membership in a scalar literal (substring test on a string; the grammar allows any term on the right)
        for op in ("KW_IN", "KW_NOT_IN"):
            yield self.prog(("if", [self.cmp(op, ("id", self.b.ident("c0")), ("lit", self.b.string(), False))], self.groups(1),
                             ("else", self.groups(1))), True, ("a",), f"operator {op} with a string on the right")

    def term_variants(self):
        b = self.b
        terms = [
            ("lit", b.string(), False), ("lit", b.integer(), False), ("lit", b.decimal(), False),
            ("lit", b.integer(), True), ("lit", b.decimal(), True),
            ("tuple", [("lit", b.integer(), False)]),
            ("tuple", [("lit", b.string(), False), ("lit", b.decimal(), False), ("lit", b.integer(), True)]),
            ("tuple", [("id", b.ident("t_id")), ("lit", b.string(), False)]),
            ("tuple", [("tuple", [("lit", b.integer(), False), ("lit", b.string(), False)]), ("lit", b.integer(), False)]),
            ("tuple", [("tuple", [("tuple", [("id", b.ident("deep_id"))])]), ("lit", b.string(), False)]),
            ("tuple", [("tuple", [("lit", b.string(), False), ("lit", b.string(), False)]),       # a tuple of pairs (dict-able)
                       ("tuple", [("lit", b.string(), False), ("lit", b.integer(), False)])]),
            ("tuple", [("lit", b.integer(), False),                                                # a member that is a tuple of pairs
                       ("tuple", [("tuple", [("lit", b.string(), False), ("lit", b.string(), False)])]),
                       ("lit", b.integer(), False)]),
            ("tuple", [("lit", b.string(), False)]),                       # one-element tuple of a string (which may contain ',')
            ("tuple", [("tuple", [("lit", b.integer(), False), ("lit", b.integer(), False)])]),   # one-element tuple of a tuple
            # homogeneous lists of admissible values (an id allow-list, a list of countries): a renderer may treat a run of them
            ("tuple", [("lit", b.integer(), False), ("lit", b.integer(), False), ("lit", b.integer(), False)]),
            ("tuple", [("lit", b.integer(), False), ("lit", b.integer(), False), ("lit", b.integer(), False), ("lit", b.integer(), False),
                       ("lit", b.integer(), False)]),
            ("tuple", [("lit", b.string(), False), ("lit", b.string(), False), ("lit", b.string(), False)]),
            ("tuple", [("lit", b.decimal(), False), ("lit", b.decimal(), False), ("lit", b.decimal(), False)]),
        ]
        for i, t in enumerate(terms):
            if t[0] == "tuple":
                yield self.prog(("if", [("cmp", "KW_EQ", ("id", b.ident("c0")), t)], self.groups(1), None), True, ("a",),
                                f"right term #{i} tuple compared with ==")
            yield self.prog(("if", [("cmp", "KW_IN" if t[0] == "tuple" else "KW_EQ", ("id", b.ident("c0")), t)],
                             self.groups(1), None), True, ("a",), f"right term #{i} {t[0]}")
            yield self.prog(("if", [("cmp", "KW_EQ", t, ("id", b.ident("c0")))], self.groups(1), None), False, ("a",),
                            f"left term #{i} {t[0]}")

    def conditional_variants(self):
        g = self.groups
        c = self.cmp

        def chain(n_elif, with_else, inner=None):
            els = ("else", g(1)) if with_else else None
            for i in range(n_elif):
                els = ("elif", [c(name=f"e{i}")], inner if (inner and i == 0) else g(1), els)
            return ("if", [c()], g(1), els)
        for n in (0, 1, 2) if self.tier == "quick" else (0, 1, 2, 3, 4):
            for we in (False, True):
                yield self.prog(chain(n, we), True, ("a",), f"chain elif={n} else={we}")
        # nesting in every position
        inner_noelse = ("if", [c(name="n0")], g(1), None)
        inner_else = ("if", [c(name="n0")], g(1), ("else", g(1)))
        inner_chain = ("if", [c(name="n0")], g(1), ("elif", [c(name="n1")], g(1), None))
        for nm, inner in (("noelse", inner_noelse), ("else", inner_else), ("elif", inner_chain)):
            yield self.prog(("if", [c()], inner, None), True, ("a",), f"nested-in-then {nm}")
            yield self.prog(("if", [c()], inner, ("else", g(1))), True, ("a",), f"nested-in-then {nm} + outer else")
            yield self.prog(("if", [c()], g(1), ("else", inner)), True, ("a",), f"nested-in-else {nm}")
            yield self.prog(("if", [c()], g(1), ("elif", [c(name="e0")], inner, ("else", g(1)))), True, ("a",),
                            f"nested-in-elif {nm}")
            yield self.prog(("if", [c()], g(1), ("elif", [c(name="e0")], inner, None)), False, ("a",),
                            f"nested-in-elif {nm} no outer else")
        # the same return statement written in several branches (identical literals: the same symbols)
        same = g(2)
        yield self.prog(("if", [c()], same, ("elif", [c(name="e0")], g(1), ("else", same))), True, ("a",),
                        "return statement repeated in two branches")
        deep = g(1)
        for d in range(3 if self.tier == "quick" else 8):
            deep = ("if", [c(name=f"d{d}")], deep, None if d % 2 else ("else", g(1)))
        yield self.prog(deep, True, ("a",), "deep nesting")
        # far deeper than any hand-written experiment (CPython's tokenizer allows 100 indentation levels): anything in
        # the generator that saturates, caches or pre-computes per depth shows here
        very = g(1)
        for d in range(30 if self.tier == "quick" else 90):
            very = ("if", [c(name=f"v{d % 7}")], very, None)
        yield self.prog(very, True, ("a",), "very deep nesting")

    def predicate_variants(self):
        c = self.cmp

        def v(n):
            return c(name=f"p{n}")
        shapes = [
            ["not", v(0)],
            [v(0), "and", v(1)],
            [v(0), "or", v(1)],
            [v(0), "and", v(1), "or", v(2)],
            [v(0), "or", v(1), "and", v(2)],
            ["(", v(0), "or", v(1), ")", "and", v(2)],
            [v(0), "and", "(", v(1), "or", v(2), ")"],
            ["not", v(0), "and", v(1)],
            ["not", "(", v(0), "and", v(1), ")"],
            ["not", v(0), "or", v(1)],
            ["not", "(", v(0), "or", v(1), ")"],
            [v(0), "or", "not", v(1), "and", v(2)],
            ["not", "not", v(0)],
            ["(", "(", v(0), ")", ")"],
            ["(", v(0), ")", "and", "(", v(1), ")"],
            [v(0), "and", v(1), "and", v(2)],
            [v(0), "or", v(1), "or", v(2)],
            [v(0), "and", "(", v(1), "and", v(2), ")"],
            [v(0), "or", "(", v(1), "or", v(2), ")"],
            [v(0), "or", v(1), "and", v(2), "or", v(3)],
            [v(0), "and", v(1), "or", v(2), "and", v(3)],
            ["(", v(0), "or", v(1), ")", "and", "(", v(2), "or", v(3), ")"],
            ["not", v(0), "and", "not", v(1), "or", "not", v(2)],
        ]
        for i, s in enumerate(shapes):
            yield self.prog(("if", s, self.groups(1), ("else", self.groups(1))), True, ("a",), f"predicate #{i}")
        if self.tier == "thorough":
            # every predicate token sequence with up to 3 comparisons, and a seeded sample of those with 4
            yield from self.predicate_exhaustive(3)
            pass   # 4-comparison predicates are swept exhaustively in parallel (pyab_static/exhaustive.py)

    def predicate_exhaustive(self, max_leaves=4):
        """Every predicate token sequence with up to max_leaves comparisons built from the
        grammar (binary and/or, prefix not, optional parentheses around sub-predicates)."""
        def exprs(n):
            if n == 1:
                yield ["X"]
                yield ["not", "X"]
                return
            for k in range(1, n):
                for l in exprs(k):
                    for r in exprs(n - k):
                        for op in ("and", "or"):
                            for lp in (False, True):
                                for rp in (False, True):
                                    if (lp and len(l) == 1) or (rp and len(r) == 1):
                                        continue
                                    e = (["("] + l + [")"] if lp else l) + [op] + (["("] + r + [")"] if rp else r)
                                    yield e
                                    if n <= 2:
                                        yield ["not", "("] + e + [")"]
        seen = set()
        for n in range(2, max_leaves + 1):
            for e in exprs(n):
                key = tuple(e)
                if key in seen:
                    continue
                seen.add(key)
                k = itertools.count()
                items = [self.cmp(name=f"q{next(k)}") if x == "X" else x for x in e]
                yield self.prog(("if", items, self.groups(1), None), False, ("a",), "predicate " + " ".join(e))

    def sharing_variants(self):
        # a field that is both splitter and condition; condition-only fields sorting around splitters
        b = self.b
        shared = b.ident("country")
        body = ("if", [("cmp", "KW_EQ", ("id", shared), ("lit", b.string(), False)), "and",
                       ("cmp", "KW_GE", ("id", b.ident("age")), ("lit", b.integer(), False))],
                self.groups(2), ("elif", [("cmp", "KW_NOT_IN", ("id", shared),
                                           ("tuple", [("lit", b.string(), False), ("lit", b.string(), False)]))],
                                 self.groups(1), ("else", self.groups(1))))
        yield Prog(b.ident("complex_experiment"), b.string("salt"), [b.ident("user_id"), shared], body,
                   "README complete example (shared splitter/condition)")
        # conditions that read the splitters in an order other than the alphabetical one (and not the first one only)
        acc, plan, seat = b.ident("account_id"), b.ident("plan"), b.ident("seat")
        yield Prog(b.ident("e_order"), b.string("salt"), [seat, acc, plan],
                   ("if", [("cmp", "KW_EQ", ("id", seat), ("lit", b.integer(), False)), "or",
                           ("cmp", "KW_EQ", ("id", plan), ("lit", b.string(), False))], self.groups(2), ("else", self.groups(1))),
                   "conditions read later-sorted splitters first")
        # a splitter that the conditions read only from inside a tuple literal (and from inside a nested one)
        owner, acct = b.ident("owner"), b.ident("account")
        yield Prog(b.ident("e_member"), b.string("salt"), [owner],
                   ("if", [("cmp", "KW_IN", ("id", b.ident("viewer")), ("tuple", [("id", acct), ("id", owner)]))], self.groups(2),
                    ("else", self.groups(1))), "splitter read only inside a tuple")
        yield Prog(b.ident("e_member2"), None, [owner],
                   ("if", [("cmp", "KW_IN", ("id", b.ident("viewer")),
                            ("tuple", [("lit", b.integer(), False), ("tuple", [("id", owner), ("lit", b.string(), False)])]))],
                    self.groups(1), None), "splitter read only inside a nested tuple")
        # names that Python treats as soft keywords are ordinary identifiers (of Python and of the DSL); `type` also sorts before
        # `typeId` but after it once a character is appended
        yield Prog(b.ident("e_soft"), b.string("salt"), [b.ident("typeId"), b.ident("type")],
                   ("if", [("cmp", "KW_EQ", ("id", b.ident("match")), ("lit", b.integer(), False))], self.groups(2),
                    ("else", self.groups(1))), "fields named like soft keywords (type, match)")
        only = b.ident("only_field")
        yield Prog(b.ident("e2"), None, [only],
                   ("if", [("cmp", "KW_GT", ("id", only), ("lit", b.integer(), False))], self.groups(1), None),
                   "single field shared")
        yield Prog(b.ident("e3"), None, [b.ident("dup"), b.ident("dup")], self.groups(1), "duplicate splitter declaration")
        yield Prog(b.ident("e3b"), b.string("salt"), [b.ident("user_id"), b.ident("device_id"), b.ident("user_id")],
                   ("if", [("cmp", "KW_EQ", ("id", b.ident("cond_only")), ("lit", b.integer(), False))], self.groups(1), ("else", self.groups(2))),
                   "duplicate splitter declaration + condition-only field")
        # names that differ only in case, declared in both orders (a case-insensitive sort ties on them)
        for order in (("Uid", "uid"), ("uid", "Uid")):
            yield Prog(b.ident("e_case"), b.string("salt"), [b.ident(order[0]), b.ident(order[1])], self.groups(2),
                       f"splitters differing only in case, declared {order}")
        # numbered names (a 'natural' sort orders them differently from the alphabetical order)
        yield Prog(b.ident("e_num"), None, [b.ident("shard_10"), b.ident("shard_2"), b.ident("shard_1")], self.groups(1),
                   "numbered splitter names")
        # a condition field whose name is a substring of a splitter name
        sub = b.ident("type")
        yield Prog(b.ident("e_sub"), None, [b.ident("account_type")],
                   ("if", [("cmp", "KW_EQ", ("id", sub), ("lit", b.string(), False))], self.groups(1), ("else", self.groups(1))),
                   "condition field name contained in a splitter name")
        x = b.ident("x_field")
        yield Prog(b.ident("e4"), b.string("salt"), [b.ident("s1")],
                   ("if", [("cmp", "KW_EQ", ("id", x), ("id", x))], self.groups(1), None), "same identifier twice in a predicate")
        yield Prog(b.ident("e5"), b.string("salt"), [b.ident("s1")],
                   ("if", [("cmp", "KW_EQ", ("id", b.ident("aaa")), ("id", b.ident("zzz")))], self.groups(1), None),
                   "identifier compared with identifier")


def _leaves(label: str) -> int:
    return label.split().count("X")


# ------------------------------------------------------------------ production coverage
def cover_sentences(pl: "Pipeline"):
    """For every production of the *extracted* grammar, a minimal sentence (token list with
    opaque values) whose derivation uses it.  Used for rules that must see every grammar
    position a token value can flow from, including productions the reference grammar lacks."""
    g = pl.grammar
    nts = set(g.nonterminals)
    INF = 10 ** 9
    best: dict[str, list] = {}
    changed = True
    while changed:
        changed = False
        for p in g.prods[1:]:
            if all((s not in nts) or s in best for s in p.syms):
                exp = []
                for s in p.syms:
                    exp += best[s] if s in nts else [s]
                if p.name not in best or len(exp) < len(best[p.name]):
                    best[p.name] = exp
                    changed = True
    ctx = {g.start: ([], [])}
    changed = True
    while changed:
        changed = False
        for p in g.prods[1:]:
            if p.name not in ctx:
                continue
            pre, suf = ctx[p.name]
            for i, s in enumerate(p.syms):
                if s not in nts:
                    continue
                if any((x in nts and x not in best) for x in p.syms[:i] + p.syms[i + 1:]):
                    continue
                left, right = [], []
                for x in p.syms[:i]:
                    left += best[x] if x in nts else [x]
                for x in p.syms[i + 1:]:
                    right += best[x] if x in nts else [x]
                cand = (pre + left, right + suf)
                if s not in ctx or len(cand[0]) + len(cand[1]) < len(ctx[s][0]) + len(ctx[s][1]):
                    ctx[s] = cand
                    changed = True
    b = ShapeBuilder()
    out = []
    for p in g.prods[1:]:
        if p.name not in ctx or any((s in nts and s not in best) for s in p.syms):
            out.append((p, None))
            continue
        mid = []
        for s in p.syms:
            mid += best[s] if s in nts else [s]
        types = ctx[p.name][0] + mid + ctx[p.name][1]
        toks = []
        k = 0
        for t in types:
            kind = pl.token_kinds.get(t, ("raw", None))
            if t == pl.ident_token:
                k += 1
                toks.append(Tok(t, b.ident(f"cov_id{k}")))
            elif kind[0] == "value" and kind[1] == "str":
                toks.append(Tok(t, b.string("cov")))
            elif kind[0] == "value" and kind[1] == "int":
                toks.append(Tok(t, b.integer("cov")))
            elif kind[0] == "value" and kind[1] == "float":
                toks.append(Tok(t, b.decimal("cov")))
            else:
                toks.append(Tok(t, A.Sym("rawtoken", t)))
        out.append((p, toks))
    return out

"""E4: extract the grammar of the sly Parser subclass from its source: productions (from the
@_("...") strings, attached to the decorated function so each production has its action),
tokens, precedence table, start symbol and the error() override -- without importing it.

sly semantics encoded (anchored by `check_sly_anchors`):
  * functions with the same name are chained (ParserMetaDict.__setitem__: value.next_func =
    self[key]); the class dict keeps ONE entry per name at the position of the first definition;
    `_collect_grammar_rules` walks from the last definition back to the first;
  * the start symbol is the name of the first rule function in the class body;
  * a production's precedence is that of its right-most terminal unless %prec is given;
  * plain BNF only: the EBNF extensions ({ } [ ] |) are not expanded here -> AnalysisError.
"""
from __future__ import annotations

import ast
from dataclasses import dataclass, field

from .core import AnalysisError
from .srcmodel import Module, Source, dotted, norm


@dataclass
class Prod:
    index: int
    name: str
    syms: tuple
    func: ast.FunctionDef | None
    line: int
    site: str
    prec_sym: str | None = None     # %prec override
    # filled by Grammar
    prec: tuple = ("right", 0)
    builtin: str | None = None      # sly-generated EBNF helper production: opt-some | opt-none | rep | rep-empty | many | many1 | item | choice
    aliases: dict = field(default_factory=dict)   # generated symbol -> the symbols it stands for (sly _name_aliases)
    nvals: int = 0

    def __str__(self):
        return f"{self.name} -> {' '.join(self.syms) if self.syms else '<empty>'}"

    @property
    def ret(self):
        """The returned expression of the action when the body is a single `return <expr>`
        (or `pass` => None constant); otherwise None."""
        if self.func is None:
            return None
        body = [s for s in self.func.body
                if not (isinstance(s, ast.Expr) and isinstance(s.value, ast.Constant))]
        if len(body) == 1 and isinstance(body[0], ast.Return):
            return body[0].value if body[0].value is not None else ast.Constant(None)
        if len(body) == 1 and isinstance(body[0], ast.Pass):
            return ast.Constant(None)
        return None


@dataclass
class Grammar:
    prods: list                  # index 0 = S' -> start
    terminals: list
    nonterminals: list
    start: str
    precedence: dict             # terminal -> (assoc, level)
    prec_rows: list              # [(assoc, [terms])] as written
    error_func: ast.FunctionDef | None
    error_owner: str
    cls: ast.ClassDef
    mod: Module
    class_attrs: dict = field(default_factory=dict)

    def by_name(self, name):
        return [p for p in self.prods if p.name == name]


def is_parser_class(src: Source, mod: Module, c: ast.ClassDef) -> bool:
    for b in c.bases:
        name = dotted(b)
        if name and name.split(".")[-1] == "Parser":
            m2, node = src.resolve_name(mod, name.split(".")[0])
            if (m2 is not None and m2.rel.startswith("sly/")) or (
                    isinstance(node, ast.ClassDef) and node.name == "Parser"):
                return True
    return False


def extract_grammar(src: Source, lexer_tokens: dict[str, list], rel="language/grammar.py") -> Grammar:
    mod = src.mod(rel)
    classes = [c for c in mod.tree.body if isinstance(c, ast.ClassDef) and is_parser_class(src, mod, c)]
    if len(classes) != 1:
        raise AnalysisError(f"expected exactly one sly Parser subclass in {rel}, found {len(classes)}")
    c = classes[0]
    tokens = None
    prec_rows = []
    order: list[str] = []
    chain: dict[str, list] = {}
    error_func = None
    attrs = {}
    import copy as _copy

    def unroll(loop: ast.For):
        """A class-body `for <vars> in <constant table>:` that defines rule functions: one copy of its body per row, with the
        loop variables replaced in decorators and parameter defaults (where they are evaluated at definition time)."""
        it = loop.iter
        if isinstance(it, ast.Name):
            it = attrs.get(it.id)
            if it is None:
                _m2, node = src.resolve_name(mod, loop.iter.id)
                it = getattr(node, "value", None)
        if not isinstance(it, (ast.Tuple, ast.List)) or loop.orelse:
            raise AnalysisError(f"{c.name}: class-body loop over something other than a constant table: {norm(loop)[:120]}")
        names = [loop.target.id] if isinstance(loop.target, ast.Name) else [e.id for e in loop.target.elts if isinstance(e, ast.Name)]
        out = []
        for row in it.elts:
            vals = [row] if isinstance(loop.target, ast.Name) else list(getattr(row, "elts", []))
            if len(vals) != len(names):
                raise AnalysisError(f"{c.name}: class-body loop row does not match its targets: {norm(row)[:80]}")
            bind = dict(zip(names, vals))

            class Sub(ast.NodeTransformer):
                def visit_Name(self, n_):
                    if isinstance(n_.ctx, ast.Load) and n_.id in bind:
                        return _copy.deepcopy(bind[n_.id])
                    return n_
            for b_ in loop.body:
                if isinstance(b_, ast.FunctionDef):
                    f2 = _copy.deepcopy(b_)
                    f2.decorator_list = [Sub().visit(d_) for d_ in f2.decorator_list]
                    f2.args.defaults = [Sub().visit(d_) for d_ in f2.args.defaults]
                    f2.args.kw_defaults = [Sub().visit(d_) if d_ is not None else None for d_ in f2.args.kw_defaults]
                    out.append(f2)
                elif isinstance(b_, (ast.Pass, ast.Expr)):
                    continue
                else:
                    raise AnalysisError(f"{c.name}: statement in a class-body loop not understood: {norm(b_)[:100]}")
        return out

    body = []
    for st in c.body:
        if isinstance(st, ast.For):
            # the table must have been seen already: process in order
            body.append(st)
        else:
            body.append(st)
    expanded = []
    for st in body:
        if isinstance(st, ast.Assign) and len(st.targets) == 1 and isinstance(st.targets[0], ast.Name):
            attrs[st.targets[0].id] = st.value
        if isinstance(st, ast.For):
            expanded.extend(unroll(st))
        elif isinstance(st, ast.Delete):
            continue
        else:
            expanded.append(st)
    attrs.clear()
    for st in expanded:
        if isinstance(st, ast.Expr) and isinstance(st.value, ast.Constant):
            continue
        if isinstance(st, ast.Assign) and len(st.targets) == 1 and isinstance(st.targets[0], ast.Name):
            name = st.targets[0].id
            attrs[name] = st.value
            if name == "tokens":
                tokens = _tokens(st.value, lexer_tokens)
            elif name == "precedence":
                prec_rows = _precedence(st.value)
            elif name in ("start", "expected_shift_reduce", "expected_reduce_reduce", "debugfile",
                          "track_positions", "log"):
                pass
            else:
                pass
            continue
        if isinstance(st, ast.FunctionDef):
            rules = []
            for d in st.decorator_list:
                if isinstance(d, ast.Call) and dotted(d.func) == "_":
                    for a in d.args:
                        if isinstance(a, ast.Starred) and isinstance(a.value, ast.Name) and a.value.id in _module_rule_seqs(mod):
                            rules.extend(_module_rule_seqs(mod)[a.value.id])      # @_(*TABLE): the keys / members of a module constant
                            continue
                        if not (isinstance(a, ast.Constant) and isinstance(a.value, str)):
                            raise AnalysisError(f"{c.name}.{st.name}: grammar rule is not a string literal")
                        rules.append(a.value)
                elif dotted(d) in ("staticmethod", "classmethod", "property", "functools.cached_property", "cached_property"):
                    continue        # a helper of the class, not a grammar rule
                else:
                    raise AnalysisError(f"{c.name}.{st.name}: decorator not understood: {norm(d)}")
            if rules:
                if st.name not in chain:
                    order.append(st.name)
                    chain[st.name] = []
                chain[st.name].append((st, rules))
            else:
                if st.name in chain:
                    raise AnalysisError(f"{c.name}.{st.name}: undecorated redefinition of a rule function")
                if st.name == "error":
                    error_func = st
            continue
        if isinstance(st, ast.Pass):
            continue
        if isinstance(st, ast.AnnAssign) and isinstance(st.target, ast.Name) and st.target.id not in (
                "tokens", "precedence", "start", "literals"):
            attrs[st.target.id] = st.value       # an annotated class attribute that is not part of the grammar definition
            continue
        raise AnalysisError(f"{c.name}: class-body statement not understood: {norm(st)}")
    if tokens is None:
        raise AnalysisError(f"{c.name} defines no tokens")
    if not order:
        raise AnalysisError(f"{c.name} defines no grammar rules")

    start = order[0]
    if "start" in attrs:
        s = attrs["start"]
        start = s.value if isinstance(s, ast.Constant) else (dotted(s) or start)

    prods: list[Prod] = [Prod(0, "S'", (start,), None, 0, "")]
    # sly: for each name (class-dict order), from the LAST definition back to the first
    for name in order:
        for fn, rules in reversed(chain[name]):
            # decorator applied bottom-up; func.rules = [*old, *rules[::-1]]; single decorator here
            for rule in rules[::-1]:
                syms = rule.split()
                generated, alias_map = [], {}
                # sly's EBNF extensions, expanded the way sly/yacc.py:_collect_grammar_rules does
                guard = 0
                while ("{" in syms) or ("[" in syms) or any("|" in s_ and not _quoted(s_) for s_ in syms):
                    guard += 1
                    if guard > 20:
                        raise AnalysisError(f"{c.name}.{name}: EBNF rule too complex: {rule!r}")
                    for i_, s_ in enumerate(syms):
                        if s_ == "[":
                            end = syms.index("]", i_)
                            inner = syms[i_ + 1:end]
                            if any(x in ("{", "[") or "|" in x for x in inner):
                                raise AnalysisError(f"{c.name}.{name}: nested EBNF groups are not supported: {rule!r}")
                            gen = f"_{len(prods) + len(generated)}_{'_'.join(inner)}_optional"
                            generated.append((gen, tuple(inner), "opt-some", len(inner)))
                            generated.append((gen, (), "opt-none", len(inner)))
                            alias_map[gen] = list(inner)
                            syms[i_:end + 1] = [gen]
                            break
                        if s_ == "{":
                            end = syms.index("}", i_)
                            inner = syms[i_ + 1:end]
                            if any(x in ("{", "[") or "|" in x for x in inner):
                                raise AnalysisError(f"{c.name}.{name}: nested EBNF groups are not supported: {rule!r}")
                            base = f"_{len(prods) + len(generated)}_{'_'.join(inner)}"
                            generated.append((f"{base}_repeat", (f"{base}_items",), "rep", len(inner)))
                            generated.append((f"{base}_repeat", (), "rep-empty", len(inner)))
                            generated.append((f"{base}_items", (f"{base}_items", f"{base}_item"), "many", len(inner)))
                            generated.append((f"{base}_items", (f"{base}_item",), "many1", len(inner)))
                            generated.append((f"{base}_item", tuple(inner), "item", len(inner)))
                            alias_map[f"{base}_repeat"] = list(inner)
                            syms[i_:end + 1] = [f"{base}_repeat"]
                            break
                        if "|" in s_ and not _quoted(s_):
                            alts = s_.split("|")
                            gen = f"_{len(prods) + len(generated)}_{'_'.join(alts)}_choice"
                            for a_ in alts:
                                generated.append((gen, (a_,), "choice", 1))
                            syms[i_] = gen
                            break
                pname = name
                if syms[1:2] in (["::="], [":"]):
                    pname, syms = syms[0], syms[2:]
                prec_sym = None
                if "%prec" in syms:
                    if len(syms) < 2 or syms[-2] != "%prec":
                        raise AnalysisError(f"{c.name}.{name}: malformed %prec in {rule!r}")
                    prec_sym = syms[-1]
                    syms = syms[:-2]
                syms = [s[1:-1] if _quoted(s) else s for s in syms]
                prods.append(Prod(len(prods), pname, tuple(syms), fn, fn.lineno, mod.site(fn), prec_sym, aliases=alias_map))
                for gname, gsyms, kind, nv in generated:
                    prods.append(Prod(len(prods), gname, tuple(gsyms), None, fn.lineno, mod.site(fn), None, builtin=kind, nvals=nv))
    seen = {}
    for p in prods:
        k = (p.name, p.syms)
        if k in seen:
            raise AnalysisError(f"duplicate production {p}")
        seen[k] = p

    nonterminals = []
    for p in prods:
        if p.name not in nonterminals:
            nonterminals.append(p.name)
    terminals = list(tokens)
    for p in prods:
        for s in p.syms:
            if s not in nonterminals and s not in terminals:
                if s == "error":
                    terminals.append(s)
                elif len(s) == 1:
                    terminals.append(s)
                else:
                    raise AnalysisError(f"symbol {s!r} in `{p}` is neither a token nor a rule")
    precedence = {}
    for level, (assoc, terms) in enumerate(prec_rows, start=1):
        for t in terms:
            if t in precedence:
                raise AnalysisError(f"precedence given twice for {t}")
            precedence[t] = (assoc, level)
    for p in prods[1:]:
        if p.prec_sym is not None:
            if p.prec_sym not in precedence:
                raise AnalysisError(f"%prec {p.prec_sym} unknown in `{p}`")
            p.prec = precedence[p.prec_sym]
        else:
            rt = None
            for s in reversed(p.syms):
                if s in terminals:
                    rt = s
                    break
            p.prec = precedence.get(rt, ("right", 0))

    owner = c.name if error_func is not None else "sly.Parser"
    return Grammar(prods, terminals, nonterminals, start, precedence, prec_rows, error_func, owner, c, mod, attrs)


def _quoted(s: str) -> bool:
    return len(s) >= 2 and s[0] in "'\"" and s[0] == s[-1]


def _module_rule_seqs(mod) -> dict:
    """Module-level names bound to a dict display with string keys, or a tuple / list of strings (iteration order = source order)."""
    cached = getattr(mod, "_rule_seqs", None)
    if cached is not None:
        return cached
    out = {}
    for st in mod.tree.body:
        val = name = None
        if isinstance(st, ast.Assign) and len(st.targets) == 1 and isinstance(st.targets[0], ast.Name):
            name, val = st.targets[0].id, st.value
        elif isinstance(st, ast.AnnAssign) and isinstance(st.target, ast.Name) and st.value is not None:
            name, val = st.target.id, st.value
        if isinstance(val, ast.Dict) and val.keys and all(isinstance(k, ast.Constant) and isinstance(k.value, str) for k in val.keys):
            out[name] = [k.value for k in val.keys]
        elif isinstance(val, (ast.Tuple, ast.List)) and val.elts and all(isinstance(e, ast.Constant) and isinstance(e.value, str) for e in val.elts):
            out[name] = [e.value for e in val.elts]
    try:
        mod._rule_seqs = out
    except Exception:  # noqa: BLE001
        pass
    return out


def _tokens(node, lexer_tokens) -> list[str]:
    d = dotted(node)
    if d and d.endswith(".tokens"):
        cls = d.split(".")[-2]
        if cls in lexer_tokens:
            return list(lexer_tokens[cls])
        raise AnalysisError(f"tokens = {d}: lexer class not found")
    if isinstance(node, (ast.Set, ast.List, ast.Tuple)):
        out = []
        for e in node.elts:
            if isinstance(e, ast.Name):
                out.append(e.id)
            elif isinstance(e, ast.Constant) and isinstance(e.value, str):
                out.append(e.value)
            else:
                raise AnalysisError(f"token element not understood: {norm(e)}")
        return out
    raise AnalysisError(f"parser tokens expression not understood: {norm(node)}")


def _precedence(node):
    if not isinstance(node, (ast.Tuple, ast.List)):
        raise AnalysisError(f"precedence is not a literal tuple: {norm(node)}")
    rows = []
    for row in node.elts:
        if not isinstance(row, (ast.Tuple, ast.List)) or len(row.elts) < 2:
            raise AnalysisError(f"precedence row not understood: {norm(row)}")
        a = row.elts[0]
        if not (isinstance(a, ast.Constant) and a.value in ("left", "right", "nonassoc")):
            raise AnalysisError(f"precedence associativity not understood: {norm(a)}")
        terms = []
        for t in row.elts[1:]:
            if isinstance(t, ast.Name):
                terms.append(t.id)
            elif isinstance(t, ast.Constant) and isinstance(t.value, str):
                terms.append(t.value)
            else:
                raise AnalysisError(f"precedence terminal not understood: {norm(t)}")
        rows.append((a.value, terms))
    return rows


SLY_YACC_ANCHORS = [
    ("ParserMetaDict.__setitem__", "value.next_func = self[key]", "same-named rule functions are chained"),
    ("Grammar.set_start", "start = self.Productions[1].name", "default start symbol = first production"),
    ("Grammar.add_production", "precname = rightmost_terminal(syms, self.Terminals)",
     "production precedence = right-most terminal"),
    ("LRTable.lr_parse_table", "sprec, slevel = Precedence.get(a, ('right', 0))",
     "shift precedence comes from the look-ahead token"),
]

SLY_YACC_ERROR_ANCHORS = [
    ("Parser.parse", "tok = self.error(errtoken)", "error() is consulted on a syntax error"),
    ("Parser.parse", "self.state = 0", "after a returning error() the parser discards input and restarts at state 0"),
    ("Parser.parse", "t = actions[self.state].get(ltype)", "table-driven parse"),
    ("Parser.parse", "value = p.func(self, pslice)", "the production's function computes the value"),
    ("Parser.error", "sys.stderr.write('sly: Parse error in input. EOF\\n')", "the default error() only prints"),
    ("Parser.parse", "if self.state not in defaulted_states:", "the look-ahead is consulted in every non-defaulted state"),
    ("Parser.parse", "lookahead.type = '$end'", "end of input is the $end look-ahead"),
    ("Parser.parse", "if t == 0:", "accept only through the table's accept action"),
    ("Parser.parse", "errtoken = lookahead", "error() receives the offending token"),
]

"""Exercises the read-only introspection added by t1 (exits 0 with the patch)."""
import hashlib

from pyab_experiment.experiment_evaluator import ExperimentEvaluator

TEXT = (
    "def checkout_button{ salt: 's1' splitters: user_id, region\n"
    " if plan == 'pro' and region in ('eu', 'us') { return 'green' weighted 1, 'blue' weighted 3 }\n"
    " else { return 'grey' weighted 1 } }"
)
ev = ExperimentEvaluator(TEXT)
before = dict(vars(ev))

assert ev.is_loaded is True
assert ev.experiment_name == "checkout_button"
assert ev.checksum == hashlib.md5(TEXT.encode("utf-8")).hexdigest() == ev._checksum
# splitters (sorted) first, then the fields that only occur in conditions
assert ev.fields == ("region", "user_id", "plan"), ev.fields
assert ev.missing_fields({"user_id": 1}) == ("region", "plan")
row = {"user_id": 7, "region": "eu", "plan": "pro", "unused": object()}
assert ev.missing_fields(row) == ()
assert ev(**row) in ("green", "blue")
assert ev.is_current(TEXT) and not ev.is_current(TEXT + " ")
assert ev.describe() == {
    "loaded": True,
    "experiment_name": "checkout_button",
    "checksum": ev.checksum,
    "fields": ["region", "user_id", "plan"],
}
# read-only
for name in ("checksum", "experiment_name", "fields", "is_loaded"):
    try:
        setattr(ev, name, "x")
    except AttributeError:
        pass
    else:
        raise AssertionError(name)
# nothing new is stored by asking
assert vars(ev) == before

# follows a recompile, and a rejected text leaves the description untouched
ev.recompile("def other{ return 1 weighted 1 }")
assert (ev.experiment_name, ev.fields) == ("other", ())
snapshot = ev.describe()
try:
    ev.recompile("def broken{")
except Exception:
    pass
assert ev.describe() == snapshot

# an instance that never loaded anything
blank = ExperimentEvaluator.__new__(ExperimentEvaluator)
assert blank.describe() == {"loaded": False, "experiment_name": None, "checksum": None, "fields": []}
assert blank.is_current("") is False
print("t1 usage ok")

"""Exercises the new capability of t4: generate_lines() / write_to()."""

import io
import types

from pyab_experiment.codegen.python.python_generator import PythonCodeGen
from pyab_experiment.utils.wraper_functions import parse_source

PROGRAMS = [
    "def flat{ salt: 's' splitters: b, a return 'x' weighted 1, 'y' weighted 3 }",
    "def random_one{ return 1 weighted 0.5, 2.5 weighted 0.5 }",
    (
        "def chain{ splitters: uid, country if country == 'US' and not age < 18 "
        "{ if vip == 1 { return 'vip' weighted 1 } else { return 'us' weighted 1 } } "
        "else if country in ('FR', 'BE') { return 'eu' weighted 1, 'eu2' weighted 1 } "
        "else { return 'row' weighted 1 } }"
    ),
    # characters that str.splitlines() would cut at, inside string literals
    "def odd{ salt: 'a\rb' splitters: uid if f == 'x\x0cy\x1cz\x85w\u2028v' { return 'l1\x0bl2' weighted 1 } }",
    "def quotes{ if a == 'say \"hi\"' { return 'back\\slash' weighted 1 } else { return '' weighted 1 } }",
]

for text in PROGRAMS:
    tree = parse_source(text)
    for indent in ("\t", "    "):
        for expose in (True, False):
            reference = PythonCodeGen(tree, indent, expose).generate()

            gen = PythonCodeGen(tree, indent, expose)
            lines_iter = gen.generate_lines()
            assert isinstance(lines_iter, types.GeneratorType)
            # traversal already happened, as with generate()
            ref_gen = PythonCodeGen(tree, indent, expose)
            ref_gen.generate()
            assert gen.local_vars == ref_gen.local_vars
            assert gen.conditional_ids == ref_gen.conditional_ids
            lines = list(lines_iter)
            assert all("\n" not in line for line in lines)
            assert "\n".join(lines) + "\n" == reference
            assert lines == reference.split("\n")[:-1]

            kept = list(PythonCodeGen(tree, indent, expose).generate_lines(keepends=True))
            assert "".join(kept) == reference and all(line.endswith("\n") for line in kept)
            assert [line[:-1] for line in kept] == lines

            # interleaving with generate() on the same object is harmless
            assert gen.generate() == reference
            assert list(gen.generate_lines()) == lines

            stream = io.StringIO()
            assert PythonCodeGen(tree, indent, expose).write_to(stream) == len(lines)
            assert stream.getvalue() == reference

            ns = {}
            exec(compile(stream.getvalue(), "<t4>", "exec"), ns)
            assert callable(ns[tree.id])

# a slice of the module
gen = PythonCodeGen(parse_source(PROGRAMS[2]), expose_experiment_variant_function=False)
everything = gen.generate().split("\n")[:-1]
stream = io.StringIO()
assert gen.write_to(stream, 7, 9) == 3 and stream.getvalue() == "\n".join(everything[6:9]) + "\n"
stream = io.StringIO()
assert gen.write_to(stream, 8) == len(everything) - 7
for bad in ((0, 0), (5, 3), (-1, 2)):
    try:
        gen.write_to(io.StringIO(), *bad)
    except ValueError:
        pass
    else:
        raise AssertionError(bad)

# numbered listing
gen = PythonCodeGen(parse_source(PROGRAMS[2]), expose_experiment_variant_function=False)
listing = [f"{number:3d} {line}" for number, line in enumerate(gen.generate_lines(), start=1)]
assert listing[0] == "  1 from functools import partial"
assert listing[6].startswith("  7 def chain(country, uid, age, vip, **kwargs): ")
print("t4 usage ok")

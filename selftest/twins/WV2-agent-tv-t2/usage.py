"""Exercises bucket_boundaries / bucket_index added to pyab_experiment.binning.binning."""

from math import floor

from pyab_experiment.binning.binning import (
    WeightOrderError,
    bucket_boundaries,
    bucket_index,
    deterministic_choice,
    deterministic_proba,
)

ids = [f"user_{i}" for i in range(3000)] + ["", "é", "日本語"]
population = ["a", "b", "c", "d"]

# boundaries
assert bucket_boundaries([1, 2, 1]) == [(0.0, 0.25), (0.25, 0.75), (0.75, 1.0)]
assert bucket_boundaries([1, 2, 1], normalised=False) == [(0.0, 1.0), (1.0, 3.0), (3.0, 4.0)]
assert bucket_boundaries(cum_weights=(1, 3, 4)) == bucket_boundaries([1, 2, 1])
assert bucket_boundaries(n=4) == [(0.0, 0.25), (0.25, 0.5), (0.5, 0.75), (0.75, 1.0)]
assert bucket_boundaries([0.5, 0, 0.5]) == [(0.0, 0.5), (0.5, 0.5), (0.5, 1.0)]  # empty bucket
assert bucket_boundaries(iter([3, 1])) == [(0.0, 0.75), (0.75, 1.0)]

# the index agrees with the choice, the un-normalised boundaries with the index
for weights in (None, [1, 2, 1, 0], [0.5, 0.5, 0, 0], [0, 0, 3.4, 5], [4, 1, 1, 1]):
    raw = bucket_boundaries(weights, n=4, normalised=False)
    total = raw[-1][1]
    for input_id in ids:
        index = bucket_index(input_id, weights, n=4)
        assert population[index] == deterministic_choice(input_id, population, weights)
        low, high = raw[index]
        x = deterministic_proba(input_id) * total
        assert low <= x < high, (weights, input_id)
        if weights is None:
            assert index == floor(deterministic_proba(input_id) * 4)
assert bucket_index("x", cum_weights=[1, 3, 4]) == bucket_index("x", [1, 2, 1])
assert bucket_index("x", iter([1, 2, 1])) == bucket_index("x", [1, 2, 1])

# refusals: the messages of deterministic_choice, and one new subclass
def refused(error, fn, *args, **kwargs):
    try:
        fn(*args, **kwargs)
    except error as exc:
        return exc
    raise AssertionError((fn.__name__, args, kwargs))

refused(ValueError, bucket_boundaries, [0, 0])
refused(ValueError, bucket_boundaries, [1, float("inf")])
refused(ValueError, bucket_boundaries, [1, float("nan")])
refused(ValueError, bucket_boundaries, [])
refused(ValueError, bucket_boundaries, [1, 2], n=3)
refused(TypeError, bucket_boundaries, [1, 2], cum_weights=[1, 3])
refused(TypeError, bucket_boundaries)
refused(TypeError, bucket_index, "x")
refused(ValueError, bucket_index, "x", [1, 2], n=3)
refused(ValueError, bucket_index, "x", [0, 0])
exc = refused(WeightOrderError, bucket_boundaries, [3, -1, 2])
assert isinstance(exc, ValueError)
refused(WeightOrderError, bucket_boundaries, cum_weights=[3, 2, 4])
refused(WeightOrderError, bucket_boundaries, cum_weights=[float("nan"), 2])
# the choice itself never knew this error and still does not raise it
assert deterministic_choice("x", ["a", "b", "c"], [3, -1, 2]) in "abc"

print(bucket_boundaries([4, 1]))
print("usage OK")

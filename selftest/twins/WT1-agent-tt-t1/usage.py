"""exercises validate_source / ValidationResult (needs the patch)"""

import dataclasses

from pyab_experiment.utils.wraper_functions import (
    ValidationResult,
    parse_source,
    validate_source,
)

good = "def demo{ splitters: uid if x in (1, 2) { return 'a' weighted 1, 'b' weighted 3 } }"
result = validate_source(good)
assert result and result.ok and result.error is None and result.error_type is None
assert result.experiment_id == "demo" and result.message == "ok"
assert result.ast == parse_source(good)
assert result.raise_for_error() is result

bad_char = validate_source("def demo{ return 'a' weighted 1; }")
assert not bad_char and bad_char.ast is None and bad_char.experiment_id is None
assert bad_char.error_type == "LexError" and bad_char.error.error_index == 31
assert bad_char.message.startswith("LexError: Illegal character ';'")

bad_syntax = validate_source("def demo{ return 'a' }")
assert bad_syntax.error_type == "YaccError" and "RBRACE" in bad_syntax.message
assert validate_source("").error_type == "YaccError"
try:
    bad_syntax.raise_for_error()
except Exception as err:
    assert err is bad_syntax.error
else:
    raise AssertionError("raise_for_error did not raise")

# parses, but `class` cannot name a python function: only the dry run of the
# code generation notices
keyword_name = "def class{ return 'a' weighted 1 }"
assert validate_source(keyword_name).ok
dry = validate_source(keyword_name, check_codegen=True)
assert not dry.ok and dry.error_type == "SyntaxError" and dry.ast.id == "class"
assert validate_source(good, check_codegen=True).ok

# frozen result object
try:
    result.ast = None
except dataclasses.FrozenInstanceError:
    pass
else:
    raise AssertionError("result should be frozen")
assert isinstance(result, ValidationResult)
assert not ValidationResult() and ValidationResult().message.startswith("Failed to parse")
print("usage ok")

# scratch: old (recursive, from git HEAD) against new traverse on random relations
import random, subprocess, sys, types
old_src = subprocess.run(["git", "-C", "/tmp/wt/UF", "show", "HEAD:src/pyab_experiment/sly/yacc.py"], capture_output=True, text=True).stdout
old = types.ModuleType("old_yacc"); exec(compile(old_src, "old_yacc", "exec"), old.__dict__)
from pyab_experiment.sly import yacc as new
rnd = random.Random(7)
def run(mod, X, rel, fp):
    calls = []
    def R(x): calls.append(("R", x)); return rel.get(x, [])
    def FP(x): calls.append(("FP", x)); return list(fp[x])
    F = mod.digraph(X, R, FP)
    # structure: values and sharing pattern
    ids = {}
    share = [ids.setdefault(id(F[x]), len(ids)) for x in X]
    return [(x, F[x]) for x in F], share, calls
n_cases = 0
for case in range(4000):
    n = rnd.randint(1, 9)
    X = [(i, "N%d" % rnd.randint(0, 3)) for i in range(n)]
    X = list(dict.fromkeys(X))
    rel = {x: [rnd.choice(X) for _ in range(rnd.randint(0, 4))] for x in X if rnd.random() < 0.8}
    fp = {x: [rnd.choice("abcdef") for _ in range(rnd.randint(0, 3))] for x in X}
    a = run(old, X, rel, fp); b = run(new, X, rel, fp)
    assert a == b, (X, rel, fp)
    n_cases += 1
# a long chain: fine for both below the recursion limit
X = list(range(500)); rel = {i: [i + 1] for i in range(499)}; rel[499] = [250]; fp = {i: [i % 7] for i in X}
assert run(old, X, rel, fp) == run(new, X, rel, fp)
print("ok", n_cases)

"""exercises read_source / parse_file / generate_code_file and the evaluator's
from_file / recompile_file (needs the patch)"""

import tempfile
from pathlib import Path

from pyab_experiment.experiment_evaluator import ExperimentEvaluator
from pyab_experiment.sly.yacc import YaccError
from pyab_experiment.utils.wraper_functions import (
    generate_code,
    generate_code_file,
    parse_file,
    parse_source,
    read_source,
)

TEXT = "def démo{ salt: 'sél' splitters: uid if x == 'é' { return 'a' weighted 1, 'b' weighted 1 } else { return 'c' weighted 1 } }\n"
OTHER = "def other{ splitters: uid return 1 weighted 1, 2 weighted 1 }"

with tempfile.TemporaryDirectory() as tmp:
    tmp = Path(tmp)
    source = tmp / "demo.pyab"
    source.write_text(TEXT.replace("dém", "dem"), encoding="utf-8")
    text = TEXT.replace("dém", "dem")

    assert read_source(source) == text and read_source(str(source)) == text
    assert parse_file(source) == parse_source(text)

    assert generate_code_file(source) == generate_code(text)
    assert generate_code_file(source, expose_internal_fn=True) == generate_code(text, True)
    assert sorted(p.name for p in tmp.iterdir()) == ["demo.pyab"]
    written = tmp / "generated.py"
    assert generate_code_file(source, written) == generate_code(text)
    assert written.read_text(encoding="utf-8") == generate_code(text)
    generate_code_file(source, tmp)  # a directory: named after the source
    assert (tmp / "demo.py").read_text(encoding="utf-8") == generate_code(text)

    evaluator = ExperimentEvaluator.from_file(source)
    reference = ExperimentEvaluator(text)
    assert isinstance(evaluator, ExperimentEvaluator)
    assert evaluator._checksum == reference._checksum
    for uid in range(50):
        for x in ("é", "e"):
            assert evaluator(uid=uid, x=x) == reference(uid=uid, x=x)

    assert evaluator.recompile_file(source) is False  # unchanged text
    source.write_text(OTHER, encoding="utf-8")
    assert evaluator.recompile_file(source) is True
    assert evaluator.run_experiment.__name__ == "other"
    assert evaluator(uid=3) == ExperimentEvaluator(OTHER)(uid=3)

    source.write_text("def broken{", encoding="utf-8")
    try:
        evaluator.recompile_file(source)
    except YaccError:
        pass
    else:
        raise AssertionError("an invalid file must raise like recompile does")
    assert evaluator.run_experiment.__name__ == "other"  # nothing changed

    latin = tmp / "latin.pyab"
    latin.write_bytes("def l{ splitters: uid return 'é' weighted 1 }".encode("latin-1"))
    assert parse_file(latin, encoding="latin-1").conditions[0].group_definition == "é"

    for call in (read_source, parse_file, generate_code_file, ExperimentEvaluator.from_file):
        try:
            call(tmp)
        except IsADirectoryError:
            pass
        else:
            raise AssertionError("a directory is not an experiment")
        try:
            call(tmp / "missing.pyab")
        except FileNotFoundError:
            pass
        else:
            raise AssertionError("missing file")

    class Sub(ExperimentEvaluator):
        pass

    latin.write_text(OTHER, encoding="utf-8")
    assert type(Sub.from_file(latin)) is Sub
print("usage ok")

"""Exercises the opt-in parser bookkeeping Parser.collect_stats / parse_stats (needs the patch)."""
from pyab_experiment.language.grammar import ExperimentParser
from pyab_experiment.language.lexer import ExperimentLexer
from pyab_experiment.sly.yacc import Parser, YaccError
from pyab_experiment.utils.wraper_functions import parse_source

TEXT = (
    'def e { salt: "s" splitters: uid, region '
    'if a in (1, (2, 3)) and not b == "x" { return "a" weighted 1, "b" weighted 2.5 } '
    'else if c < -4 { return 1 weighted 1 } else { return "d" weighted 1 } }'
)

# off by default everywhere; a default parser stores nothing new
assert Parser.collect_stats is False and ExperimentParser.collect_stats is False
p = ExperimentParser()
ast = p.parse(ExperimentLexer().tokenize(TEXT))
assert p.parse_stats() is None and "last_parse_stats" not in vars(p)

# switched on for one instance
q = ExperimentParser()
q.collect_stats = True
assert q.parse(ExperimentLexer().tokenize(TEXT)) == ast == parse_source(TEXT)
st = q.parse_stats()
n_tokens = len(list(ExperimentLexer().tokenize(TEXT)))
assert st["tokens"] == st["shifts"] == n_tokens and st["errors"] == 0
assert st["reductions"] == sum(st["rules"].values())
assert st["rules"]["header"] == 1 and st["rules"]["tuple"] == 2 and st["rules"]["predicate"] == 5
assert st["rules"]["subconditional"] == 2 and st["rules"]["return_statement"] == 4
assert st["max_depth"] > 10
# which grammar rules does a corpus never exercise?
all_rules = {prod.name for prod in ExperimentParser._grammar.Productions[1:]}
assert all_rules - set(st["rules"]) == {"empty"}, all_rules - set(st["rules"])  # no optional part left out
print(st)

# the returned value is a copy
st["rules"].clear()
assert q.parse_stats()["rules"]["header"] == 1

# counters survive a failed parse and start afresh on every parse
try:
    q.parse(ExperimentLexer().tokenize('def e { return "a" weighted }'))
except YaccError as err:
    assert str(err) == "Syntax error at line 1, token=RBRACE"
st = q.parse_stats()
assert (st["tokens"], st["shifts"], st["errors"]) == (7, 6, 1) and "header" not in st["rules"]


# other instances are not affected
assert ExperimentParser.collect_stats is False and ExperimentParser().parse_stats() is None
print("usage ok")

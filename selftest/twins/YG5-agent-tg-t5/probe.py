"""Differential probe for refactorings of pyab_experiment (public API only).

Run as:  PYTHONPATH=/tmp/wt/TG/src /venv/bin/python probe.py
Prints one deterministic JSON document.  The output has to be byte-identical
with and without the patch under test.
"""

import hashlib
import json
import os
import random
import sys
import threading
from pathlib import Path

from pyab_experiment.binning.binning import deterministic_choice, deterministic_proba
from pyab_experiment.codegen.python.python_generator import PythonCodeGen
from pyab_experiment.data_structures.syntax_tree import (
    BooleanOperatorEnum,
    ConditionalType,
    ExperimentAST,
    ExperimentConditional,
    ExperimentGroup,
    Identifier,
    LogicalOperatorEnum,
    RecursivePredicate,
    TerminalPredicate,
)
from pyab_experiment.experiment_evaluator import ExperimentEvaluator
from pyab_experiment.utils.stats import confidence_interval, probit
from pyab_experiment.utils.wraper_functions import generate_code, parse_source

PROGRAM_DIR = Path(os.environ.get("PROBE_PROGRAMS", "/tmp/wt/TG/tests/unit/test_programs"))


def sha(text) -> str:
    if not isinstance(text, bytes):
        text = str(text).encode("utf-8", "surrogatepass")
    return hashlib.sha256(text).hexdigest()[:16]


def outcome(fn, *args, **kwargs):
    """value of a call, or the class name of what it raised"""
    try:
        return fn(*args, **kwargs)
    except BaseException as error:  # noqa: B902 - the class name is the datum
        return f"!{type(error).__name__}"


# --------------------------------------------------------------------------
# corpus of experiment texts
# --------------------------------------------------------------------------
VALID_TEXTS = {
    "minimal": "def e{return 1 weighted 1}",
    "kw_prefixed_ids": (
        "def define{ splitters: iffy, inner, notable, android, oracle, returned\n"
        " if iffy == 1 and inner != 2 or notable in (1,2) and android not in (3)"
        " or oracle > 1 and returned <= 2 and elsewhere == 'x' and weighted_x == 1"
        " and salty == 1 and splitters_1 == 1 and defx == 2 and _if == 3 and not_ == 4"
        "{ return 'a' weighted 1, 'b' weighted 2 } else if elsey == 1 {return 3 weighted 1}"
        " else { return 'z' weighted 1 } }"
    ),
    "nested_tuples": (
        "def t{ splitters: uid if x in ((1,2),(3,(4,5)),'s',(6)) and y not in (z, 'q', (w))"
        " { return 'in' weighted 1, 'also' weighted 3 } else if (x) == (1) "
        "{ return 'one' weighted 1 } else { return 'out' weighted 2, 0 weighted 1 } }"
    ),
    "comments": (
        "/* head * / still */ def c{ // salt: 'no'\n salt: 'yes' /* a */ /* b */\n"
        " splitters: a /* multi\n line\n */ , b // tail\n"
        " if a == '/* not a comment */' { return '// neither' weighted 1, \"/*\" weighted 2 }"
        " else { return 'x' weighted 1 } /**/ }"
    ),
    "quotes_backslashes": (
        "def q{ salt: \"it's\" splitters: k if v == 'say \"hi\"' or v == \"a\\\\b\" or v == 'tab\\t' "
        "or v == '{brace}' or v == '{0} %s %(x)s {nl}' or v == '' "
        "{ return \"it's\" weighted 1, 'q\"q' weighted 1, '\\\\' weighted 1, '{}' weighted 1 }"
        " else { return '' weighted 1, ' ' weighted 1 } }"
    ),
    "non_ascii": (
        "def u{ salt: 'sél-日本' splitters: k if v == 'héllo' or v in ('π', ' ', '\x85', '😀')"
        " { return 'ünï' weighted 1, '日本' weighted 2, '😀' weighted 3 } else { return 'x' weighted 1 } }"
    ),
    "numbers": (
        "def n{ splitters: k if a == -1 and b >= -2.5 and c < 007 and d != 1.50 and e <= 0 and f > -0 "
        "and g == -0.0 and h in (1, -2, 3.0, -4.5, 'five') and i == 123456789012345678901234567890 "
        "and j == 0.1000000000000000055511151231257827 "
        "{ return 1 weighted 1, -2 weighted 2.5, 3.5 weighted 0, '4' weighted 0.0, -0.0 weighted 3 }"
        " else { return 0 weighted 0.5 } }"
    ),
    "overflow_decimal": (
        "def o{ splitters: k if a < " + "9" * 400 + ".0 and b > -" + "9" * 400 + ".0 and c in (" + "9" * 400 + ".0, 1)"
        " { return " + "9" * 400 + ".0 weighted 1, -" + "9" * 400 + ".0 weighted 1 } else { return 2 weighted 1 } }"
    ),
    "overflow_weight": "def o{ splitters: k return 'a' weighted " + "9" * 400 + ".0, 'b' weighted 1 }",
    "zero_weights": "def z{ splitters: k return 'a' weighted 0, 'b' weighted 0.0 }",
    "not_chains": (
        "def n{ splitters: k if not a == 1 and not not b == 2 or not (c == 3 or not d == 4) "
        "{ return 't' weighted 1 } else if not(e in (1,2)) { return 'u' weighted 1 } }"
    ),
    "precedence": (
        "def p{ if a == 1 or b == 2 and c == 3 or not d == 4 and (e == 5 or f == 6) "
        "{ return 1 weighted 1 } else if (((g == 7))) { return 2 weighted 1 } else { return 3 weighted 1 } }"
    ),
    "splitter_is_condition": (
        "def s{ salt: 'pepper' splitters: uid, zone, uid if zone == 'eu' { if uid > 10 "
        "{ return 'big' weighted 1, 'bigger' weighted 1 } else { return 'small' weighted 1 } }"
        " else if zone == uid { return 'same' weighted 1 } }"
    ),
    "deep_mixed": (
        "def d{ splitters: k if a == 1 { if b == 2 { if c == 3 { return 'abc' weighted 1 } "
        "else if c == 4 { if d == 5 { return 'abd' weighted 1, 'x' weighted 9 } } else { return 'ab' weighted 1 } }"
        " else if b == 3 { return 'a3' weighted 1 } } else if a == 2 { return 'two' weighted 1 }"
        " else if a == 3 { if b == 1 { return 'three-one' weighted 1 } else { return 'three' weighted 1 } } }"
    ),
    "no_splitters_cond": "def r{ if a == 1 { return 'x' weighted 1, 'y' weighted 1 } else { return 'z' weighted 1, 'w' weighted 5 } }",
    "salt_only": "def so{ salt: 'abc' return 'x' weighted 1, 'y' weighted 1 }",
    "id_vs_literal": "def l{ splitters: k if 1 == a and 'x' != b and (1,2) == c and a == b and 2 > 1 { return 1 weighted 1 } else { return 2 weighted 1 } }",
    "kwargs_name": "def k{ splitters: kwargs_, self if partial == 1 or deterministic_choice == 2 or choose_experiment_variant == 3 or k == 4 { return 1 weighted 1 } else {return 2 weighted 2} }",
    "whitespace_kw": "def w{ splitters: k if a not   in (1,2) and b not\n\tin (3,4) { return 1 weighted 1 } else\n\n if a == 5 { return 2 weighted 1 } else  if a == 6 { return 3 weighted 1 } else{ return 4 weighted 1 } }",
    "fn_named_like_inner": "def choose_experiment_variant{ splitters: k if a == 1 { return 1 weighted 1 } else { return 2 weighted 1 } }",
    "fn_named_partial": "def partial{ splitters: k return 1 weighted 1, 2 weighted 1 }",
}

INVALID_TEXTS = {
    "empty": "",
    "only_comment": "// nothing",
    "no_body": "def e{}",
    "missing_weight": "def e{ return 1 }",
    "negative_weight": "def e{ return 1 weighted -1 }",
    "string_weight": "def e{ return 1 weighted '1' }",
    "splitters_before_salt": "def e{ splitters: a salt: 'x' return 1 weighted 1 }",
    "else_without_if": "def e{ else { return 1 weighted 1 } }",
    "two_returns": "def e{ return 1 weighted 1 return 2 weighted 2 }",
    "tuple_group": "def e{ return (1,2) weighted 1 }",
    "id_group": "def e{ return a weighted 1 }",
    "illegal_char": "def e{ return 1 weighted 1 } $",
    "illegal_char_at": "def e{ if a @ 1 { return 1 weighted 1 } }",
    "unterminated_string": "def e{ return 'abc weighted 1 }",
    "unterminated_block": "def e{ /* return 1 weighted 1 }",
    "multiline_string": "def e{ return 'a\nb' weighted 1 }",
    "keyword_as_id": "def if{ return 1 weighted 1 }",
    "keyword_as_field": "def e{ splitters: in return 1 weighted 1 }",
    "trailing_comma_tuple": "def e{ if a in (1,2,) { return 1 weighted 1 } }",
    "empty_tuple": "def e{ if a in () { return 1 weighted 1 } }",
    "dangling_and": "def e{ if a == 1 and { return 1 weighted 1 } }",
    "bare_term": "def e{ if a { return 1 weighted 1 } }",
    "double_op": "def e{ if a == == 1 { return 1 weighted 1 } }",
    "chained_cmp": "def e{ if 1 < a < 3 { return 1 weighted 1 } }",
    "float_no_frac": "def e{ return 1 weighted 1. }",
    "float_no_int": "def e{ return 1 weighted .5 }",
    "exp_float": "def e{ return 1 weighted 1e5 }",
    "elif_after_else": "def e{ if a == 1 { return 1 weighted 1 } else { return 2 weighted 1 } else if a == 2 { return 3 weighted 1 } }",
    "extra_tokens": "def e{ return 1 weighted 1 } def f{ return 1 weighted 1 }",
    "non_ascii_id": "def é{ return 1 weighted 1 }",
    "elseif_joined": "def e{ if a == 1 { return 1 weighted 1 } elseif a == 2 { return 2 weighted 1 } }",
    "notin_joined": "def e{ if a notin (1,2) { return 1 weighted 1 } }",
    "paren_tuple_cmp": "def e{ if (a, b) == (1, 2) and (a == 1, 2) == 3 { return 1 weighted 1 } }",
    "minus_string": "def e{ if a == -'x' { return 1 weighted 1 } }",
    "double_minus": "def e{ if a == --1 { return 1 weighted 1 } }",
    "minus_id": "def e{ if a == -b { return 1 weighted 1 } }",
    "nul_char": "def e{ return 1 weighted 1 }\x00",
}

VALUE_POOL = [
    0, 1, 2, 3, 4, 5, 6, 7, 10, 11, -1, -2, 2.5, -2.5, 3.0, 0.0, -0.0, 1.5,
    "a", "x", "eu", "", "héllo", "π", "it's", 'say "hi"', "a\\b", "tab\\t", "{brace}",
    "/* not a comment */", (1, 2), (3, (4, 5)), (1,), "s", "q", 123456789012345678901234567890,
    float("inf"), float("-inf"), None, True, "five", " ", "😀", "xyz", 8, 9,
]


INT_POOL = [0, 1, 2, 3, 4, 5, 6, 7, 10, 11, -1, -2, 8, 9, 50]
STR_POOL = ["a", "x", "eu", "", "héllo", "π", "it's", 'say "hi"', "a\\b", "{brace}", "xyz", "s", "q", "v", " "]


def call_grid(fn, names, rounds=150, pure_splitters=()):
    """calls fn with a deterministic grid of keyword values: integer rounds,
    string rounds and mixed rounds; fields that only split get id-like values"""
    results = []
    for k in range(rounds):
        pool = (INT_POOL, STR_POOL, VALUE_POOL)[k % 3]
        kwargs = {
            name: pool[(k * 7 + 3 * i + k * i) % len(pool)]
            for i, name in enumerate(names)
        }
        for name in pure_splitters:
            kwargs[name] = f"id-{k}" if k % 2 else k
        kwargs["unused_extra"] = k
        random.seed(k)  # programs without splitting fields fall back to random
        results.append(repr(outcome(fn, **kwargs)))
    # a few calls with missing arguments
    random.seed(1)
    results.append(repr(outcome(fn)))
    if names:
        random.seed(2)
        results.append(repr(outcome(fn, **{names[0]: 1})))
    return results


def exec_generated(code, fn_name):
    namespace = {}
    exec(compile(code, "<probe>", "exec"), namespace)
    return namespace[fn_name]


def generator_facts(ast, **options):
    gen = PythonCodeGen(ast, **options)
    facts = {
        "indent_before": gen.indent(),
        "local_before": gen.local_vars,
        "cond_before": gen.conditional_ids,
        "topline": sha(gen.render_topline()),
    }
    first = outcome(gen.generate)
    facts["text_sha"] = sha(first)
    facts["indent_after"] = outcome(gen.indent)
    facts["local_after"] = gen.local_vars
    facts["cond_after"] = gen.conditional_ids
    second = outcome(gen.generate)
    facts["regenerate_same"] = first == second
    facts["key_again"] = outcome(gen.generate_key_definition)
    facts["indent_final"] = outcome(gen.indent)
    return first, facts


def probe_valid(name, text):
    record = {}
    ast = parse_source(text)
    record["ast"] = sha(ast.json())
    record["ast_repr"] = sha(repr(ast))
    names, splitters = None, ()
    for label, options in (
        ("default", {}),
        ("exposed", {"expose_experiment_variant_function": True}),
        ("nested", {"expose_experiment_variant_function": False}),
        ("spaces_nested", {"indentation_char": "    ", "expose_experiment_variant_function": False}),
        ("spaces_exposed", {"indentation_char": "  ", "expose_experiment_variant_function": True}),
        ("truthy_flag", {"expose_experiment_variant_function": "yes"}),
        ("falsy_flag", {"expose_experiment_variant_function": 0}),
    ):
        code, facts = generator_facts(parse_source(text), **options)
        record[label] = facts
        if name in ("minimal", "nested_tuples", "splitter_is_condition") and label in ("exposed", "nested"):
            record[label]["text"] = code
        if isinstance(code, str) and not code.startswith("!"):
            names = facts["local_after"] + [n for n in facts["cond_after"] if n not in facts["local_after"]]
            splitters = [n for n in facts["local_after"] if n not in facts["cond_after"]]
            fn = outcome(exec_generated, code, ast.id)
            record[label]["calls"] = sha(json.dumps(call_grid(fn, names, pure_splitters=splitters))) if callable(fn) else fn
    for flag in (False, True):
        formatted = outcome(generate_code, text, flag)
        record[f"black_{flag}"] = sha(formatted)
        if isinstance(formatted, str) and not formatted.startswith("!"):
            fn = outcome(exec_generated, formatted, ast.id)
            record[f"black_{flag}_calls"] = sha(json.dumps(call_grid(fn, names, pure_splitters=splitters))) if callable(fn) else fn
    default_layout = outcome(generate_code, text)
    record["black_default_is_false"] = default_layout == outcome(generate_code, text, False)
    evaluator = outcome(ExperimentEvaluator, text)
    if isinstance(evaluator, ExperimentEvaluator):
        grid = call_grid(evaluator, names, pure_splitters=splitters)
        record["evaluator_calls"] = sha(json.dumps(grid))
        record["evaluator_sample"] = grid[:12]
        record["evaluator_name"] = evaluator.run_experiment.__name__
    else:
        record["evaluator"] = evaluator
    return record


def probe_invalid(text):
    return {
        "parse": outcome(lambda: sha(repr(parse_source(text)))),
        "generate_code": outcome(lambda: sha(generate_code(text))),
        "generate_code_exposed": outcome(lambda: sha(generate_code(text, True))),
        "evaluator": outcome(lambda: type(ExperimentEvaluator(text)).__name__),
    }


# --------------------------------------------------------------------------
# ASTs built directly (valid for the pydantic models, not reachable from text)
# --------------------------------------------------------------------------
def groups(*pairs):
    return [ExperimentGroup(group_definition=d, group_weight=w) for d, w in pairs]


def term_pred(left, op, right):
    return TerminalPredicate(left_term=left, logical_operator=op, right_term=right)


def direct_asts():
    ident = Identifier
    eq = LogicalOperatorEnum.EQ
    leaf = groups(("a", 1), ("b", 2))
    cases = {}
    cases["every_operator"] = ExperimentAST(
        id="ops", splitting_fields=["k"], salt=None,
        conditions=ExperimentConditional(
            conditional_type=ConditionalType.IF,
            predicate=RecursivePredicate(
                left_predicate=RecursivePredicate(
                    left_predicate=term_pred(ident(name="a"), LogicalOperatorEnum.EQ, 1),
                    boolean_operator=BooleanOperatorEnum.AND,
                    right_predicate=RecursivePredicate(
                        left_predicate=term_pred(ident(name="b"), LogicalOperatorEnum.NE, 2.5),
                        boolean_operator=BooleanOperatorEnum.OR,
                        right_predicate=term_pred(ident(name="c"), LogicalOperatorEnum.GT, "x"),
                    ),
                ),
                boolean_operator=BooleanOperatorEnum.OR,
                right_predicate=RecursivePredicate(
                    left_predicate=RecursivePredicate(
                        left_predicate=term_pred(ident(name="d"), LogicalOperatorEnum.GE, -1),
                        boolean_operator=BooleanOperatorEnum.NOT,
                        right_predicate=None,
                    ),
                    boolean_operator=BooleanOperatorEnum.AND,
                    right_predicate=RecursivePredicate(
                        left_predicate=term_pred(ident(name="e"), LogicalOperatorEnum.LT, 3),
                        boolean_operator=BooleanOperatorEnum.AND,
                        right_predicate=RecursivePredicate(
                            left_predicate=term_pred(ident(name="f"), LogicalOperatorEnum.LE, 4),
                            boolean_operator=BooleanOperatorEnum.AND,
                            right_predicate=RecursivePredicate(
                                left_predicate=term_pred(ident(name="g"), LogicalOperatorEnum.IN, (1, 2)),
                                boolean_operator=BooleanOperatorEnum.AND,
                                right_predicate=term_pred(ident(name="h"), LogicalOperatorEnum.NOT_IN, (3,)),
                            ),
                        ),
                    ),
                ),
            ),
            true_branch=leaf, false_branch=None,
        ),
    )
    cases["else_with_false_branch_and_predicate"] = ExperimentAST(
        id="weird", splitting_fields=None, salt="s",
        conditions=ExperimentConditional(
            conditional_type=ConditionalType.ELSE,
            predicate=term_pred(ident(name="ignored"), eq, 1),
            true_branch=leaf,
            false_branch=ExperimentConditional(
                conditional_type=ConditionalType.IF, predicate=None, true_branch=[],
                false_branch=ExperimentConditional(
                    conditional_type=ConditionalType.ELIF, predicate=None,
                    true_branch=ExperimentConditional(
                        conditional_type=ConditionalType.ELIF,
                        predicate=term_pred(1, eq, 2), true_branch=leaf, false_branch=leaf,
                    ),
                    false_branch=leaf,
                ),
            ),
        ),
    )
    cases["not_with_right_and_and_without"] = ExperimentAST(
        id="n", splitting_fields=[], salt="",
        conditions=ExperimentConditional(
            conditional_type=ConditionalType.IF,
            predicate=RecursivePredicate(
                left_predicate=RecursivePredicate(
                    left_predicate=term_pred(ident(name="a"), eq, 1),
                    boolean_operator=BooleanOperatorEnum.NOT,
                    right_predicate=term_pred(ident(name="dropped"), eq, 1),
                ),
                boolean_operator=BooleanOperatorEnum.AND,
                right_predicate=None,
            ),
            true_branch=leaf, false_branch=None,
        ),
    )
    cases["odd_tuple_members"] = ExperimentAST(
        id="t", splitting_fields=["b", "a", "b"], salt="it's \"q\" \n {x} \\",
        conditions=ExperimentConditional(
            conditional_type=ConditionalType.IF,
            predicate=RecursivePredicate(
                left_predicate=term_pred(
                    ident(name="v"), LogicalOperatorEnum.IN,
                    (None, True, {"k": 1}, [1, [2, [3]]], (), [], ident(name="w"), float("inf"),
                     float("-inf"), float("nan"), 10**400, -(10**400), 1e308, b"bytes", {1}, 2 + 3j,
                     ExperimentGroup(group_definition=1, group_weight=1), LogicalOperatorEnum.EQ),
                ),
                boolean_operator=BooleanOperatorEnum.OR,
                right_predicate=term_pred((ident(name="x"),), eq, ((("y",),),)),
            ),
            true_branch=groups((float("inf"), float("inf")), (float("-inf"), 0), (float("nan"), 1), (True, True)),
            false_branch=None,
        ),
    )
    cases["odd_identifier_names"] = ExperimentAST(
        id="fn", splitting_fields=["a b", "{x}"], salt=None,
        conditions=ExperimentConditional(
            conditional_type=ConditionalType.IF,
            predicate=term_pred(ident(name="line\nbreak"), eq, ident(name="{nl} {0} %s")),
            true_branch=leaf, false_branch=None,
        ),
    )
    cases["elif_root"] = ExperimentAST(
        id="r", splitting_fields=["k"], salt=None,
        conditions=ExperimentConditional(
            conditional_type=ConditionalType.ELIF,
            predicate=term_pred(ident(name="k"), eq, ident(name="k")),
            true_branch=groups(("only", 0.5)), false_branch=None,
        ),
    )
    cases["coerced_inputs"] = ExperimentAST(
        id="c", splitting_fields=("t1", "t2"), salt=None,
        conditions=(
            {"group_definition": "1", "group_weight": "2"},
            {"group_definition": 1.0, "group_weight": 2},
            {"group_definition": b"by", "group_weight": 1.5},
        ),
    )
    return cases


def probe_direct(ast):
    record = {"ast": sha(ast.json()) if "odd_tuple" not in ast.id and ast.id != "t" else sha(repr(ast))}
    for label, options in (
        ("exposed", {}),
        ("nested", {"expose_experiment_variant_function": False, "indentation_char": "  "}),
    ):
        code, facts = generator_facts(ast.copy(deep=True), **options)
        facts["text"] = code
        record[label] = facts
    return record


# --------------------------------------------------------------------------
# evaluator life cycle and threads
# --------------------------------------------------------------------------
def probe_lifecycle():
    first = "def a{ splitters: k return 'x' weighted 1, 'y' weighted 1 }"
    second = "def b{ salt: 'z' splitters: k if k > 50 { return 'hi' weighted 1, 'HI' weighted 1 } else { return 'lo' weighted 1 } }"
    broken = "def c{ splitters: k return 'x' weighted }"
    unlexable = "def c{ splitters: k return 'x' weighted 1 } #"
    uncompilable = "def d{ splitters: k " + "if k == 1 {" * 120 + "return 1 weighted 1" + "}" * 120 + "}"
    history = []

    def snapshot(evaluator, note):
        history.append(
            [note, evaluator._checksum, evaluator.run_experiment.__name__,
             [repr(outcome(evaluator, k=i)) for i in (1, 49, 50, 51, 99, "s")]]
        )

    evaluator = ExperimentEvaluator(first)
    snapshot(evaluator, "init")
    for note, text in (
        ("same", first), ("second", second), ("broken", broken), ("broken_again", broken),
        ("unlexable", unlexable), ("uncompilable", uncompilable), ("back", first), ("second_again", second),
        ("empty", ""),
    ):
        history.append([note, repr(outcome(evaluator.recompile, text))])
        snapshot(evaluator, note)
    history.append(["construct_broken", outcome(lambda: type(ExperimentEvaluator(broken)).__name__)])
    history.append(["class_default", outcome(ExperimentEvaluator.run_experiment, None)])
    return history


def probe_threads():
    text = VALID_TEXTS["deep_mixed"]
    evaluator = ExperimentEvaluator(text)
    arguments = [
        {"k": f"id{i}", "a": i % 4, "b": i % 5, "c": i % 6, "d": 5} for i in range(400)
    ]
    sequential = [repr(outcome(evaluator, **kw)) for kw in arguments]
    parallel = [None] * len(arguments)
    compiled = [None] * 8

    def work(slot):
        for i in range(slot, len(arguments), 8):
            parallel[i] = repr(outcome(evaluator, **arguments[i]))
        compiled[slot] = sha(PythonCodeGen(parse_source(text), expose_experiment_variant_function=bool(slot % 2)).generate())

    threads = [threading.Thread(target=work, args=(slot,)) for slot in range(8)]
    for thread in threads:
        thread.start()
    for thread in threads:
        thread.join()
    return {"same": sequential == parallel, "results": sha(json.dumps(sequential)), "compiled": compiled}


def probe_binning_and_stats():
    ids = [f"user-{i}" for i in range(300)] + ["", "é", "日本", "😀", "0", "None"]
    record = {
        "proba": sha(json.dumps([deterministic_proba(i) for i in ids])),
        "plain": sha(json.dumps([deterministic_choice(i, ["a", "b", "c"]) for i in ids])),
        "weights": sha(json.dumps([deterministic_choice(i, ["a", "b", "c"], [1, 0, 2.5]) for i in ids])),
        "cum": sha(json.dumps([deterministic_choice(i, ["a", "b", "c"], cum_weights=[1, 1, 3.5]) for i in ids])),
        "salted": sha(json.dumps([deterministic_choice("salt" + i, [1, 2], [3, 7]) for i in ids])),
        "errors": [
            outcome(deterministic_choice, "x", ["a"], [1], cum_weights=[1]),
            outcome(deterministic_choice, "x", ["a", "b"], [1]),
            outcome(deterministic_choice, "x", ["a", "b"], [0, 0]),
            outcome(deterministic_choice, "x", ["a", "b"], [float("inf"), 1]),
            outcome(deterministic_choice, "x", []),
            outcome(deterministic_choice, None, []),
        ],
        "probit": [repr(outcome(probit, a)) for a in (0.5, 0.975, 0.025, 0.001, 0.999, 0, 1, 2)],
        "ci": [
            repr(outcome(confidence_interval, n, p, c, m))
            for n in (1, 10, 1000, 0)
            for p in (0.0, 0.2, 0.5, 1.0)
            for c in (0.9, 0.95, 0.999)
            for m in ("agresti-coull", "Wald", "WALD", "wilson")
        ],
    }
    record["ci"] = sha(json.dumps(record["ci"]))
    return record


# --------------------------------------------------------------------------
# depth limits: the largest nesting the generator renders before RecursionError
# --------------------------------------------------------------------------
def family_nested_if(n, leaf="return 'x' weighted 1"):
    return "def e{ splitters: a " + "if a == 1 {" * n + leaf + "}" * n + "}"


def family_nested_if_str(n):
    return "def e{ splitters: a " + "if a == 'v' {" * n + "return 'x' weighted 1" + "}" * n + "}"


def family_nested_if_num_leaf(n):
    return family_nested_if(n, "return 1 weighted 1.5")


def family_nested_else(n):
    return "def e{ " + "if a == 'v' { return 'x' weighted 1 } else {" * n + "return 'x' weighted 1" + "}" * n + "}"


def family_elif_chain(n):
    return (
        "def e{ splitters: a if a == 0 { return 1 weighted 1 }"
        + "".join(f" else if a == {i} {{ return {i} weighted 1 }}" for i in range(1, n + 1))
        + "}"
    )


def family_elif_chain_str(n):
    return (
        "def e{ if a == 'v' { return 'x' weighted 1 }"
        + " else if a == 'v' { return 'x' weighted 1 }" * n
        + " else { return 'x' weighted 1 } }"
    )


def family_not_chain(n):
    return "def e{ if " + "not " * n + "a == 'x' { return 1 weighted 1 } }"


def family_not_chain_num(n):
    return "def e{ if " + "not " * n + "a == 1 { return 1 weighted 1 } }"


def family_and_chain(n):
    return "def e{ if " + " and ".join(["a == 'x'"] * (n + 1)) + " { return 'x' weighted 1 } }"


def family_right_and(n):
    return "def e{ if " + "a == 'x' and (" * n + "a == 1" + ")" * n + " { return 1 weighted 1 } }"


def family_tuples(n):
    return "def e{ if a in " + "(" * n + "1" + ")" * n + " { return 1 weighted 1 } }"


def family_tuples_str(n):
    return "def e{ if a in " + "(" * n + "'s'" + ")" * n + " { return 's' weighted 1 } }"


def family_tuples_id(n):
    return "def e{ if " + "(" * n + "b, 1" + ")" * n + " == a { return 's' weighted 1 } }"


FAMILIES = [
    family_nested_if, family_nested_if_str, family_nested_if_num_leaf, family_nested_else,
    family_elif_chain, family_elif_chain_str, family_not_chain, family_not_chain_num,
    family_and_chain, family_right_and, family_tuples, family_tuples_str, family_tuples_id,
]


def renders(text, **options):
    ast = parse_source(text)
    result = outcome(PythonCodeGen(ast, **options).generate)
    return True if not result.startswith("!") else result


def depth_limit(family, **options):
    low, high = 1, 1100
    assert renders(family(low), **options) is True
    failure = renders(family(high), **options)
    assert failure is not True
    while high - low > 1:
        middle = (low + high) // 2
        if renders(family(middle), **options) is True:
            low = middle
        else:
            high = middle
    return [low, renders(family(high), **options)]


def probe_depth_limits():
    record = {}
    for family in FAMILIES:
        record[family.__name__] = {
            "exposed": depth_limit(family),
            "nested": depth_limit(family, expose_experiment_variant_function=False),
        }
    # what the evaluator and generate_code make of deep but renderable programs
    for label, text in (
        ("if_90", family_nested_if(90)), ("if_97", family_nested_if(97)), ("if_98", family_nested_if(98)),
        ("if_99", family_nested_if(99)), ("if_100", family_nested_if(100)), ("if_101", family_nested_if(101)),
        ("tuple_150", family_tuples(150)), ("tuple_197", family_tuples(197)), ("tuple_198", family_tuples(198)),
        ("tuple_199", family_tuples(199)), ("tuple_200", family_tuples(200)), ("tuple_201", family_tuples(201)),
        ("not_150", family_not_chain(150)), ("not_198", family_not_chain(198)), ("not_199", family_not_chain(199)),
        ("not_200", family_not_chain(200)), ("not_210", family_not_chain(210)),
        ("elif_500", family_elif_chain(500)),
    ):
        evaluator = outcome(ExperimentEvaluator, text)
        record[label] = {
            "evaluator": evaluator if isinstance(evaluator, str) else repr(outcome(evaluator, a=1)),
            "raw": sha(outcome(PythonCodeGen(parse_source(text)).generate)),
        }
    for label, text in (("if_60", family_nested_if(60)), ("tuple_60", family_tuples(60)), ("elif_60", family_elif_chain(60))):
        record["black_" + label] = sha(outcome(generate_code, text))
    return record


def probe_bucketing():
    record = {}
    programs = {
        "unsalted": "def b{ splitters: uid return 'a' weighted 1, 'b' weighted 2, 'c' weighted 0, 'd' weighted 0.5 }",
        "salted": "def b{ salt: 'pepper' splitters: uid return 'a' weighted 1, 'b' weighted 2, 'c' weighted 0, 'd' weighted 0.5 }",
        "salted_quote": "def b{ salt: \"o'k\" splitters: uid return 'a' weighted 1, 'b' weighted 2, 'c' weighted 0, 'd' weighted 0.5 }",
        "two_fields": "def b{ salt: 's' splitters: zone, uid return 1 weighted 3, 2 weighted 3, 3.5 weighted 3 }",
        "conditional": (
            "def b{ salt: 's' splitters: uid if zone in ('eu', 'us') and not uid < 100 { return 'x' weighted 9, 'y' weighted 1 }"
            " else if zone == 'eu' { return 'x' weighted 1, 'y' weighted 9 } else { return 'z' weighted 1 } }"
        ),
    }
    for name, text in programs.items():
        evaluator = ExperimentEvaluator(text)
        exposed = exec_generated(PythonCodeGen(parse_source(text)).generate(), "b")
        formatted = exec_generated(generate_code(text, True), "b")
        picks = []
        agree = True
        for i in range(1500):
            kwargs = {"uid": i if i % 3 else f"u{i}", "zone": ("eu", "us", "asia")[i % 3]}
            pick = outcome(evaluator, **kwargs)
            agree = agree and pick == outcome(exposed, **kwargs) == outcome(formatted, **kwargs)
            picks.append(pick)
        counts = {}
        for pick in picks:
            counts[repr(pick)] = counts.get(repr(pick), 0) + 1
        record[name] = {"counts": counts, "sequence": sha(json.dumps(picks)), "layouts_agree": agree}
    return record


def main(extra=None):
    sys.setrecursionlimit(1000)
    report = {"valid": {}, "invalid": {}, "direct": {}}
    for path in sorted(PROGRAM_DIR.glob("*.pyab")):
        report["valid"]["file:" + path.name] = probe_valid(path.name, path.read_text())
    for name, text in VALID_TEXTS.items():
        report["valid"][name] = outcome(probe_valid, name, text)
    for name, text in INVALID_TEXTS.items():
        report["invalid"][name] = probe_invalid(text)
    for name, ast in direct_asts().items():
        report["direct"][name] = outcome(probe_direct, ast)
    report["lifecycle"] = probe_lifecycle()
    report["threads"] = probe_threads()
    report["binning_stats"] = probe_binning_and_stats()
    report["bucketing"] = probe_bucketing()
    report["depth_limits"] = probe_depth_limits()
    if extra is not None:
        report["extra"] = extra()
    print(json.dumps(report, indent=1, sort_keys=True, ensure_ascii=True, default=repr))


def extra():
    """refactoring 5: argument lists for overlapping / duplicated / oddly ordered
    names, key definitions for every salt and splitter combination, and the
    public properties at every step and from every stack height"""
    record = {}
    leaf = groups(("a", 1), ("b", 1))

    def build(splitting_fields, salt, names):
        predicate = term_pred(Identifier(name=names[0]), LogicalOperatorEnum.EQ, 1)
        for name in names[1:]:
            predicate = RecursivePredicate(
                left_predicate=predicate, boolean_operator=BooleanOperatorEnum.OR,
                right_predicate=term_pred(tuple([Identifier(name=name), 2]), LogicalOperatorEnum.NE, Identifier(name=name)),
            )
        return ExperimentAST(
            id="f", splitting_fields=splitting_fields, salt=salt,
            conditions=ExperimentConditional(
                conditional_type=ConditionalType.IF, predicate=predicate, true_branch=leaf, false_branch=None),
        )

    name_sets = [
        ["b", "a", "c"], ["z", "Z", "_z", "z1", "z10", "z2"], ["a"], ["é", "e", "f"], ["kwargs", "self", "id"],
        ["x", "x", "x"], ["B", "a", "C", "b"],
    ]
    splitter_sets = [None, [], ["a"], ["c", "a", "b"], ["a", "a"], ["q"], ["z10", "z2", "Z"], ["x", "y", "x"], ["id"]]
    salts = [None, "", "s", "it's", 'q"', "'\"", "\\", "\n", "é", "None", "''"]
    for i, names in enumerate(name_sets):
        for j, fields in enumerate(splitter_sets):
            salt = salts[(i * 3 + j) % len(salts)]
            for flag in (True, False):
                gen = PythonCodeGen(build(fields, salt, names), expose_experiment_variant_function=flag)
                steps = [gen.local_vars, gen.conditional_ids]
                steps.append(gen.generate_key_definition())
                steps += [gen.local_vars, gen.conditional_ids]
                text = gen.generate()
                steps += [gen.local_vars, gen.conditional_ids, gen.generate_key_definition()]
                lines = text.split("\n")
                steps += [line for line in lines if line.lstrip("\t").startswith(("def ", "return choose"))]
                record[f"{i}/{j}/{flag}"] = steps
    for salt in salts:
        for fields in (None, [], ["k"]):
            ast = ExperimentAST(id="f", splitting_fields=fields, salt=salt, conditions=leaf)
            record[f"key/{salt!r}/{fields!r}"] = PythonCodeGen(ast).generate_key_definition()

    def at_height(extra_frames, fn):
        if extra_frames == 0:
            return fn()
        return at_height(extra_frames - 1, fn)

    ast = build(["c", "a"], "s", ["b", "a"])
    rows = []
    for height in range(960, 1000):
        gen = PythonCodeGen(ast)
        rows.append([
            height,
            repr(outcome(at_height, height, lambda: gen.local_vars)),
            repr(outcome(at_height, height, lambda: gen.conditional_ids)),
            repr(outcome(at_height, height, gen.generate_key_definition)),
            repr(gen.local_vars),
            sha(outcome(at_height, height, gen.generate)),
        ])
    record["heights"] = rows
    return record


if __name__ == "__main__":
    main(extra)

"""Exercises Lexer.describe_rules / keyword_patterns / is_plain_identifier (needs the patch)."""
import re

from pyab_experiment.language.lexer import (
    BlockComment,
    ExperimentLexer,
    is_plain_identifier,
    keyword_patterns,
)
from pyab_experiment.utils.wraper_functions import parse_source

rules = ExperimentLexer.describe_rules()
names = [name for name, _, _ in rules]
# matching order is what makes "not in" one token and keeps keywords ahead of identifiers
assert names.index("KW_NOT_IN") < names.index("KW_NOT") < names.index("ID")
assert names.index("KW_ELIF") < names.index("KW_ELSE")
assert names.index("NON_NEG_FLOAT") < names.index("NON_NEG_INTEGER")
assert ("ID", "[a-zA-Z_][a-zA-Z0-9_]*", "token") in rules
assert ("inline_comment", "//.*", "ignore") in rules and ("newline", r"\n+", "ignore") in rules
assert dict((n, k) for n, _, k in rules)["STRING_LITERAL"] == "action"
assert all(type(p) is str for _, p, _ in rules)
# every emitted rule is a declared token or a helper action
assert {n for n, _, k in rules if k == "token"} <= ExperimentLexer.tokens
# the table describes the regex really in use
assert "|".join(f"(?P<{n}>{p})" for n, p, _ in rules) == ExperimentLexer._master_re.pattern
assert [n for n, _, _ in BlockComment.describe_rules()] == ["BLOCK_COMMENT_END", "t_block_comment_content", "newline"]
# a fresh list each time: editing it is harmless
rules.clear()
assert len(ExperimentLexer.describe_rules()) == 34

kw = keyword_patterns()
assert list(kw)[:3] == ["KW_IN", "KW_NOT_IN", "KW_NOT"] and len(kw) == 13
assert kw["KW_ELIF"] == r"else\s*if\b" and "KW_EQ" not in kw and "ID" not in kw
assert re.fullmatch(kw["KW_NOT_IN"], "not \t in")

good = ["a", "_", "iffy", "inn", "notx", "not_in", "else_if", "elseifx", "define", "A9", "__x", "returns", "android"]
bad = ["", "if", "in", "not", "def", "salt", "splitters", "else", "elseif", "else if", "weighted", "return", "and", "or",
       "9a", "a b", " a", "a ", "a\n", "a//b", "a-b", "naïve", "é", "a.b", "'a'", "not in", "a/*c*/", "/**/a"]
assert all(is_plain_identifier(w) for w in good), [w for w in good if not is_plain_identifier(w)]
assert not any(is_plain_identifier(w) for w in bad), [w for w in bad if is_plain_identifier(w)]
# agrees with what the parser accepts as experiment and field name
for w in good + bad:
    text = f"def {w} {{ splitters: {w} return 1 weighted 1 }}"
    try:
        ast = parse_source(text)
        accepted = ast.id == w and ast.splitting_fields == [w]
    except Exception:
        accepted = False
    if is_plain_identifier(w):
        assert accepted, w
    elif w.strip() == w and "/" not in w and w != "":
        assert not accepted, w
print("usage ok")

"""Exercises the new token debugging helpers (needs the patch)."""
from pyab_experiment.language.lexer import (
    ExperimentLexer,
    TokenInfo,
    format_tokens,
    iter_tokens,
    tokens_of,
)
from pyab_experiment.sly.lex import LexError

TEXT = """/* header */
def iffy {
    salt: "s/*x*/"   // comment
    splitters: inn, notx
    if inn not   in (1, -2.5) { return "a" weighted 1 } else { return 'b' weighted 0.5 }
}
"""

toks = tokens_of(TEXT)
assert all(isinstance(t, TokenInfo) for t in toks)
# identical to what the real lexer yields
ref = [(t.type, t.value, t.lineno, t.index, t.end) for t in ExperimentLexer().tokenize(TEXT)]
assert [(t.type, t.value, t.lineno, t.index, t.end) for t in toks] == ref
assert [t.type for t in toks][:6] == ["KW_DEF", "ID", "LBRACE", "KW_SALT", "COLON", "STRING_LITERAL"]
assert toks[1].value == "iffy" and toks[1].type == "ID"
salt = toks[5]
assert salt.value == "s/*x*/" and salt.source(TEXT) == '"s/*x*/"' and salt.length == 8
assert any(t.type == "KW_NOT_IN" and t.source(TEXT) == "not   in" for t in toks)

# snapshots are immutable and comparable
try:
    toks[0].value = "x"
except Exception as e:
    assert type(e).__name__ == "FrozenInstanceError"
else:
    raise AssertionError("TokenInfo must be frozen")
assert tokens_of(TEXT) == toks

# lazy variant: the error surfaces when the bad character is reached, same class as before
it = iter_tokens("def e { @ }")
assert [next(it).type for _ in range(3)] == ["KW_DEF", "ID", "LBRACE"]
try:
    next(it)
except LexError as e:
    assert e.error_index == 8
else:
    raise AssertionError("expected LexError")

# explicit start position is passed through
assert [t.lineno for t in iter_tokens("ab cd", lineno=7, index=3)] == [7]

table = format_tokens(TEXT)
assert len(table.splitlines()) == len(toks)
assert format_tokens("") == ""
print(table)
print("usage ok")

# flake8: noqa
"""Differential probe: prints a deterministic JSON summary of the behaviour of the
API that exists on HEAD.  Run as
    PYTHONPATH=/tmp/wt/TX/src /venv/bin/python probe.py
The output must be byte-identical with and without the patch."""
import contextlib
import hashlib
import inspect
import io
import json
import random
import re
import sys
import threading

from pyab_experiment.binning.binning import deterministic_choice, deterministic_proba
from pyab_experiment.codegen.python.python_generator import PythonCodeGen
from pyab_experiment.experiment_evaluator import ExperimentEvaluator, ParseError
from pyab_experiment.language.grammar import ExperimentParser
from pyab_experiment.language.lexer import BlockComment, ExperimentLexer
from pyab_experiment.sly import Lexer, Parser
from pyab_experiment.sly.lex import LexError, Token
from pyab_experiment.sly.yacc import YaccError
from pyab_experiment.utils.stats import confidence_interval, probit
from pyab_experiment.utils.wraper_functions import generate_code, parse_source


def sha(s):
    return hashlib.sha256(s.encode("utf-8", "surrogatepass")).hexdigest()[:16]


def exc_info(e):
    d = {
        "class": type(e).__name__,
        "mro": [c.__name__ for c in type(e).__mro__],
        "args": repr(e.args),
        "str": str(e),
        "vars": {k: repr(v) for k, v in sorted(vars(e).items())},
        "cause": type(e.__cause__).__name__ if e.__cause__ is not None else None,
        "context": type(e.__context__).__name__ if e.__context__ is not None else None,
    }
    return d


BODY = 'return "a" weighted 1, "b" weighted 1'

VALID_AND_INVALID = [
    # --- plain
    "def e { " + BODY + " }",
    'def e{return "a" weighted 1}',
    'def e { salt: "s1" splitters: uid ' + BODY + " }",
    'def e { salt: \'s1\' splitters: uid, country, uid ' + BODY + " }",
    'def e { splitters: uid salt: "late" ' + BODY + " }",
    'def e { splitters: uid, ' + BODY + " }",
    'def e { splitters: ' + BODY + " }",
    # --- keyword prefixed identifiers
    "def iffy { splitters: inn, notx, define, salty if inn == 1 { " + BODY + " } else { return 1 weighted 1 } }",
    "def returns { splitters: splitters_x, elsewhere, weighted_x if android > 1 or order < 2 and in_ != 3 { " + BODY + " } }",
    "def e { if not_in in (1,2) and else_if not in (3) { " + BODY + " } else { return 0 weighted 2 } }",
    "def e { if elseifx == 1 { " + BODY + " } elseif b == 2 { return 2 weighted 1 } else  \n if c == 3 { return 3 weighted 1 } else { return 4 weighted 1 } }",
    "def e { if a not   in (1, 2) { " + BODY + " } else { return 'z' weighted 1 } }",
    "def e { if a not\n\tin (1, 2) { " + BODY + " } else { return 'z' weighted 1 } }",
    "def e { if a notin (1, 2) { " + BODY + " } }",
    "def e { if not a == 1 and not not b == 2 { " + BODY + " } else { return 'n' weighted 1 } }",
    "def e { if not (a == 1 or b == 2) and c == 3 { " + BODY + " } else { return 'n' weighted 1 } }",
    "def def { " + BODY + " }",
    "def in { " + BODY + " }",
    "def e { splitters: if " + BODY + " }",
    "def _ { splitters: __x, A9 if _y >= 0 { " + BODY + " } }",
    "def e { if a == b { " + BODY + " } else { return 'd' weighted 1 } }",
    # --- tuples
    "def e { if a in (1) { " + BODY + " } else { return 'd' weighted 1 } }",
    "def e { if a in ((1)) { " + BODY + " } else { return 'd' weighted 1 } }",
    "def e { if a in ((1,2),(3,4)) { " + BODY + " } else { return 'd' weighted 1 } }",
    "def e { if a in ((1,(2,'x')),(3.5,-4), b) { " + BODY + " } else { return 'd' weighted 1 } }",
    "def e { if (a, 1) == (2, b) { " + BODY + " } else { return 'd' weighted 1 } }",
    "def e { if (a == 1) { " + BODY + " } else { return 'd' weighted 1 } }",
    "def e { if ((a) == 1) { " + BODY + " } else { return 'd' weighted 1 } }",
    "def e { if a in (1,) { " + BODY + " } }",
    "def e { if a in () { " + BODY + " } }",
    "def e { if a in (1 2) { " + BODY + " } }",
    # --- comments
    "// leading\ndef e { // c1\n " + BODY + " // trailing\n} // end without newline",
    "/* block */ def e { /* multi\nline\n** stars **/ " + BODY + " /**/ }",
    "def e { " + BODY + " } /* unterminated",
    "def e { /* unterminated " + BODY + " }",
    "def e { salt: \"a /* b\" splitters: x return \"// no\" weighted 1, '*/' weighted 2 }",
    "def e { /* a */ /* b */ " + BODY + " }",
    "def e { /* // */ " + BODY + " }",
    "def e { // /* \n " + BODY + " }",
    "def e { " + BODY + " } */",
    "def e { / " + BODY + " }",
    "/* \r\n \x0b \x0c \x1c \x85   */ def e { " + BODY + " }",
    # --- strings
    'def e { salt: "a\\\\b" splitters: x return "it\'s" weighted 1, \'say "hi"\' weighted 1 }',
    'def e { salt: "\\\\" splitters: x ' + BODY + " }",
    'def e { salt: "a\\"b" splitters: x ' + BODY + " }",
    'def e { salt: "" splitters: x return "" weighted 1, \'\' weighted 3 }',
    'def e { salt: "unterminated splitters: x ' + BODY + " }",
    'def e { salt: "multi\nline" splitters: x ' + BODY + " }",
    "def e { salt: 'mixed\" splitters: x " + BODY + " }",
    'def e { salt: "\t{}%s{0}\\n" splitters: x return "%d" weighted 1, "{x}" weighted 1 }',
    # --- non ASCII and odd white space
    'def e { salt: "héllo 日本 \U0001f600" splitters: x return "ü" weighted 1, "Ω" weighted 2 }',
    "def é { " + BODY + " }",
    "def e { splitters: naïve " + BODY + " }",
    "def e { return ٣ weighted ١ }",
    "def e { return 1 weighted ١.٥, 2 weighted 1 }",
    "def e {　" + BODY + " }",
    "def e {\r\n salt: 'crlf'\r\n splitters: x\r\n " + BODY + "\r\n}\r\n",
    "def e {\x0b\x0c\x1c\x1d\x1e\x1f\x85 " + BODY + " }",
    "﻿def e { " + BODY + " }",
    "def e { " + BODY + " }\x00",
    # --- numbers
    "def e { if a == 007 or a == -0 or a == -0.0 or a == 1.50 { " + BODY + " } else { return 'd' weighted 1 } }",
    "def e { if a == 1. { " + BODY + " } }",
    "def e { if a == .5 { " + BODY + " } }",
    "def e { if a == 1.5.2 { " + BODY + " } }",
    "def e { if a == 1e5 { " + BODY + " } }",
    "def e { if a == - 5 or a == -\n5.5 { " + BODY + " } else { return 'd' weighted 1 } }",
    "def e { if a == --5 { " + BODY + " } }",
    "def e { if a < " + "9" * 400 + ".0 or a > -" + "9" * 400 + ".5 { " + BODY + " } else { return 'd' weighted 1 } }",
    "def e { if a < " + "9" * 60 + " { " + BODY + " } else { return 'd' weighted 1 } }",
    "def e { return 1 weighted 0, 2.5 weighted 0.0, -3 weighted 00.10, '4' weighted 1 }",
    "def e { return 'a' weighted 0, 'b' weighted 0 }",
    "def e { return 'a' weighted -1 }",
    "def e { return 'a' weighted 'x' }",
    "def e { return a weighted 1 }",
    "def e { return (1,2) weighted 1 }",
    "def e { return 'a' weighted " + "9" * 400 + ".0, 'b' weighted 1 }",
    "def e { splitters: x return 'a' weighted 1e3 }",
    # --- invalid shapes
    "",
    "   \n\t ",
    "// only a comment",
    "/* only */",
    "def",
    "def e",
    "def e {",
    "def e { }",
    "def e { " + BODY,
    "def e { " + BODY + " } }",
    "def e { " + BODY + " } def f { " + BODY + " }",
    "def e { " + BODY + " } trailing",
    "def e { return 'a' }",
    "def e { return 'a' weighted 1, }",
    "def e { if a == 1 { } }",
    "def e { if a = 1 { " + BODY + " } }",
    "def e { if a ! 1 { " + BODY + " } }",
    "def e { if a == 1 && b == 2 { " + BODY + " } }",
    "def e { if a == 1 { " + BODY + " } else { " + BODY + " } else { " + BODY + " } }",
    "def e { else { " + BODY + " } }",
    "def e { if a { " + BODY + " } }",
    "def e { if a == 1 == 2 { " + BODY + " } }",
    "def e @ { " + BODY + " }",
    "def e { $x " + BODY + " }",
    "def e { salt: s splitters: x " + BODY + " }",
    "def e { salt \"s\" " + BODY + " }",
    "def e { splitters: 'x' " + BODY + " }",
    "def e { splitters: 1 " + BODY + " }",
    "def 1e { " + BODY + " }",
    "DEF e { " + BODY + " }",
    "def e { RETURN 'a' weighted 1 }",
    "def e [ " + BODY + " ]",
    "def e { " + BODY + " };",
    # --- names that collide with the generated python
    "def class { " + BODY + " }",
    "def None { " + BODY + " }",
    "def e { splitters: kwargs, partial " + BODY + " }",
    "def e { splitters: lambda " + BODY + " }",
    "def e { if deterministic_choice == 1 and str == 2 { " + BODY + " } else { return 'd' weighted 1 } }",
    "def choose_experiment_variant { splitters: x if map == 1 { " + BODY + " } else { return 'd' weighted 1 } }",
    "def e { splitters: x, y if x == 1 and y in ('a', 'b') { " + BODY + " } else if x > 1 { return 'c' weighted 3, 'd' weighted 1 } else { return 1.5 weighted 1, 2 weighted 1 } }",
    "def e { salt: 'S' splitters: uid if f1 == 'a' and not f2 > 4 or f3 < 9 { if f4 == 'xyz' { return '123' weighted 3.4, '9.3' weighted 5, 'abc' weighted 3 } else if f5 != 'x' { return 's1' weighted 1, 's2' weighted 0 } else if f6 in (1,2,3) and f7 not in (8,9,10) { return 't1' weighted 0.5, 't2' weighted 0.5 } else { return 'u1' weighted 0.5, 'u2' weighted 0.5 } } else { return 'default' weighted 1 } }",
    "def e { if a == 1 { if b == 2 { " + BODY + " } } }",
]

VALUES = [0, 1, 5, "a", "xyz", 3.5, None, (1, 2), "x", 2, -4, "b", 9, "S", True, 10**70]


def lex_summary(text):
    lexer = ExperimentLexer()
    out = {}
    toks = []
    try:
        for t in lexer.tokenize(text):
            toks.append([t.type, repr(t.value), t.lineno, t.index, t.end, type(t).__name__, repr(t)])
        out["error"] = None
    except Exception as e:  # noqa
        out["error"] = exc_info(e)
    out["n"] = len(toks)
    out["tokens_sha"] = sha(json.dumps(toks))
    out["head"] = toks[:4]
    out["tail"] = toks[-3:]
    out["state"] = [
        type(lexer).__name__,
        getattr(lexer, "index", None),
        getattr(lexer, "lineno", None),
        sorted(vars(lexer)),
    ]
    return out


def parse_summary(text):
    lexer = ExperimentLexer()
    parser = ExperimentParser()
    out = {}
    try:
        ast = parser.parse(lexer.tokenize(text))
        out["ast"] = None if ast is None else sha(ast.json()) + "|" + repr(ast)[:160]
        out["error"] = None
    except Exception as e:  # noqa
        out["error"] = exc_info(e)
    pv = vars(parser)
    out["parser_vars"] = sorted(pv)
    out["parser_state"] = [pv.get("state"), len(pv.get("statestack", [])), [str(s) for s in pv.get("symstack", [])], pv.get("errorok", "unset")]
    out["lexer_state"] = [type(lexer).__name__, getattr(lexer, "index", None), getattr(lexer, "lineno", None), sorted(vars(lexer))]
    try:
        ast2 = parse_source(text)
        out["parse_source"] = None if ast2 is None else sha(ast2.json())
    except Exception as e:  # noqa
        out["parse_source"] = type(e).__name__ + ":" + str(e)
    return out


def run_function(fn):
    results = []
    try:
        params = [p for p in inspect.signature(fn).parameters if p != "kwargs"]
    except Exception as e:  # noqa
        return ["signature:" + type(e).__name__]
    random.seed(20240229)
    for i in range(14):
        kwargs = {name: VALUES[(i * 3 + j * 5) % len(VALUES)] for j, name in enumerate(params)}
        if i == 12:
            kwargs["extra_unused"] = 1
        if i == 13 and params:
            kwargs.pop(params[0])
        try:
            results.append(re.sub(r" at 0x[0-9a-fA-F]+", "", repr(fn(**kwargs))))
        except Exception as e:  # noqa
            results.append(type(e).__name__ + ":" + str(e)[:80])
    return results


def codegen_summary(text):
    out = {}
    for layout in (False, True):
        key = "expose" if layout else "nested"
        try:
            code = generate_code(text, expose_internal_fn=layout) if layout else generate_code(text)
        except Exception as e:  # noqa
            out[key] = {"error": type(e).__name__ + ":" + str(e)[:100]}
            continue
        entry = {"code_sha": sha(code), "lines": code.count("\n")}
        ns = {}
        try:
            exec(compile(code, "<probe>", "exec"), ns)
        except Exception as e:  # noqa
            entry["exec_error"] = type(e).__name__
            out[key] = entry
            continue
        fns = sorted(k for k, v in ns.items() if inspect.isfunction(v) and v.__module__ is None or (inspect.isfunction(v) and v.__code__.co_filename == "<probe>"))
        entry["functions"] = fns
        name = None
        try:
            name = parse_source(text).id
        except Exception:  # noqa
            pass
        if name in ns and callable(ns[name]):
            entry["calls"] = run_function(ns[name])
        if layout and "choose_experiment_variant" in ns and name != "choose_experiment_variant":
            try:
                entry["inner_sig"] = str(inspect.signature(ns["choose_experiment_variant"]))
            except Exception as e:  # noqa
                entry["inner_sig"] = type(e).__name__
        out[key] = entry
    # the raw generator too (unformatted)
    try:
        ast = parse_source(text)
        out["raw"] = [sha(PythonCodeGen(ast).generate()), sha(PythonCodeGen(ast, expose_experiment_variant_function=False).generate()), sha(PythonCodeGen(ast, indentation_char="  ").generate())]
    except Exception as e:  # noqa
        out["raw"] = type(e).__name__
    return out


def evaluator_summary(text):
    try:
        ev = ExperimentEvaluator(text)
    except Exception as e:  # noqa
        return {"error": exc_info(e)}
    return {"vars": sorted(vars(ev)), "checksum": ev._checksum, "calls": run_function(ev.run_experiment), "call_dunder": run_function(ev.run_experiment)[:3]}


def bucketing():
    out = {}
    ids = ["", "a", "user_1", "user_2", "é", "日本", "0", "1" * 100, "S1", "salt" + "x", " ", "\n", "\ud800"] + [f"id_{i}" for i in range(300)]
    out["proba"] = []
    for s in ids[:20]:
        try:
            out["proba"].append(repr(deterministic_proba(s)))
        except Exception as e:  # noqa
            out["proba"].append(type(e).__name__)
    pops = [
        (["a", "b"], None, None),
        (["a", "b", "c"], [1, 2, 3], None),
        (["a", "b", "c"], [0, 0, 1], None),
        (["a", "b", "c"], [1, 0, 0], None),
        (["a", "b"], [0.5, 0.5], None),
        (["a", "b"], [0, 0], None),
        (["a", "b"], [1], None),
        (["a", "b"], [1, 2], [1, 3]),
        (["a", "b"], None, [1, 3]),
        (["a", "b", 3, 4.5], [3.4, 5, 3, 1e-9], None),
        (["a", "b"], [float("inf"), 1], None),
        (["a", "b"], [float("nan"), 1], None),
        (["a", "b"], [-1, 3], None),
        ([], None, None),
        ([], [], None),
        (["only"], [7], None),
        (list(range(50)), list(range(1, 51)), None),
    ]
    res = []
    for pop, w, cw in pops:
        row = []
        for s in ids:
            try:
                row.append(deterministic_choice(s, pop, w, cum_weights=cw))
            except Exception as e:  # noqa
                row.append(type(e).__name__ + ":" + str(e))
        res.append([sha(repr(row)), repr(row[:8])])
    out["choice"] = res
    random.seed(99)
    rnd = []
    for pop, w, cw in pops:
        try:
            rnd.append(repr(deterministic_choice(None, pop, w, cum_weights=cw)))
        except Exception as e:  # noqa
            rnd.append(type(e).__name__)
    out["random"] = rnd
    # salted bucketing through evaluators
    for salt in ("", "s", "S1", "é"):
        for fields in ("uid", "uid, region"):
            text = f"def b {{ salt: '{salt}' splitters: {fields} return 'x' weighted 1, 'y' weighted 2.5, 3 weighted 0.5, 4.25 weighted 0 }}"
            ev = ExperimentEvaluator(text)
            row = []
            for i in range(400):
                row.append(ev(uid=f"u{i}", region=i % 7) if "region" in fields else ev(uid=f"u{i}"))
            out[f"salted|{salt}|{fields}"] = [sha(repr(row)), repr(row[:10])]
    return out


A = "def a { splitters: uid return 'a1' weighted 1, 'a2' weighted 1 }"
B = "def b { salt: 'B' splitters: uid if k > 1 { return 'b1' weighted 1 } else { return 'b2' weighted 1, 'b3' weighted 3 } }"
BAD_SYNTAX = "def a { splitters: uid return 'a1' weighted }"
BAD_LEX = "def a { splitters: uid return 'a1' weighted 1 # }"
BAD_NAME = "def class { splitters: uid return 'a1' weighted 1 }"


def snapshot(ev):
    calls = []
    for kw in ({"uid": "u1"}, {"uid": "u2", "k": 5}, {"uid": "u3", "k": 0}, {}):
        try:
            calls.append(repr(ev(**kw)))
        except Exception as e:  # noqa
            calls.append(type(e).__name__)
    return {"checksum": ev._checksum, "vars": sorted(vars(ev)), "fn": getattr(ev.run_experiment, "__name__", "?"), "calls": calls}


def lifecycle():
    out = []
    histories = [
        [A, BAD_SYNTAX, A, B, BAD_LEX, B, A],
        [A, A, A + " ", A],
        [B, BAD_NAME, B, BAD_NAME, A],
        [A, "", A, "   ", B],
        [BAD_SYNTAX],
        [BAD_LEX, A],
        [A, B.replace("'B'", "'C'"), B],
        [A, "/* c */" + A, A + "// tail"],
    ]
    for h in histories:
        steps = []
        try:
            ev = ExperimentEvaluator(h[0])
            steps.append(snapshot(ev))
        except Exception as e:  # noqa
            steps.append({"construct_error": exc_info(e)})
            ev = ExperimentEvaluator.__new__(ExperimentEvaluator)
            steps.append(snapshot(ev))
        for text in h[1:]:
            try:
                r = ev.recompile(text)
                steps.append({"recompile": repr(r)})
            except Exception as e:  # noqa
                steps.append({"recompile_error": exc_info(e)})
            steps.append(snapshot(ev))
        out.append(steps)
    out.append({"class_checksum": ExperimentEvaluator._checksum, "parse_error_default": str(ParseError()), "unloaded": type(ExperimentEvaluator.run_experiment).__name__})
    return out


def threaded(texts):
    expected = {}
    for t in texts:
        try:
            expected[t] = sha(parse_source(t).json()) + sha(generate_code(t))
        except Exception as e:  # noqa
            expected[t] = type(e).__name__
    shared = ExperimentEvaluator(B)
    shared_expected = [repr(shared(uid=f"u{i}", k=i % 3)) for i in range(200)]
    results = [None] * 8
    barrier = threading.Barrier(8)

    def work(n):
        barrier.wait()
        ok = True
        own = ExperimentEvaluator(A)
        for rep in range(3):
            for t in texts[n % 3 :: 2]:
                try:
                    got = sha(parse_source(t).json()) + sha(generate_code(t))
                except Exception as e:  # noqa
                    got = type(e).__name__
                ok = ok and (got == expected[t])
            ok = ok and [repr(shared(uid=f"u{i}", k=i % 3)) for i in range(200)] == shared_expected
            for t in (B, BAD_SYNTAX, A, BAD_LEX):
                try:
                    own.recompile(t)
                except (YaccError, LexError):
                    pass
            ok = ok and own(uid="u1") == ExperimentEvaluator(A)(uid="u1")
        results[n] = ok

    threads = [threading.Thread(target=work, args=(n,)) for n in range(8)]
    for th in threads:
        th.start()
    for th in threads:
        th.join()
    return {"all_ok": results, "shared_sha": sha(repr(shared_expected))}


def stats():
    out = {}
    for a in (0.5, 0.975, 0.025, 0.001, 0.9995, 0.3, 1e-12):
        out[f"probit|{a}"] = repr(probit(a))
    for bad in (0, 1, -1, 2):
        try:
            out[f"probit|{bad}"] = repr(probit(bad))
        except Exception as e:  # noqa
            out[f"probit|{bad}"] = type(e).__name__
    out["probit|default"] = repr(probit())
    for n, p, c, m in [(10, 0.5, 0.95, "agresti-coull"), (10000, 0.8, 0.999, "agresti-coull"), (100, 0.1, 0.9, "wald"), (100, 0.1, 0.9, "WALD"), (1, 0.0, 0.5, "Agresti-Coull"), (50, 1.0, 0.99, "wald"), (0, 0.5, 0.95, "wald"), (10, 0.5, 0.95, "wilson"), (10, 0.5, 1.0, "wald"), (10, 0.5, 0.0, "wald")]:
        try:
            out[f"ci|{n}|{p}|{c}|{m}"] = repr(confidence_interval(n, p, c, m))
        except Exception as e:  # noqa
            out[f"ci|{n}|{p}|{c}|{m}"] = type(e).__name__
    out["ci|default"] = repr(confidence_interval())
    return out


# ---- the vendored sly runtime used directly (a second, unrelated language)
class CalcLexer(Lexer):
    tokens = {NAME, NUMBER, PLUS, TIMES, ASSIGN, IF, LPAREN, RPAREN}
    literals = {";", "?"}
    ignore = " \t"

    NAME = r"[a-zA-Z_][a-zA-Z0-9_]*"
    NAME["if"] = IF
    PLUS = r"\+"
    TIMES = r"\*"
    ASSIGN = r"="
    LPAREN = r"\("
    RPAREN = r"\)"

    @_(r"\d+")
    def NUMBER(self, t):
        t.value = int(t.value)
        return t

    @_(r"\n+")
    def ignore_newline(self, t):
        self.lineno += len(t.value)

    ignore_comment = r"\#.*"

    def error(self, t):
        self.index += 1
        t.value = t.value[0]
        return t


class StrictCalcLexer(CalcLexer):
    tokens = CalcLexer.tokens
    del ASSIGN

    def error(self, t):
        return super(CalcLexer, self).error(t)


class CalcParser(Parser):
    tokens = CalcLexer.tokens | {";", "?"}
    precedence = (("left", PLUS), ("left", TIMES))
    expected_shift_reduce = 2

    def __init__(self):
        self.log_lines = []

    @_("statements")
    def program(self, p):
        return p.statements

    @_("statements statement")
    def statements(self, p):
        return p.statements + [p.statement]

    @_("statement")
    def statements(self, p):
        return [p.statement]

    @_('NAME ASSIGN expr ";"')
    def statement(self, p):
        return ("assign", p.NAME, p.expr, p.lineno, p.index, p.end)

    @_('expr ";"')
    def statement(self, p):
        return ("expr", p.expr)

    @_('error ";"')
    def statement(self, p):
        return ("recovered", getattr(p.error, "type", None))

    @_("expr PLUS expr", "expr TIMES expr")
    def expr(self, p):
        return (p[1], p.expr0, p.expr1)

    @_("LPAREN expr RPAREN")
    def expr(self, p):
        return p.expr

    @_("NUMBER", "NAME")
    def expr(self, p):
        return p[0]

    @_('IF expr "?" expr')
    def expr(self, p):
        return ("if", p.expr0, p.expr1)


def sly_runtime():
    out = {}
    inputs = [
        "x = 1 + 2 * 3;",
        "x = (1 + 2) * y; y; if 1 ? 2;",
        "x = ; y = 2;",
        "1 + ; 2 + 2; @ 3;",
        "x = 1 + 2",
        "",
        ";",
        "x = 1 # comment\n + 2;\n\n y = $ 3;",
        "1 2 3;",
        "((1);",
        "if if;",
    ]
    for src in inputs:
        for lexcls in (CalcLexer, StrictCalcLexer):
            lexer = lexcls()
            key = f"{lexcls.__name__}|{src!r}"
            entry = {}
            try:
                entry["tokens"] = [[t.type, repr(t.value), t.lineno, t.index, t.end] for t in lexer.tokenize(src)]
            except Exception as e:  # noqa
                entry["lex_error"] = exc_info(e)
            entry["lexer"] = [lexer.index, lexer.lineno, sorted(vars(lexer))]
            lexer2 = lexcls()
            parser = CalcParser()
            err = io.StringIO()
            try:
                with contextlib.redirect_stderr(err):
                    entry["result"] = repr(parser.parse(lexer2.tokenize(src)))
            except Exception as e:  # noqa
                entry["parse_error"] = exc_info(e)
            entry["stderr"] = err.getvalue()
            entry["parser_vars"] = sorted(vars(parser))
            entry["parser_state"] = [parser.state, list(parser.statestack), [str(s) for s in parser.symstack], getattr(parser, "errorok", "unset")]
            out[key] = entry
    # tokenize with explicit start positions, twice on the same lexer object
    lexer = ExperimentLexer()
    text = "def e { /* c\n */ return 'a' weighted 1 }"
    out["restart"] = [
        [[t.type, t.lineno, t.index] for t in lexer.tokenize(text, lineno=5, index=4)],
        [type(lexer).__name__, lexer.index, lexer.lineno],
        [[t.type, t.lineno, t.index] for t in lexer.tokenize(text)],
    ]
    # a lexer abandoned inside a block comment is reused
    lexer = ExperimentLexer()
    first = [t.type for t in lexer.tokenize("def e { /* open")]
    first.append(type(lexer).__name__)
    second = []
    try:
        second = [t.type for t in lexer.tokenize("still */ def f")]
    except Exception as e:  # noqa
        second = exc_info(e)
    out["reused_in_comment"] = [first, type(lexer).__name__, second, type(lexer).__name__]
    # generator laziness: the parser pulls tokens one at a time
    pulled = []

    def spy(gen):
        for t in gen:
            pulled.append(t.type)
            yield t

    try:
        ExperimentParser().parse(spy(ExperimentLexer().tokenize("def e { return 'a' weighted 1 oops } more")))
    except Exception as e:  # noqa
        out["lazy"] = [pulled, exc_info(e)]
    tok = Token()
    tok.type, tok.value, tok.lineno, tok.index, tok.end = "ID", "v", 1, 0, 1
    out["token"] = [repr(tok), list(Token.__slots__), hasattr(tok, "__dict__")]
    out["lexerror"] = exc_info(LexError("m", "rest", 3))
    out["yaccerror"] = exc_info(YaccError("m"))
    out["parser_class"] = {
        "n_productions": len(ExperimentParser._grammar.Productions),
        "n_states": len(ExperimentParser._lrtable.lr_action),
        "track_positions": ExperimentParser.track_positions,
        "debugfile": ExperimentParser.debugfile,
        "tokens": sorted(ExperimentParser.tokens),
        "grammar_sha": sha("\n".join(str(p) for p in ExperimentParser._grammar.Productions)),
    }
    out["lexer_class"] = {
        "rules": [name for name, _ in ExperimentLexer._rules],
        "master": sha(ExperimentLexer._master_re.pattern),
        "block_rules": [name for name, _ in BlockComment._rules],
        "funcs": sorted(ExperimentLexer._token_funcs),
        "ignored": sorted(ExperimentLexer._ignored_tokens),
        "literals": sorted(ExperimentLexer.literals),
        "ignore": ExperimentLexer.ignore,
        "reflags": ExperimentLexer.reflags,
    }
    # position bookkeeping kept by a parser instance that is used twice
    p = ExperimentParser()
    a1 = p.parse(ExperimentLexer().tokenize(A))
    n1 = len(p._line_positions)
    a2 = p.parse(ExperimentLexer().tokenize(B))
    out["positions"] = [n1 > 0, len(p._line_positions) >= n1, p.line_position(a2), list(p.index_position(a2)), sorted(vars(p))]
    return out


def main():
    summary = {}
    programs = {}
    for i, text in enumerate(VALID_AND_INVALID):
        programs[f"{i:03d}|{sha(text)}"] = {
            "lex": lex_summary(text),
            "parse": parse_summary(text),
            "codegen": codegen_summary(text),
            "evaluator": evaluator_summary(text),
        }
    summary["programs"] = programs
    summary["bucketing"] = bucketing()
    summary["lifecycle"] = lifecycle()
    summary["threads"] = threaded([t for t in VALID_AND_INVALID if len(t) < 200][:40])
    summary["stats"] = stats()
    summary["sly"] = sly_runtime()
    text = json.dumps(summary, sort_keys=True, indent=1, ensure_ascii=True)
    print(text)
    print(json.dumps({"digest": hashlib.sha256(text.encode()).hexdigest(), "programs": len(programs)}))


if __name__ == "__main__":
    main()

"""Exercises the opt-in Lexer.token_hook (needs the patch)."""
from pyab_experiment.language.grammar import ExperimentParser
from pyab_experiment.language.lexer import BlockComment, ExperimentLexer
from pyab_experiment.sly.lex import Lexer, LexError, TokenLog
from pyab_experiment.sly.yacc import YaccError
from pyab_experiment.utils.wraper_functions import parse_source

TEXT = 'def e { /* c\n */ salt: "s" splitters: iffy // x\n return "a" weighted 1, 2 weighted 0.5 }'

# off by default, on every class and instance
assert Lexer.token_hook is None and ExperimentLexer.token_hook is None and BlockComment.token_hook is None
assert ExperimentLexer().token_hook is None and "token_hook" not in vars(ExperimentLexer())

# observe a parse: which token was the last one handed to the parser before it gave up?
log = TokenLog()
lexer = ExperimentLexer.observed(log)
assert isinstance(lexer, ExperimentLexer) and vars(lexer) == {"token_hook": log}
ast = ExperimentParser().parse(lexer.tokenize(TEXT))
assert ast == parse_source(TEXT)
assert log.types() == [t.type for t in ExperimentLexer().tokenize(TEXT)]
assert log.records[0] == ("KW_DEF", "def", 1, 0, 3)
# ignored rules (comments, white space) are not reported, converted values are
assert "BLOCK_COMMENT_START" not in log.types() and ("NON_NEG_FLOAT", 0.5) in [r[:2] for r in log.records]

log = TokenLog(limit=2)
try:
    ExperimentParser().parse(ExperimentLexer.observed(log).tokenize('def e { return "a" weighted 1 oops }'))
except YaccError as err:
    assert str(err) == "Syntax error at line 1, token=ID"
    assert log.types() == ["NON_NEG_INTEGER", "ID"] and log.records[-1][1] == "oops"
else:
    raise AssertionError

# a plain function works as well, set on an instance only
seen = []
lx = ExperimentLexer()
lx.token_hook = lambda tok: seen.append(tok.type)
try:
    list(lx.tokenize("def e @"))
except LexError:
    pass
assert seen == ["KW_DEF", "ID"]
# other instances and the class stay unobserved
assert ExperimentLexer.token_hook is None and ExperimentLexer().token_hook is None
seen.clear()
parse_source(TEXT)
assert seen == []


# literals and tokens returned by an error handler are reported too
class Tiny(Lexer):
    tokens = {WORD}
    literals = {"+"}
    ignore = " "
    WORD = r"[a-z]+"

    def error(self, t):
        self.index += 1
        t.value = t.value[0]
        return t


log = TokenLog()
out = [t.type for t in Tiny.observed(log).tokenize("ab + 1 cd")]
assert out == log.types() == ["WORD", "+", "ERROR", "WORD"]
print("usage ok")

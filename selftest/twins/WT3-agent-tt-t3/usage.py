"""exercises the keyword only arguments of generate_code (needs the patch)"""

from pyab_experiment.codegen.python.python_generator import PythonCodeGen
from pyab_experiment.utils.wraper_functions import generate_code, parse_source

TEXT = (
    "def demo{ salt: 's' splitters: uid, seg if seg in ('a', 'b') and x > 3 "
    "{ return 'first group with a long name' weighted 1, 'second group with a long name' weighted 2,"
    " 'third group with a long name' weighted 3 } else { return 'z' weighted 1 } }"
)


def behaviour(code):
    holder = {}
    exec(compile(code, "<usage>", "exec"), holder)
    return [holder["demo"](uid=u, seg=s, x=x) for u in range(40) for s in "ac" for x in (0, 9)]


for flag in (False, True):
    plain = generate_code(TEXT, flag)
    # explicit defaults are the defaults
    assert generate_code(TEXT, flag, header=None, formatted=True, line_length=None) == plain

    raw = generate_code(TEXT, flag, formatted=False)
    assert raw == PythonCodeGen(parse_source(TEXT), expose_experiment_variant_function=flag).generate()
    assert behaviour(raw) == behaviour(plain)

    header = "generated from demo.pyab\n\n  2 spaces\ttab\rcr ls\x00nul\x85nel  \nlast"
    with_header = generate_code(TEXT, flag, header=header)
    expected_block = "# generated from demo.pyab\n#\n#   2 spaces tab cr ls nul nel\n# last\n"
    assert with_header == expected_block + plain, with_header[:200]
    assert generate_code(TEXT, flag, header=header, formatted=False) == expected_block + raw
    assert behaviour(with_header) == behaviour(plain)
    assert generate_code(TEXT, flag, header="") == "#\n" + plain

    narrow = generate_code(TEXT, flag, line_length=40)
    wide = generate_code(TEXT, flag, line_length=400)
    assert narrow != plain and wide != plain
    assert max(map(len, wide.splitlines())) > 88
    assert generate_code(TEXT, flag, line_length=88) == plain  # black's default
    assert behaviour(narrow) == behaviour(wide) == behaviour(plain)

for kwargs, error in (
    ({"line_length": 0}, ValueError),
    ({"line_length": -3}, ValueError),
    ({"line_length": 2.5}, TypeError),
    ({"line_length": True}, TypeError),
    ({"line_length": 80, "formatted": False}, ValueError),
):
    try:
        generate_code(TEXT, **kwargs)
    except error:
        pass
    else:
        raise AssertionError(kwargs)
print("usage ok")
